(* Props/C17.v — Simulation input export is complete and faithful.
   Statements only, each closed by a lemma of Proofs/C17Proofs.v, followed by Print Assumptions.

   Model (Model/SimExport.v): `construct` builds a Sim the three documented ways (Sim(...), add / add-methods,
   @sim class), `export_all` is hdl21.sim.to_proto on a Sim or a list of Sims (module co-export `xmod`, per Sim
   `export_one` = is_tb check + `xattrs` over sim.attrs with the analysis counter threaded through `xan`).
   Specification (Spec/SimSpec.v): `rel frel s o` = "o is a complete and faithful export of s", `spec_all` for
   a whole call, `must_accept_all` = the inputs no exporter may reject.

   Float fields.  The model emits `FDec m e` = "float() of the prefixed value m*10^e".  All theorems are stated
   for an arbitrary float function `fl` (Section variable; float(Prefixed), whose nearest-double property is
   C14's subject): `conc fl` replaces every `FDec m e` by the concrete double `fl m e`, and
   `frel_fl fl m e f` holds exactly when f is that double. *)
From Coq Require Import String Ascii.
Require Import Hdl21.Base.PyInt Hdl21.Spec.SimSpec Hdl21.Model.SimExport Hdl21.Proofs.C17Proofs.
Require Import Hdl21.Base.Dec Hdl21.Model.C17Float Hdl21.Proofs.C17NearestProofs Hdl21.Proofs.C17FloatProofs.
Require Import Hdl21.Proofs.C17RoundProofs.
Require Import Hdl21.Model.C17Path Hdl21.Proofs.C17PathProofs.
Require Import Hdl21Gen.C17Tables Hdl21Gen.C17Names.
Open Scope list_scope.
Open Scope Z_scope.

Definition to_option {A} (r : result A) : option A := match r with Ok a => Some a | Error _ => None end.

(* 0. the tables the model and the specification refer to are the ones of the tree under test *)
Definition kind_class (k : akind) : string :=
  match k with KOp => "Op" | KDc => "Dc" | KAc => "Ac" | KTran => "Tran" | KNoise => "Noise"
             | KSweep => "SweepAnalysis" | KMonte => "MonteCarlo" | KCustom => "CustomAnalysis" end%string.
Definition all_kinds : list akind := [KOp; KDc; KAc; KTran; KNoise; KSweep; KMonte; KCustom].
Definition mode_name (m : smode) : string := match m with MNone => "NONE" | MAll => "ALL" | MSelected => "SELECTED" end%string.
Definition all_modes : list smode := [MNone; MAll; MSelected].
Definition pair_mem (a b : string) (l : list (string * string)) : bool :=
  existsb (fun x => String.eqb (fst x) a && String.eqb (snd x) b) l.
Definition tables_ok : bool :=
  (* the Analysis union has exactly the eight modelled members, each with the modelled AnalysisType value *)
  strs_eqb (map fst analysis_types) (map kind_class all_kinds) &&
  strs_eqb (map snd analysis_types) (map kind_name all_kinds) &&
  (* the Control union has exactly the six modelled members *)
  strs_eqb control_union ["Include"; "Lib"; "Save"; "Meas"; "Param"; "Literal"]%string &&
  (* data.SaveMode has exactly the three modelled members; export_save translates a member exactly when the model
     does, to the vlsir member of the same name; the members it refuses do not exist in vlsir.spice.Save.SaveMode *)
  strs_eqb (map fst hdl_save_modes) (map mode_name all_modes) &&
  forallb (fun m => Bool.eqb (is_ok (xsave (TMode m))) (pair_mem (mode_name m) (mode_name m) save_mode_exported)) all_modes &&
  forallb (fun m => Bool.eqb (is_ok (xsave (TMode m))) (mem_str (mode_name m) vlsir_save_modes)) all_modes &&
  forallb (fun m => Bool.eqb (ctrl_fin (CSave (TMode m))) (mem_str (mode_name m) vlsir_save_modes)) all_modes &&
  forallb (fun p => String.eqb (fst p) (snd p)) save_mode_exported &&
  (* the names a class-style definition may not use *)
  strs_eqb sim_protected_names protected_names.
Theorem C17_tables_adequate : tables_ok = true.
Proof. vm_compute. reflexivity. Qed.
Print Assumptions C17_tables_adequate.

Section C17.
(* float(Prefixed) as a function of the decimal value m*10^e *)
Variable fl : Z -> Z -> dbl.

Theorem C17_float_field_meaning m e f : frel_fl fl m e f = true <-> f = FDbl (fl m e).
Proof.
  destruct f as [m' e'|d]; simpl; split; intros H; try discriminate.
  - apply dbl_same_eq in H. subst. reflexivity.
  - inversion H; subst. apply dbl_same_eq. reflexivity.
Qed.

(* 1. partition: the options, analyses and controls of the output are exactly the exports of the attributes of that
      kind, in their original order (thread / traverse are order-preserving maps), one entry each; the three kinds
      partition the attribute list.  For every attribute list and every counter value. *)
Theorem C17_partition_stable l k os ans cs : xattrs l k = Ok (os, ans, cs) ->
  (exists k', thread xan (ans_of l) k = Ok (ans, k')) /\
  traverse xctrl (ctrls_of l) = Ok cs /\
  traverse xopt (opts_of l) = Ok os /\
  List.length ans = List.length (ans_of l) /\ List.length cs = List.length (ctrls_of l) /\
  List.length os = List.length (opts_of l) /\
  (List.length ans + List.length cs + List.length os)%nat = List.length l.
Proof.
  intros H. destruct (xattrs_partition _ _ _ _ _ H) as [[k' A] [B C]].
  pose proof (thread_length _ _ _ _ A) as LA. simpl in LA.
  pose proof (traverse_ok_length _ _ _ B) as LB. pose proof (traverse_ok_length _ _ _ C) as LC.
  repeat split; eauto. rewrite LA, LB, LC. apply partition_lengths.
Qed.

(* ... and an attribute list is exported whenever each of its attributes is *)
Theorem C17_partition_complete l k ans k' cs os :
  thread xan (ans_of l) k = Ok (ans, k') -> traverse xctrl (ctrls_of l) = Ok cs -> traverse xopt (opts_of l) = Ok os ->
  xattrs l k = Ok (os, ans, cs).
Proof. apply xattrs_complete. Qed.

(* 2. fields: every exported analysis (any variant, any nesting depth), control and option carries the names,
      expressions, paths, sweep variable and sweep kind of its source; every numeric field is the float image fl of
      the prefixed value (an_ok / ctrl_ok / opt_ok of Spec/SimSpec.v are the per-variant statements) *)
Theorem C17_fields_preserved :
  (forall a k o k', xan a k = Ok (o, k') -> an_ok (frel_fl fl) a (map_oan (conc fl) o) = true) /\
  (forall c o, xctrl c = Ok o -> ctrl_ok c o = true) /\
  (forall x o, xopt x = Ok o -> opt_ok x o = true).
Proof.
  split; [|split; [exact xctrl_ok|exact xopt_ok]].
  intros a k o k' H. exact (proj1 (xan_good (frel_fl fl) (conc fl) (frel_fl_conc fl) a k o k' H)).
Qed.

(* the property's wording: when float() returns the nearest double, every numeric field is the double nearest
   to the prefixed value *)
Theorem C17_fields_nearest : (forall m e, nearest_double m e (fl m e) = true) ->
  forall a k o k', xan a k = Ok (o, k') -> an_ok frel_nearest a (map_oan (conc fl) o) = true.
Proof.
  intros HN a k o k' H. refine (proj1 (xan_good frel_nearest (conc fl) _ a k o k' H)). intros m e. apply HN.
Qed.

(* 3. nesting: a sweep / Monte-Carlo analysis is exported as a sweep / Monte-Carlo analysis whose inner list is the
      export of its inner list (same length, same order, each inner analysis faithful, recursively), the counter
      running on from the outer name; the total number of analyses at all depths is preserved *)
Theorem C17_nested_kept :
  (forall inner v sw n k o k', xan (ASweep inner v sw n) k = Ok (o, k') ->
     exists sw' os, o = OSweep (fst (pick_name n k)) (xvar v) sw' os /\ xsweep sw = Ok sw' /\
                    thread xan inner (snd (pick_name n k)) = Ok (os, k') /\ List.length os = List.length inner /\
                    forall2b (an_ok (frel_fl fl)) inner (map (map_oan (conc fl)) os) = true) /\
  (forall inner np n k o k', xan (AMonte inner np n) k = Ok (o, k') ->
     exists os, o = OMonte (fst (pick_name n k)) np 0 os /\
                thread xan inner (snd (pick_name n k)) = Ok (os, k') /\ List.length os = List.length inner /\
                forall2b (an_ok (frel_fl fl)) inner (map (map_oan (conc fl)) os) = true) /\
  (forall a k o k', xan a k = Ok (o, k') -> oan_count o = an_count a).
Proof.
  split; [|split].
  - intros inner v sw n k o k' H. destruct (xan_sweep_inv _ _ _ _ _ _ _ H) as [sw' [os [A [B [C D]]]]].
    exists sw', os. repeat split; try assumption.
    exact (proj1 (xan_list_good (frel_fl fl) (conc fl) (frel_fl_conc fl) inner _ _ _ C)).
  - intros inner np n k o k' H. destruct (xan_monte_inv _ _ _ _ _ _ H) as [os [A [C D]]].
    exists os. repeat split; try assumption.
    exact (proj1 (xan_list_good (frel_fl fl) (conc fl) (frel_fl_conc fl) inner _ _ _ C)).
  - intros a k o k' H. exact (proj2 (proj2 (xan_good (frel_fl fl) (conc fl) (frel_fl_conc fl) a k o k' H))).
Qed.
End C17.
Print Assumptions C17_float_field_meaning.
Print Assumptions C17_partition_stable.
Print Assumptions C17_partition_complete.
Print Assumptions C17_fields_preserved.
Print Assumptions C17_fields_nearest.
Print Assumptions C17_nested_kept.

(* 4. automatic names.  The name of the n-th unnamed analysis is a fixed prefix (the regenerated table entry
      Hdl21Gen.C17Names.auto_name_prefix, read off the live exporter - the property does not fix its spelling) followed by
      the decimal rendering of n; that function is injective, whatever the prefix; the names given to the unnamed analyses of an attribute list, at all nesting
      depths, outer before inner, are exactly auto_name k, auto_name (k+1), ... — hence pairwise distinct, for any
      number of unnamed analyses at any nesting. *)
Theorem C17_auto_name_injective a b : auto_name a = auto_name b -> a = b.
Proof. exact (auto_name_inj a b). Qed.
Print Assumptions C17_auto_name_injective.
Theorem C17_auto_name_injective_any_prefix p a b : auto_name_of p a = auto_name_of p b -> a = b.
Proof. exact (auto_name_of_inj p a b). Qed.
Print Assumptions C17_auto_name_injective_any_prefix.
Example C17_auto_name_any_prefix_nonvacuous :
  auto_name_of "unnamed_analysis_" 7 = "unnamed_analysis_7" /\ auto_name_of "A1" 0 <> auto_name_of "A1" 10 /\ auto_name_of "" 3 = "3".
Proof. vm_compute. repeat split. discriminate. Qed.

Theorem C17_auto_names_distinct l k os ans cs : xattrs l k = Ok (os, ans, cs) ->
  (exists n, map2cat invented (ans_of l) ans = map auto_name (nseq k n)) /\
  NoDup (map2cat invented (ans_of l) ans) /\
  nodupb (map2cat invented (ans_of l) ans) = true.
Proof.
  intros H. destruct (xattrs_rel frel_nearest (fun f => f) frel_nearest_id _ _ _ _ _ H) as [_ [_ [_ [n Hn]]]].
  rewrite map_oan_id_list in Hn. split; [exists n; exact Hn|].
  rewrite Hn. split; [apply auto_names_nodup|apply nodupb_NoDup, auto_names_nodup].
Qed.
Print Assumptions C17_auto_names_distinct.

(* a single analysis, at any depth of nesting: the counter only grows, by the number of names invented *)
Theorem C17_auto_names_counter a k o k' : xan a k = Ok (o, k') ->
  exists n, k' = (k + N.of_nat n)%N /\ invented a o = map auto_name (nseq k n).
Proof.
  intros H. destruct (xan_good frel_nearest (fun f => f) frel_nearest_id a k o k' H) as [_ [[n [A B]] _]].
  rewrite map_oan_id in B. exists n. split; assumption.
Qed.
Print Assumptions C17_auto_names_counter.

(* 5. every form of save target is accepted and translated faithfully — modes NONE and ALL, a signal, a list of
      signals, a name, a list of names (any length).  SaveMode.SELECTED, which vlsir.spice.Save.SaveMode cannot
      express (C17_tables_adequate), is the one value refused. *)
Theorem C17_save_total t : t <> TMode MSelected -> exists o, xsave t = Ok o /\ starg_ok t o = true.
Proof. intros H. destruct (xsave_total t H) as [o Ho]. exists o. split; [exact Ho|apply xsave_ok; exact Ho]. Qed.
Print Assumptions C17_save_total.

(* 6. a testbench that does not have exactly one scalar port is rejected: by the exporter for every Sim of the call,
      however it was built, and already by the @sim decorator for the ports declared on the class's testbench *)
Theorem C17_tb_checked :
  (forall l s, In s l -> one_scalar_port (tb_ports (s_tb s)) = false -> exists e, export_all l = Error e) /\
  (forall es s, construct (BClass es) = Ok s -> one_scalar_port (tb_pre_ports (s_tb s)) = true).
Proof. split; [exact export_all_rejects|]. intros es s H. exact (proj2 (construct_class es s H)). Qed.
Print Assumptions C17_tb_checked.

(* 7. one package for the whole call, without duplicate module names, made of modules of the testbench hierarchies;
      every SimInput's `top` is the name of its Sim's testbench, present exactly once in that package and carried by
      the testbench module itself — also when several Sims share a testbench *)
Theorem C17_tb_once l outs : ids_functional (universe l) = true -> export_all l = Ok outs ->
  exists pkg, NoDup (pkg_names pkg) /\ incl pkg (universe l) /\
    Forall2 (fun s o => o_pkg o = pkg /\ o_top o = mod_name (tb_mod (s_tb s)) /\
                        count_str (o_top o) (pkg_names pkg) = 1 /\ In (mod_id (tb_mod (s_tb s)), o_top o) pkg) l outs.
Proof. exact (export_all_pkg l outs). Qed.
Print Assumptions C17_tb_once.

(* 8. the three ways of building a Sim give the same attribute list: add-calls concatenate their groups; a class body
      contributes its SimAttr-valued entries in definition order, labelled by their keys (`_` unlabelled; Save,
      Literal, Include, Lib and Options keep what they have) *)
Theorem C17_build_styles :
  (forall t groups, construct (BAdd t groups) = construct (BProc t (concat groups))) /\
  (forall es s, construct (BClass es) = Ok s -> s_attrs s = flat_map class_attr es) /\
  (forall key x, set_name key (AtAn x) = AtAn (set_an_name key x) /\ an_name (set_an_name key x) = Some key) /\
  (forall key n v, set_name key (AtOpt n v) = AtOpt n v) /\
  (forall key t, set_name key (AtCtrl (CSave t)) = AtCtrl (CSave t)) /\
  (forall key s, set_name key (AtCtrl (CLiteral s)) = AtCtrl (CLiteral s)).
Proof.
  split; [reflexivity|]. split; [intros es s H; exact (proj1 (construct_class es s H))|].
  split; [intros key x; split; [reflexivity|destruct x; reflexivity]|]. repeat split.
Qed.
Print Assumptions C17_build_styles.

(* 9. the whole property on one call: whatever to_proto does on a Sim or list of Sims satisfies the specification —
      an accepted call returns, per Sim, a complete and faithful SimInput (testbench once, three lists, fields, nested
      analyses, distinct invented names), and a call is rejected only if the specification allows it (a testbench
      without exactly one scalar port, a value the schema cannot carry, or clashing module names).
      hier_wf: identities determine names and no module instantiates itself. *)
Theorem C17_export_meets_spec (frel : Z -> Z -> fnum -> bool) (g : fnum -> fnum) l :
  (forall m e, frel m e (g (FDec m e)) = true) -> hier_wf l = true ->
  spec_all frel l (option_map (map (map_si g)) (to_option (export_all l))) = true.
Proof.
  intros Hg HW. unfold hier_wf in HW. apply andb_true_iff in HW. destruct HW as [HF HA].
  destruct (export_all l) as [outs|e] eqn:E; simpl.
  - destruct (export_all_rel frel g Hg l outs HF E) as [A B]. rewrite A, B. reflexivity.
  - destruct (must_accept_all l) eqn:EM; [|reflexivity].
    destruct (export_all_accepts l EM HA) as [outs Ho]. congruence.
Qed.
Print Assumptions C17_export_meets_spec.

Theorem C17_export_float (fl : Z -> Z -> dbl) l : hier_wf l = true ->
  spec_all (frel_fl fl) l (option_map (map (map_si (conc fl))) (to_option (export_all l))) = true.
Proof. apply C17_export_meets_spec. apply frel_fl_conc. Qed.
Print Assumptions C17_export_float.

Theorem C17_export_nearest (fl : Z -> Z -> dbl) l : (forall m e, nearest_double m e (fl m e) = true) -> hier_wf l = true ->
  spec_all frel_nearest l (option_map (map (map_si (conc fl))) (to_option (export_all l))) = true.
Proof. intros HN. apply C17_export_meets_spec. intros m e. apply HN. Qed.
Print Assumptions C17_export_nearest.

(* every input the specification says must be accepted is accepted *)
Theorem C17_accepts l : must_accept_all l = true -> forallb (fun s => acyclic (tb_mod (s_tb s))) l = true ->
  exists outs, export_all l = Ok outs.
Proof. exact (export_all_accepts l). Qed.
Print Assumptions C17_accepts.

(* ------------------------------------------------------------------------------------------ *)
(* 10. float fields, concretely (strengthening round).  Model/C17Float.v models the mechanism the theorems above leave
       to the variable `fl`: export_float's type dispatch, float(Prefixed) = float(self.scale(UNIT).number) with the
       power of ten applied in the exact decimal context, one call of CPython's float() (`rnd`).                     *)
(* ------------------------------------------------------------------------------------------ *)

(* the specification's "nearest double" is about the VALUE: every way of writing m*10^e gives the same verdict ... *)
Theorem C17_nearest_double_value a ea b eb e d : e <= ea -> e <= eb -> a * 10 ^ (ea - e) = b * 10 ^ (eb - e) ->
  nearest_double a ea d = nearest_double b eb d.
Proof. exact (nearest_double_same_value a ea b eb e d). Qed.
Print Assumptions C17_nearest_double_value.

(* ... and it determines the double: a float field has exactly one right content (rounding intervals of neighbouring
   doubles do not overlap and a shared midpoint belongs to the even one; overflow excludes every finite double) *)
Theorem C17_nearest_double_unique m e d d' : nearest_double m e d = true -> nearest_double m e d' = true -> d = d'.
Proof. exact (nearest_double_unique m e d d'). Qed.
Print Assumptions C17_nearest_double_unique.

(* export_float on any Scalar of a Sim, for ANY float() function rnd: a Prefixed of any number of digits and any prefix
   is never refused and rnd is applied exactly once, to a Decimal d denoting exactly number * 10^prefix
   (d = dint d * 10^dexp d = nm * 10^(ne+pe)); a Literal is the only refused Scalar *)
Theorem C17_export_float_one_rounding (rnd : dec -> dbl) x :
  match x with
  | NPre nm ne pe =>
      exists d, export_float rnd x = Ok (rnd d) /\ dexp d <= ne + pe /\ dint d = nm * 10 ^ (ne + pe - dexp d)
  | NLit _ => export_float rnd x = Error EBadKind
  end.
Proof. exact (export_float_one_rounding rnd x). Qed.
Print Assumptions C17_export_float_one_rounding.

(* hence: when float() rounds the Decimal it is given correctly, every exported numeric field IS the double nearest to
   the prefixed value (the relation num_ok frel_nearest that the correspondence run evaluates on the implementation) *)
Theorem C17_export_float_nearest (rnd : dec -> dbl) :
  (forall d, nearest_double (dint d) (dexp d) (rnd d) = true) ->
  forall x f, export_float rnd x = Ok f -> num_ok frel_nearest x (FDbl f) = true.
Proof. exact (export_float_nearest rnd). Qed.
Print Assumptions C17_export_float_nearest.

(* the code is the exact-context instance of the conversion parametrised by the precision of the decimal context in
   which number * Decimal(10) ** prefix is evaluated *)
Theorem C17_export_float_ctx_exact (rnd : dec -> dbl) x : export_float_ctx rnd None x = export_float rnd x.
Proof. exact (export_float_ctx_none rnd x). Qed.
Print Assumptions C17_export_float_ctx_exact.

(* the default context refutes the property: evaluating the product in 28 digits and then calling a correctly rounding
   float() puts 1.0000000000000002 into the field of a 54-digit value whose nearest double is 1.0 (just below the
   midpoint 1 + 2^-53), written with the UNIT or with the MILLI prefix - whatever correctly rounding float() is used *)
Definition w28_unit : num := NPre 100000000000000011102230246251565404236306680908203125 (-53) 0.
Definition w28_milli : num := NPre 100000000000000011102230246251565404236306680908203125 (-50) (-3).
Theorem C17_export_float_ctx28_refuted (rnd : dec -> dbl) :
  (forall d, nearest_double (dint d) (dexp d) (rnd d) = true) ->
  forall w, w = w28_unit \/ w = w28_milli ->
    export_float_ctx rnd (Some 28) w = Ok (DFin false 4503599627370497 (-52)) /\
    num_ok frel_nearest w (FDbl (DFin false 4503599627370497 (-52))) = false /\
    export_float rnd w = Ok (DFin false 4503599627370496 (-52)) /\
    num_ok frel_nearest w (FDbl (DFin false 4503599627370496 (-52))) = true.
Proof.
  intros HN w Hw.
  assert (forall r d, nearest_double (dint r) (dexp r) d = true -> rnd r = d) as U
    by (intros r d H; exact (nearest_double_unique _ _ _ _ (HN r) H)).
  destruct Hw as [-> | ->]; (split; [|split; [vm_compute; reflexivity|split; [|vm_compute; reflexivity]]]).
  - unfold export_float_ctx, w28_unit. f_equal.
    assert (unit_number_ctx (Some 28) (num_pfx 100000000000000011102230246251565404236306680908203125 (-53) 0)
            = of_int 1000000000000000111022302463 (-27)) as -> by (vm_compute; reflexivity).
    apply U. vm_compute. reflexivity.
  - unfold w28_unit. rewrite export_float_pre. f_equal. apply U. vm_compute. reflexivity.
  - unfold export_float_ctx, w28_milli. f_equal.
    assert (unit_number_ctx (Some 28) (num_pfx 100000000000000011102230246251565404236306680908203125 (-50) (-3))
            = of_int 1000000000000000111022302463 (-27)) as -> by (vm_compute; reflexivity).
    apply U. vm_compute. reflexivity.
  - unfold w28_milli. rewrite export_float_pre. f_equal. apply U. vm_compute. reflexivity.
Qed.
Print Assumptions C17_export_float_ctx28_refuted.

(* the exporter with concrete float fields (Model/C17Float.v: export_all_c) is the symbolic exporter with every
   `FDec m e` replaced by the double rnd returns for that value ... *)
Definition rmap {A B} (f : A -> B) (r : result A) : result B := match r with Ok a => Ok (f a) | Error e => Error e end.
Theorem C17_export_concrete_refines (rnd : dec -> dbl) l :
  (forall d, nearest_double (dint d) (dexp d) (rnd d) = true) ->
  export_all_c rnd l = rmap (map (map_si (conc (fl_of rnd)))) (export_all l).
Proof. intros HN. exact (export_all_c_sim rnd HN l). Qed.
Print Assumptions C17_export_concrete_refines.

(* ... hence the whole property for the concrete exporter: complete, faithful, every numeric field the nearest double *)
Theorem C17_export_concrete_meets_spec (rnd : dec -> dbl) l :
  (forall d, nearest_double (dint d) (dexp d) (rnd d) = true) -> hier_wf l = true ->
  spec_all frel_nearest l (to_option (export_all_c rnd l)) = true.
Proof.
  intros HN HW. rewrite (export_all_c_sim rnd HN l).
  pose proof (C17_export_nearest (fl_of rnd) l (fl_of_near rnd HN) HW) as H.
  destruct (export_all l); exact H.
Qed.
Print Assumptions C17_export_concrete_meets_spec.

(* 11. the nearest double exists and is computed: round_dbl (Model/C17Float.v: scaling to units of 2^-1076, binade from the
       bit length, half-even on quotient and remainders, renormalisation, overflow) satisfies the specification for EVERY
       decimal - normal, subnormal, zero, overflowing, negative.  With uniqueness: nearest_double m e is the graph of
       round_dbl, and every correctly rounding float() IS round_dec.  The hypothesis of the theorems of section 10 is
       therefore satisfiable, and the concrete exporter with round_dec has no hypothesis left but hier_wf. *)
Theorem C17_round_dbl_nearest m e : nearest_double m e (round_dbl m e) = true.
Proof. exact (round_dbl_nearest m e). Qed.
Print Assumptions C17_round_dbl_nearest.

Theorem C17_nearest_double_function m e d : nearest_double m e d = true <-> d = round_dbl m e.
Proof. exact (nearest_double_iff m e d). Qed.
Print Assumptions C17_nearest_double_function.

Theorem C17_correct_float_is_round_dec (rnd : dec -> dbl) :
  (forall d, nearest_double (dint d) (dexp d) (rnd d) = true) -> forall d, rnd d = round_dec d.
Proof. intros HN d. apply (nearest_double_iff (dint d) (dexp d)). apply HN. Qed.
Print Assumptions C17_correct_float_is_round_dec.

Theorem C17_export_computed_meets_spec l : hier_wf l = true ->
  spec_all frel_nearest l (to_option (export_all_c round_dec l)) = true.
Proof. apply C17_export_concrete_meets_spec. intros d. apply round_dbl_nearest. Qed.
Print Assumptions C17_export_computed_meets_spec.

(* every float field the computed exporter emits is a concrete double (no symbol is left) *)
Theorem C17_export_float_computed x f : export_float round_dec x = Ok f -> num_ok frel_nearest x (FDbl f) = true.
Proof. apply C17_export_float_nearest. intros d. apply round_dbl_nearest. Qed.
Print Assumptions C17_export_float_computed.

(* ------------------------------------------------------------------------------------------ *)
(* 12. paths of Include / Lib controls (second strengthening round).  The control holds pathlib's path of the text the
       designer wrote; its text is path_str (Model/C17Path.v: leading slashes none / one / exactly two, the segments
       without the empty and the "." ones, single slashes; ".." is a segment like any other).  The exporter writes that
       text, verbatim.  os.path.normpath is modelled beside it: it is the same text exactly where it has nothing to strike
       out, and the text of another path - one with fewer segments - wherever a ".." follows a named segment or the root. *)
(* ------------------------------------------------------------------------------------------ *)
Open Scope string_scope.
Definition ctrl_path (c : control) : option string := match c with CInclude p | CLib p _ => Some p | _ => None end.
Definition octrl_path (o : octrl) : option string := match o with XInclude p | XLib p _ => Some p | _ => None end.

(* every Include / Lib of the attribute list appears among the controls of the output, in order, with the text of its
   path character for character (the other controls have no path on either side) *)
Theorem C17_paths_verbatim l k os ans cs : xattrs l k = Ok (os, ans, cs) ->
  map octrl_path cs = map ctrl_path (ctrls_of l).
Proof.
  intros H. destruct (C17_partition_stable l k os ans cs H) as [_ [T _]]. clear H.
  revert cs T. induction (ctrls_of l) as [|c cl IH]; simpl; intros cs T.
  - inversion T; reflexivity.
  - destruct (xctrl c) as [o|] eqn:E; simpl in T; [|discriminate].
    destruct (traverse xctrl cl) as [os'|] eqn:E2; simpl in T; [|discriminate].
    inversion T; subst. simpl. f_equal; [|apply IH; reflexivity].
    destruct c as [p|p s|t| |nm v|]; simpl in E; try (inversion E; subst; reflexivity).
    + destruct t as [[]| | | |]; simpl in E; inversion E; subst; reflexivity.
    + destruct (xpnum v); simpl in E; inversion E; subst; reflexivity.
Qed.
Print Assumptions C17_paths_verbatim.

(* ... and the specification accepts no other text in that place *)
Theorem C17_path_spec_exact p sec p' sec' :
  (ctrl_ok (CInclude p) (XInclude p') = true -> p' = p) /\
  (ctrl_ok (CLib p sec) (XLib p' sec') = true -> p' = p /\ sec' = sec).
Proof.
  split; simpl; intros H.
  - apply String.eqb_eq in H. congruence.
  - apply andb_true_iff in H. destruct H as [A B]. apply String.eqb_eq in A, B. split; congruence.
Qed.
Print Assumptions C17_path_spec_exact.

(* the text of a path is a fixed point: it is the text of the path it denotes ... *)
Theorem C17_path_text_fixed w : path_str (path_str w) = path_str w.
Proof. apply path_str_idem. Qed.
Print Assumptions C17_path_text_fixed.

(* ... and it denotes the path of the written text: same root, same segments in the same order - all segments of the
   written text other than the empty ones and the "." ones, the ".." ones included; nothing is struck out *)
Theorem C17_path_segments_kept w :
  root_of (path_str w) = root_of w /\
  parts_of (path_str w) = filter keep_seg (split_slash w) /\
  count_occ string_dec (parts_of (path_str w)) ".." = count_occ string_dec (filter keep_seg (split_slash w)) "..".
Proof.
  pose proof (parse_path_str w) as H. unfold parse_path in H. inversion H as [[R P]].
  repeat split; try assumption. rewrite !P. reflexivity.
Qed.
Print Assumptions C17_path_segments_kept.

(* what the designer writes in normal form is exported as written *)
Theorem C17_path_normal_text_kept r ps : forallb seg_ok ps = true ->
  let w := render_path {| p_root := r; p_parts := ps |} in path_str w = w.
Proof.
  intros H w. unfold w, path_str. rewrite parse_render; [reflexivity|exact H].
Qed.
Print Assumptions C17_path_normal_text_kept.

(* os.path.normpath gives the text of the path exactly where there is nothing to strike out ... *)
Theorem C17_normpath_agrees w :
  strikes (negb (proot_eqb (root_of w) RNone)) None (parts_of w) = false -> normpath w = path_str w.
Proof. apply normpath_agrees. Qed.
Print Assumptions C17_normpath_agrees.

(* ... and the text of another path wherever a ".." follows a named segment or the root: an exporter that writes
   normpath of the path violates the specification on every such Include and Lib (the seeded change as a theorem) *)
Theorem C17_normpath_refuted w sec :
  strikes (negb (proot_eqb (root_of w) RNone)) None (parts_of w) = true ->
  normpath w <> path_str w /\
  ctrl_ok (CInclude (path_str w)) (XInclude (normpath w)) = false /\
  ctrl_ok (CLib (path_str w) sec) (XLib (normpath w) sec) = false.
Proof.
  intros H. pose proof (normpath_differs w H) as D.
  assert (E : String.eqb (path_str w) (normpath w) = false).
  { apply String.eqb_neq. intros E. apply D. symmetry. exact E. }
  repeat split; [exact D| |]; simpl; rewrite E; reflexivity.
Qed.
Print Assumptions C17_normpath_refuted.

Example C17_ex_paths :
  path_str "/pdk/current/../corners.lib" = "/pdk/current/../corners.lib" /\
  normpath "/pdk/current/../corners.lib" = "/pdk/corners.lib" /\
  path_str "tb/../../shared/models.lib" = "tb/../../shared/models.lib" /\
  normpath "tb/../../shared/models.lib" = "../shared/models.lib" /\
  strikes false None (parts_of "tb/../../shared/models.lib") = true /\
  strikes false None (parts_of "../../shared/./models.lib") = false /\
  path_str "////pdk//./m.lib//" = "/pdk/m.lib" /\ path_str "//server/share/" = "//server/share" /\
  path_str "" = "." /\ path_str "./" = "." /\ path_str "a/.." = "a/.." /\ normpath "a/.." = "." /\ normpath "/../x" = "/x" /\
  path_str ".../..x/a..b" = ".../..x/a..b" /\
  (forall k, xattrs [AtCtrl (CLib (path_str "a//b/../c/") "tt"); AtCtrl (CSave (TMode MAll)); AtCtrl (CInclude (path_str "/x/../y"))] k
             = Ok ([], [], [XLib "a/b/../c" "tt"; XSaveMode MAll; XInclude "/x/../y"])).
Proof. vm_compute. repeat split. Qed.

(* ------------------------------------------------------------------------------------------ *)
(* non-vacuity: concrete, non-trivial instances                                                *)
(* ------------------------------------------------------------------------------------------ *)
Open Scope string_scope.
Definition ex_tb (i : N) (nm : string) : tbdesc :=
  {| tb_mod := HMod i nm [HMod 100 "Leaf" []]; tb_pre_ports := [1]; tb_ports := [1] |}.
Definition ex_attrs : list attr :=
  [ AtAn (ATran (NPre 1 0 (-9)) None None);
    AtCtrl (CSave (TSigs ["a"; "b"]));
    AtOpt "reltol" (VNum (NPre 1 (-3) 0));
    AtAn (ASweep [AAc (NPre 1 0 0) (NPre 1 0 9) 10 None;
                  AMonte [AOp None; ADc (VStr "x") (SwPts [NPre 5 (-1) 0]) (Some "mydc")] 11 None]
                 (VPar (Some "p")) (SwLin (NPre 0 0 0) (NPre 1 0 0) (NPre 1 (-1) 0)) (Some "sw"));
    AtCtrl (CSave (TNames []));
    AtAn (AOp None);
    AtCtrl (CMeas (MAn KTran) "v(out)" (Some "m1")) ].
Definition ex_sims : list sim :=
  [ {| s_tb := ex_tb 0 "Tb"; s_attrs := ex_attrs |};
    {| s_tb := ex_tb 0 "Tb"; s_attrs := [AtAn (AOp None)] |};
    {| s_tb := ex_tb 1 "Tb2"; s_attrs := [] |} ].

(* the hypotheses of 7, 9 hold for a list of Sims sharing a testbench and a leaf module; the call is accepted *)
Example C17_ex_hyps : hier_wf ex_sims = true /\ must_accept_all ex_sims = true /\ is_ok (export_all ex_sims) = true.
Proof. vm_compute. repeat split. Qed.

(* the shared testbench and the shared leaf are in the package once; tops name the testbenches *)
Example C17_ex_pkg :
  option_map (map (fun o => (o_top o, o_pkg o))) (to_option (export_all ex_sims)) =
  Some [("Tb", [(100%N, "Leaf"); (0%N, "Tb"); (1%N, "Tb2")]); ("Tb", [(100%N, "Leaf"); (0%N, "Tb"); (1%N, "Tb2")]);
        ("Tb2", [(100%N, "Leaf"); (0%N, "Tb"); (1%N, "Tb2")])].
Proof. vm_compute. reflexivity. Qed.

(* five unnamed analyses over three nesting levels get <prefix>0..<prefix>4 (outer before inner), user names stay *)
Example C17_ex_names :
  match xattrs ex_attrs 0 with
  | Ok (_, ans, _) => map2cat invented (ans_of ex_attrs) ans = [(auto_name 0); (auto_name 1); (auto_name 2); (auto_name 3); (auto_name 4)] /\
                      map oan_name ans = [(auto_name 0); "sw"; (auto_name 4)]
  | Error _ => False
  end.
Proof. vm_compute. split; reflexivity. Qed.

(* decimal rendering of the counter: the tenth and hundredth unnamed analyses *)
Example C17_ex_render : auto_name 10 = String.append auto_name_prefix "10" /\ auto_name 109 = String.append auto_name_prefix "109"
  /\ auto_name 0 = String.append auto_name_prefix "0" /\ auto_name_of "Analysis" 10 = "Analysis10".
Proof. vm_compute. repeat split. Qed.

(* the specification is not trivially true: a dropped control, swapped sweep bounds, a wrong float, a repeated
   invented name, a top that is in the package twice are all refused *)
Definition ex_fl (m e : Z) : dbl := DFin false m e.       (* any function will do for the float-image theorems *)
Definition ex_one : sim := {| s_tb := ex_tb 0 "Tb"; s_attrs := [AtAn (AAc (NPre 1 0 0) (NPre 1 0 9) 10 None); AtCtrl (CInclude "a.sp"); AtAn (AOp None)] |}.
Definition ex_out (a b : fnum) (n2 : string) (cs : list octrl) (pkg : list (N * string)) : siminput :=
  {| o_top := "Tb"; o_pkg := pkg; o_opts := []; o_an := [OAc (auto_name 0) a b 10; OOp n2]; o_ctrls := cs |}.
Definition ex_pkg : list (N * string) := [(100%N, "Leaf"); (0%N, "Tb")].
Example C17_ex_spec_discriminates :
  let f := frel_fl ex_fl in
  rel f ex_one (ex_out (FDbl (ex_fl 1 0)) (FDbl (ex_fl 1 9)) (auto_name 1) [XInclude "a.sp"] ex_pkg) = true /\
  rel f ex_one (ex_out (FDbl (ex_fl 1 0)) (FDbl (ex_fl 1 9)) (auto_name 1) [] ex_pkg) = false /\
  rel f ex_one (ex_out (FDbl (ex_fl 1 9)) (FDbl (ex_fl 1 0)) (auto_name 1) [XInclude "a.sp"] ex_pkg) = false /\
  rel f ex_one (ex_out (FDbl (ex_fl 1 0)) (FDbl (ex_fl 10 8)) (auto_name 1) [XInclude "a.sp"] ex_pkg) = false /\
  rel f ex_one (ex_out (FDbl (ex_fl 1 0)) (FDbl (ex_fl 1 9)) (auto_name 0) [XInclude "a.sp"] ex_pkg) = false /\
  rel f ex_one (ex_out (FDbl (ex_fl 1 0)) (FDbl (ex_fl 1 9)) (auto_name 1) [XInclude "a.sp"] ((7%N, "Tb") :: ex_pkg)) = false /\
  rel f ex_one (ex_out (FDbl (ex_fl 1 0)) (FDbl (ex_fl 1 9)) (auto_name 1) [XInclude "a.sp"] [(100%N, "Leaf")]) = false.
Proof. vm_compute. repeat split. Qed.

(* every save-target form, incl. the two list forms that the pinned tree refused *)
Example C17_ex_save :
  map xsave [TMode MAll; TMode MNone; TSig "out"; TSigs ["a"; "b"]; TName "n1"; TNames ["x"; "y"; "z"]; TNames []] =
  [Ok (XSaveMode MAll); Ok (XSaveMode MNone); Ok (XSaveSig "out"); Ok (XSaveSig "a,b"); Ok (XSaveSig "n1");
   Ok (XSaveSig "x,y,z"); Ok (XSaveSig "")].
Proof. vm_compute. reflexivity. Qed.

(* rejected testbenches: no port, two ports, one port of width 2; a parent and child module with one name *)
Example C17_ex_rejected :
  let bad p := [{| s_tb := {| tb_mod := HMod 0 "Tb" []; tb_pre_ports := p; tb_ports := p |}; s_attrs := [] |}] in
  is_ok (export_all (bad [])) = false /\ is_ok (export_all (bad [1; 1])) = false /\ is_ok (export_all (bad [2])) = false /\
  is_ok (export_all (bad [1])) = true /\
  is_ok (export_all [{| s_tb := {| tb_mod := HMod 0 "E" [HMod 1 "E" []]; tb_pre_ports := [1]; tb_ports := [1] |}; s_attrs := [] |}]) = false /\
  is_ok (construct (BClass [("tb", CeTb {| tb_mod := HMod 0 "Tb" []; tb_pre_ports := [2]; tb_ports := [2] |})])) = false.
Proof. vm_compute. repeat split. Qed.

(* class-style: keys become names, `_` and Options / Save / Literal keep theirs, non-attributes are forgotten *)
Example C17_ex_class :
  option_map s_attrs (to_option (construct (BClass
    [("tb", CeTb (ex_tb 0 "Tb")); ("mytran", CeAttr (AtAn (ATran (NPre 1 0 (-9)) None None))); ("a_path", CeOther);
     ("opts", CeAttr (AtOpt "reltol" (VNum (NPre 1 (-9) 0)))); ("_", CeAttr (AtAn (AOp None)));
     ("sv", CeAttr (AtCtrl (CSave (TMode MAll)))); ("name", CeName "S"); ("lit", CeAttr (AtCtrl (CLiteral ".x")))]))) =
  Some [AtAn (ATran (NPre 1 0 (-9)) None (Some "mytran")); AtOpt "reltol" (VNum (NPre 1 (-9) 0)); AtAn (AOp None);
        AtCtrl (CSave (TMode MAll)); AtCtrl (CLiteral ".x")].
Proof. vm_compute. reflexivity. Qed.

(* strengthening round: the Decimal handed to float() for 3.3*n, 11*K and a 54-digit value; it denotes the value exactly *)
Example C17_ex_unit_dec :
  unit_dec 33 (-1) (-9) = of_int 33 (-10) /\ unit_dec 11 0 3 = of_int 11000 0 /\
  unit_dec 100000000000000011102230246251565404236306680908203125 (-50) (-3) =
    of_int 100000000000000011102230246251565404236306680908203125 (-53) /\
  nearest_double 33 (-10) (DFin false 7978910409456553 (-81)) = true /\
  nearest_double 33 (-10) (DFin false 7978910409456554 (-81)) = false.
Proof. vm_compute. repeat split. Qed.

(* the hypotheses of C17_nearest_double_value / _unique on non-trivial data: 1.50*10^3 = 1500, and the nearest double
   of 0.1 is accepted while both of its neighbours are refused *)
Example C17_ex_nearest :
  (-2 <= -2 /\ -2 <= 0 /\ 150 * 10 ^ (1 - -2) = 1500 * 10 ^ (0 - -2)) /\
  nearest_double 1 (-1) (DFin false 7205759403792794 (-56)) = true /\
  nearest_double 1 (-1) (DFin false 7205759403792793 (-56)) = false /\
  nearest_double 1 (-1) (DFin false 7205759403792795 (-56)) = false.
Proof. vm_compute. repeat split; discriminate. Qed.

(* round_dbl on the corners: 0.1, the smallest subnormal and the tie below it (to even: 0), just above that tie, the
   largest double, the overflow threshold (tie: to infinity) and just below it, a negative overflow, zero, and the
   54-digit value of C17_export_float_ctx28_refuted *)
Example C17_ex_round_dbl :
  round_dbl 1 (-1) = DFin false 7205759403792794 (-56) /\
  round_dbl 5 (-324) = DFin false 1 (-1074) /\
  round_dbl 24703282292062327208 (-343) = DFin false 0 (-1074) /\
  round_dbl 24703282292062327209 (-343) = DFin false 1 (-1074) /\
  round_dbl 17976931348623157 292 = DFin false 9007199254740991 971 /\
  round_dbl (2 ^ 1024 - 2 ^ 970) 0 = DInf false /\
  round_dbl (2 ^ 1024 - 2 ^ 970 - 1) 0 = DFin false 9007199254740991 971 /\
  round_dbl (-1) 400 = DInf true /\ round_dbl 0 7 = DFin false 0 (-1074) /\
  export_float round_dec w28_milli = Ok (DFin false 4503599627370496 (-52)) /\
  export_float_ctx round_dec (Some 28) w28_milli = Ok (DFin false 4503599627370497 (-52)).
Proof. vm_compute. repeat split. Qed.

(* the computed exporter on the example Sims: accepted, and the nanosecond transient carries the double nearest to 1e-9 *)
Example C17_ex_computed :
  hier_wf ex_sims = true /\
  option_map (fun outs => map (fun o => hd (OOp "") (o_an o)) outs) (to_option (export_all_c round_dec ex_sims)) =
  Some [OTran (auto_name 0) (FDbl (DFin false 4835703278458517 (-82))) (FDbl (DFin false 0 (-1074))); OOp (auto_name 0); OOp ""].
Proof. vm_compute. split; reflexivity. Qed.
