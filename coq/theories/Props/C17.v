(* Props/C17.v — placeholder, filled in below *)
Require Import Hdl21.Base.PyInt Hdl21.Spec.SimSpec Hdl21.Model.SimExport.
Example C17_ex_placeholder : one_scalar_port [1] = true.
Proof. reflexivity. Qed.
