(* Corr/C01G.v — the tie of the MODEL OF THE BUNDLE PASSES (Model/C01GBundlePasses.v) to the implementation, for one bundle design:
   Coq computes bundle_passes d, checks the hypotheses of Props/C01G.v on it, runs the pipeline model (Model/C01FElab.v) on the
   result and compares the model's package with the implementation's package.
   Codes: 0  hypotheses hold; model package and implementation package have the nets of the written design on all terminals,
             the same ports (names, order, directions) in every module, the same instance names (Pair members, array
             elements), every flattened signal of the model is a signal of the implementation's module; packages identical
          7  as 0, but the packages differ in something the property does not fix (names / order of invented signals)
          8  bundle_passes d is outside frag_ok2 (a loop between reference groups): implementation against the specification only
          9  bundle_passes d is not valid by Spec/WfDesign.v: outside the corollary; implementation against the specification only
          1/6 the implementation violates the property (as reported by chk_c01b)
          2  the implementation satisfies the property but the model rejects the design, or the model's names (flattened
             ports and signals, Pair members, terminal names) differ from the implementation's (tie broken)
          4  the model's package does not have the nets of the design (would contradict C01G_bundles_end_to_end)
          5  bundle_passes d is not lower_m fl_impl (ib_design d) (would contradict C01G_bundle_passes_is_lower)
          3  a decidable hypothesis of the theorems fails (harness / spec inconsistency) *)
Require Import Hdl21.Base.PyInt Hdl21.Spec.PySlice Hdl21.Model.Slice Hdl21.Model.Resolve Hdl21.Base.Design
               Hdl21.Spec.Nets Hdl21.Spec.WfDesign Hdl21.Base.Package Hdl21.Base.PrimTable Hdl21.Spec.PkgWf
               Hdl21.Corr.C03 Hdl21.Corr.C01 Hdl21.Base.C01BDesign Hdl21.Spec.C01BNets Hdl21.Spec.C01BWf Hdl21.Spec.C01BLower
               Hdl21.Corr.C01B Hdl21.Spec.C01ENets Hdl21.Model.C01EElab Hdl21.Model.C01FElab Hdl21.Spec.C01FNets
               Hdl21.Corr.C01E Hdl21.Proofs.C01FProofsEnd Hdl21.Proofs.C01FProofsBundles Hdl21.Corr.C01FB
               Hdl21.Spec.C01GLower Hdl21.Model.C01GBundlePasses.
Require Hdl21.Spec.BundleSpec Hdl21.Model.BundleFlat.

(* ---- equality of designs (for code 5) ---- *)
Definition oz_eqb (a b : option Z) : bool :=
  match a, b with Some x, Some y => x =? y | None, None => true | _, _ => false end.
Definition index_eqb (a b : index) : bool :=
  match a, b with
  | Idx i, Idx j => i =? j
  | Sl a1 a2 a3, Sl b1 b2 b3 => oz_eqb a1 b1 && oz_eqb a2 b2 && oz_eqb a3 b3
  | _, _ => false
  end.
Fixpoint sx_eqb (a b : sx) : bool :=
  match a, b with
  | XSig i w, XSig j v => N.eqb i j && (w =? v)
  | XSlice p ix, XSlice q iy => sx_eqb p q && index_eqb ix iy
  | XConcat ps, XConcat qs =>
      (fix go (l r : list sx) : bool :=
         match l, r with [], [] => true | x :: l', y :: r' => sx_eqb x y && go l' r' | _, _ => false end) ps qs
  | _, _ => false
  end.
Definition target_eqb (a b : target) : bool :=
  match a, b with
  | TMod j, TMod k => Nat.eqb j k
  | TDev x ps, TDev y qs => String.eqb x y && list_eqb nz_eqb ps qs
  | _, _ => false
  end.
Definition inst_eqb (a b : inst) : bool :=
  String.eqb (i_name a) (i_name b) && (i_n a =? i_n b) && target_eqb (i_of a) (i_of b) &&
  list_eqb (fun x y : name * sx => String.eqb (fst x) (fst y) && sx_eqb (snd x) (snd y)) (i_conns a) (i_conns b).
Definition module_eqb (a b : module) : bool :=
  String.eqb (m_name a) (m_name b) && list_eqb nz_eqb (m_ports a) (m_ports b) && list_eqb nz_eqb (m_sigs a) (m_sigs b) &&
  list_eqb inst_eqb (m_insts a) (m_insts b) &&
  list_eqb (fun x y : N * leaf => N.eqb (fst x) (fst y) && leaf_eqb (snd x) (snd y)) (m_leaves a) (m_leaves b).
Definition design_eqb (a b : design) : bool := list_eqb module_eqb (d_mods a) (d_mods b) && Nat.eqb (d_top a) (d_top b).

(* ---- the directions of the flattened ports (hdl21 PortDir as exported: 0 in, 1 out, 2 inout, 3 none) ---- *)
Definition dir_code (x : BundleSpec.dir) : Z :=
  match x with BundleSpec.DIn => 0 | BundleSpec.DOut => 1 | BundleSpec.DInout => 2 | BundleSpec.DNone => 3 end.

Definition flat_dirs (m : bmodule) : list (name * Z) :=
  match mscopes m with
  | Ok scs => flat_map (fun bs : string * BundleSpec.scope =>
                          match find_bundle (bm_bundles m) (fst bs) with
                          | Some (true, _) => map (fun e => (BundleSpec.fname (snd e), dir_code (BundleSpec.fdir (snd e)))) (snd bs)
                          | _ => []
                          end) scs
  | Error _ => []
  end.

Definition xinfo_flat (xi : xinfo) (d1 : bdesign) : xinfo :=
  {| x_devs := x_devs xi; x_ncnames := x_ncnames xi;
     x_dirs := map (fun m => (bm_name m, (match assoc (bm_name m) (x_dirs xi) with Some l => l | None => [] end) ++ flat_dirs m)) (bd_mods d1) |}.

(* ---- names the model fixes, against the implementation's package ---- *)
Definition find_pmod (p : package) (n : name) : option pmodule := find (fun pm => String.eqb (pm_name pm) n) (pk_mods p).

Definition sig_in (l : list (name * Z)) (s : name * Z) : bool := existsb (nz_eqb s) l.

(* model module pm against implementation module pi; flat = the flattened internal signals of the model *)
Definition names_agree (flat : list (name * Z)) (pm pi : pmodule) : bool :=
  list_eqb nz_eqb (pm_ports pm) (pm_ports pi) &&
  (* the instance NAMES agree as a set (names are unique in a module): the order in which a Module's instance arrays are
     flattened - hence the order of the instances in the package - is no part of the property *)
  (let a := map pi_name (pm_insts pm) in let b := map pi_name (pm_insts pi) in
   Nat.eqb (Datatypes.length a) (Datatypes.length b) &&
   forallb (fun x => existsb (String.eqb x) b) a && forallb (fun x => existsb (String.eqb x) a) b) &&
  forallb (sig_in (pm_sigs pi)) flat.

Definition module_flat_sigs (d1 : bdesign) (n : name) : list (name * Z) :=
  match find (fun m => String.eqb (bm_name m) n) (bd_mods d1) with
  | Some m => match mscopes m with Ok scs => flat_sigs false m scs | Error _ => [] end
  | None => []
  end.

Definition pkg_names_agree (d1 : bdesign) (pm pi : package) : bool :=
  (Nat.eqb (Datatypes.length (pk_mods pm)) (Datatypes.length (pk_mods pi))) &&
  forallb (fun m => match find_pmod pi (pm_name m) with
                    | Some m' => names_agree (module_flat_sigs d1 (pm_name m)) m m'
                    | None => false
                    end) (pk_mods pm).

(* the implementation's package read on the terminal names the MODEL computes: nets and leaf devices of the written design *)
Definition impl_ok_on (cb : c01b_case) (mts : list node) (bl : list Z) : bool :=
  match cb_pkg cb, bterminals (cb_design cb) with
  | Some pi, Ok bts =>
      let bdev_of (n : bnode) := match find (fun x => bnode_eqb (fst x) n) bts with Some x => snd x | None => "?" end in
      match pkg_view pi (cb_top cb) mts with
      | Some iv => view_eqb iv (bl, map bdev_of (cb_terms cb))
      | None => false
      end
  | _, _ => false
  end.

Definition chk_c01g (c : c01fb_case) : Z :=
  let cb := fb_case c in
  let d := cb_design cb in
  let ts := cb_terms cb in
  let ci := chk_c01b cb in
  (* 3: the design / terminal list is not valid; 6: rejected by the implementation.  1 is looked at again below: chk_c01b names
     Pair members inst_p / inst_n, which is not what the implementation does when such a name is taken *)
  if (ci =? 3) || (ci =? 6) then ci else
  match ib_design d, bundle_passes d with
  | Ok d1, Ok d' =>
      let xi := xinfo_flat (fb_xinfo c) d1 in
      let ts1 := map (up_node d) ts in
      if negb (design_eqb d' (lower_m fl_impl d1)) then 5 else
      (* the decidable hypotheses of C01G_bundles_end_to_end (names_ok_m and no_pairs are theorems: evaluated as a cross-check) *)
      if negb (pairs_wf d && bp_wf d1 && forallb (node_path_ok d) ts) then 3 else
      if negb (names_ok_m fl_impl d1 && no_pairs d1) then 4 else
      match traverse (borbit d (bdesign_fuel d)) ts, blabels d (bdesign_fuel d) ts, blabels d1 (bdesign_fuel d1) ts1 with
      | Ok os, Ok bl, Ok bl1 =>
          if negb (zlist_eqb bl bl1) then 4 else
          if negb (forallb (forallb (bnode_ok d)) os && forallb (orbit_closed d) os) then 3 else
          match wf_design d', terminals d' with
          | Ok _, Ok tl =>
              if negb (forallb (fun t => existsb (node_eqb (phi_m fl_impl d1 t)) (map fst tl)) ts1) then 3 else
              if negb (xinfo_ok xi d') then 3 else
              if negb (frag_ok2 d') then (if ci =? 0 then 8 else ci) else
              match elab_export_model2 xi d', top_name d' with
              | Ok pm, Ok tn =>
                  let mts := map (fun t => term_map2 xi d' (phi_m fl_impl d1 t)) ts1 in
                  match design_of_pkg prims_ext pm tn with
                  | Ok pd =>
                      match labels pd (design_fuel pd) mts with
                      | Ok pl =>
                          if negb (zlist_eqb pl bl) then 4 else
                          match cb_pkg cb with
                          | Some pi =>
                              if negb (impl_ok_on cb mts bl) then (if ci =? 0 then 2 else ci) else
                              if negb (pkg_names_agree d1 pm pi) then 2 else
                              if pkg_eqb pm pi then 0 else 7
                          | None => 6
                          end
                      | Error _ => 4
                      end
                  | Error _ => 4
                  end
              | Error _, _ => if ci =? 0 then 2 else ci
              | _, Error _ => 3
              end
          | _, _ => if ci =? 0 then 9 else ci
          end
      | _, _, _ => 3
      end
  | _, _ => if ci =? 0 then 2 else ci
  end.

(* diagnostics for replays *)
Definition dbg_c01g (c : c01fb_case) :=
  let d := cb_design (fb_case c) in
  match ib_design d, bundle_passes d with
  | Ok d1, Ok d' =>
      let xi := xinfo_flat (fb_xinfo c) d1 in
      (Some d', Some (elab_export_model2 xi d'), map (fun t => term_map2 xi d' (phi_m fl_impl d1 (up_node d t))) (cb_terms (fb_case c)),
       traverse (pterm d) (cb_terms (fb_case c)))
  | _, _ => (None, None, [], Error EOther)
  end.

(* ---- malformed stream: designs that the bundle passes must REFUSE (an anonymous bundle with a member the port does not have /
   without a member it has, a no-connect inside an anonymous bundle, a Pair's anonymous bundle with a member other than p, n).
   0 both refuse; 2 the model refuses, the implementation exports a package; 3 the model does not refuse (harness) ---- *)
Definition chk_c01g_reject (c : c01fb_case) : Z :=
  match bundle_passes (cb_design (fb_case c)), cb_pkg (fb_case c) with
  | Error _, None => 0
  | Error _, Some _ => 2
  | Ok _, _ => 3
  end.
