(* Corr/C02.v — a faulty design (wf_design = Error) must be rejected by elaborate, to_proto and netlist.
   codes: 0 ok; 1 a faulty design was accepted by an entry point; 9 the mutant is not faulty by the
   specification (not counted as a case); 10 the *valid* base design is not valid by the specification. *)
Require Import Hdl21.Base.PyInt Hdl21.Base.Design Hdl21.Spec.WfDesign Hdl21.Spec.Nets Hdl21.Corr.C03 Hdl21.Corr.C06.
Require Import Hdl21.Model.Checks Hdl21.Model.C02Checks.

(* the tie of Model/C02Checks.v to the implementation: on the fragment the model claims (and under the givens of
   Props/C02.v theorem 10) the model accepts exactly when the implementation does; code 2 otherwise *)
Definition tied (d : design) : bool := frag d && given d.
Definition tie (d : design) (impl : bool) : bool := negb (tied d) || Bool.eqb (model_accepts d) impl.

(* impl_accepts: did any of the three entry points return normally? *)
Definition chk_c02 (c : design * bool) : Z :=
  let '(d, impl_accepts) := c in
  match wf_design d with
  | Ok _ => if tie d impl_accepts then 9 else 2
  | Error _ => if impl_accepts then 1 else if tie d impl_accepts then 0 else 2
  end.

(* error class of the specification, plus 500 when the case is in the tied fragment *)
Definition fault_class (c : design * bool) : Z :=
  match wf_design (fst c) with Ok _ => 0 | Error e => err_code e end + (if tied (fst c) then 500 else 0).
Definition classes (l : list (design * bool)) : list (Z * Z) := number_from 0 fault_class l.

(* ---- bundle designs (Spec/C02BundleWf.v) ---- *)
Require Import Hdl21.Spec.C02BundleWf.

Definition chk_c02b (c : bdesign * bool) : Z :=
  let '(d, impl_accepts) := c in
  match bwf_design d with
  | Ok _ => 9
  | Error _ => if impl_accepts then 1 else 0
  end.
Definition fault_class_b (c : bdesign * bool) : Z :=
  match bwf_design (fst c) with Ok _ => 0 | Error e => err_code e end.
Definition classes_b (l : list (bdesign * bool)) : list (Z * Z) := number_from 0 fault_class_b l.

(* ---- the unmutated base designs: valid by the specification, and then the implementation must accept them
   at all three entry points (guards against a check that is satisfied by rejecting everything).
   second component: did ALL entry points return normally?   10: valid design rejected; 11: generator produced
   a base design the specification calls faulty *)
Definition chk_base (c : design * bool) : Z :=
  match wf_design (fst c) with Ok _ => if snd c then (if tie (fst c) true then 0 else 2) else 10 | Error _ => 11 end.
Definition chk_base_b (c : bdesign * bool) : Z :=
  match bwf_design (fst c) with Ok _ => if snd c then 0 else 10 | Error _ => 11 end.

(* one evaluation for both numbers: code * 1000 + error class, for every case *)
Definition both {A} (f g : A -> Z) (l : list A) : list (Z * Z) := number_from 0 (fun c => f c * 1000 + g c) l.
