(* Corr/C02.v — a faulty design (wf_design = Error) must be rejected by elaborate, to_proto and netlist.
   codes: 0 ok; 1 a faulty design was accepted by an entry point; 9 the mutant is not faulty by the
   specification (not counted as a case); 10 the *valid* base design is not valid by the specification. *)
Require Import Hdl21.Base.PyInt Hdl21.Base.Design Hdl21.Spec.WfDesign Hdl21.Spec.Nets Hdl21.Corr.C03 Hdl21.Corr.C06.

(* impl_accepts: did any of the three entry points return normally? *)
Definition chk_c02 (c : design * bool) : Z :=
  let '(d, impl_accepts) := c in
  match wf_design d with
  | Ok _ => 9
  | Error _ => if impl_accepts then 1 else 0
  end.

Definition fault_class (c : design * bool) : Z :=
  match wf_design (fst c) with Ok _ => 0 | Error e => err_code e end.
Definition classes (l : list (design * bool)) : list (Z * Z) := number_from 0 fault_class l.
