(* Corr/C07E.v — the tie of the CONCRETE pass manager (Model/C07EConcrete.v) to the implementation, per call history
   over a core-fragment design: Coq runs the manager with the concrete bodies (checks on) through the same history as the
   implementation and compares, call by call,
     - the verdict (returned / raised) of every elaborate / to_proto / netlist call,
     - the package of every to_proto(module t) call with the package the model exports from the manager's answer
       (Model/C01EElab.v:export_model over the modules the answer lists), syntactically (module order, signal order, names,
       widths, port directions, instances, parameters, connection targets - Corr/C01E.v:pkg_eqb),
     - the implementation's package with the package the implementation returns for the single call to_proto(t) in a
       fresh process (the property itself, independent of the model).
   Codes: 0 all agree; 1 the implementation's answer depends on the history (property violated);
          2 the implementation is history independent but differs from the model (tie broken);
          3 malformed case (design not listed in completion order, lengths, a call the harness does not generate);
          5 the design is outside the modelled fragment (a port reference or no-connect inside a slice / concatenation: the
            pipeline models of C01E / C02E do not follow update_ref_deps into nested references) - no verdict, counted;
          4 the model contradicts its own theorems on this case (manager's answer differs from the whole-design pipeline
            model elab_model / checked_elab although the table facts hold): a defect of the checker. *)
From Coq Require Import String.
Require Import Hdl21.Base.PyInt Hdl21.Spec.PySlice Hdl21.Model.Slice Hdl21.Model.Resolve Hdl21.Base.Design
               Hdl21.Spec.WfDesign Hdl21.Base.Package Hdl21.Corr.C03 Hdl21.Corr.C01 Hdl21.Model.C01EElab Hdl21.Corr.C01E
               Hdl21.Model.C02EPipeline Hdl21.Model.C07EConcrete Hdl21.Proofs.C07EProofsChain Hdl21.Proofs.C07EProofsFail.
Open Scope Z_scope.

Record c07e_case := {
  e_design : design; e_xinfo : xinfo;
  e_hist : list PM.op;
  e_impl : list (bool * option package);     (* per call: returned?; the package of a to_proto call that returned *)
  e_refs : list (nat * option package) }.    (* module t -> package of to_proto(t) alone in a fresh process (None: raised) *)

Definition opt_pkg_eqb (a b : option package) : bool :=
  match a, b with
  | Some p, Some q => pkg_eqb p q
  | None, None => true
  | _, _ => false
  end.

Fixpoint lookup_ref (t : nat) (l : list (nat * option package)) : option (option package) :=
  match l with
  | [] => None
  | (k, p) :: r => if Nat.eqb k t then Some p else lookup_ref t r
  end.

(* every module at or below the tops is free of errors: the call returns *)
Definition call_ok (d : design) (st : cstate) (tops : list nat) : bool :=
  forallb (fun m => match cc_err (PM.s_content st m) with None => true | Some _ => false end)
          (PM.export_order (ckids d) tops).

Definition worse (a b : Z) : Z := if (a =? 1) || (b =? 1) then 1 else if (a =? 3) || (b =? 3) then 3 else Z.max a b.

(* one call: new state and code *)
Definition chk_call (c : c07e_case) (st : cstate) (o : PM.op) (r : bool * option package) : cstate * Z :=
  let d := e_design c in
  let '(st', resp) := cstep true (e_xinfo c) st o in
  match o, resp with
  | PM.Export [t], PM.RPkg _ ans =>
      let model := answer_package (e_xinfo c) d t ans in
      match lookup_ref t (e_refs c) with
      | None => (st', 3)
      | Some ref =>
          if negb (Bool.eqb (fst r) (match snd r with Some _ => true | None => false end)) then (st', 3)
          else if negb (opt_pkg_eqb (snd r) ref) then (st', 1)
          else match model, snd r with
               | Ok pm, Some pi => (st', if pkg_eqb pm pi then 0 else 2)
               | Error _, None => (st', 0)
               | _, _ => (st', 2)
               end
      end
  | PM.Elaborate tops, PM.RDone _ => (st', if Bool.eqb (call_ok d st' tops) (fst r) then 0 else 2)
  | PM.Netlist tops, PM.RPkg _ _ => (st', if Bool.eqb (call_ok d st' tops) (fst r) then 0 else 2)
  | _, _ => (st', 3)
  end.

Fixpoint chk_calls (c : c07e_case) (st : cstate) (h : list PM.op) (rs : list (bool * option package)) (acc : Z) : cstate * Z :=
  match h, rs with
  | [], [] => (st, acc)
  | o :: h', r :: rs' => let '(st', code) := chk_call c st o r in chk_calls c st' h' rs' (worse acc code)
  | _, _ => (st, 3)
  end.

(* the theorems, evaluated on the case: when every module has been reached and the table facts hold, the design the
   manager holds is the one the whole-design checked pipeline returns *)
Definition all_reached (d : design) (h : list PM.op) : bool :=
  forallb (fun m => existsb (fun o => existsb (Nat.eqb m) (PM.export_order (ckids d) (op_tops o))) h)
          (seq 0 (Datatypes.length (d_mods d))).

Fixpoint mods_eqb (a b : list module) : bool :=
  match a, b with
  | [], [] => true
  | x :: a', y :: b' =>
      String.eqb (m_name x) (m_name y) && list_eqb nz_eqb (m_ports x) (m_ports y) && list_eqb nz_eqb (m_sigs x) (m_sigs y) &&
      Nat.eqb (Datatypes.length (m_insts x)) (Datatypes.length (m_insts y)) &&
      list_eqb (fun i j => String.eqb (i_name i) (i_name j) && (i_n i =? i_n j) &&
                           list_eqb (fun c e => String.eqb (fst c) (fst e)) (i_conns i) (i_conns j)) (m_insts x) (m_insts y) &&
      mods_eqb a' b'
  | _, _ => false
  end.

Definition theorem_consistent (c : c07e_case) (st : cstate) : bool :=
  let d := e_design c in
  if negb (checked_list_ok && all_reached d (e_hist c)) then true else
  match state_design d st, checked_elab (e_xinfo c) d with
  | Ok d1, Ok d2 => mods_eqb (d_mods d1) (d_mods d2)
  | Error _, Error _ => true
  | _, _ => false
  end.

Definition chk_c07e (c : c07e_case) : Z :=
  let d := e_design c in
  match hier_design d with
  | Error _ => 3
  | Ok _ =>
      if negb (forallb is_call (e_hist c)) then 3 else
      if negb (frag_conns d) then 5 else      (* a reference / no-connect inside a slice or concatenation: not modelled (C01E, C02E) *)
      let '(st, code) := chk_calls c (cfresh d) (e_hist c) (e_impl c) 0 in
      if (code =? 0) && negb (theorem_consistent c st) then 4 else code
  end.

(* the table facts of Props/C07E.v on the tree under test, for the evidence record *)
Definition table_facts : Z * Z := ((if checked_list_ok then 1 else 0), (if unchecked_list_ok then 1 else 0)).

(* diagnosis: the code of every call *)
Fixpoint dbg_calls (c : c07e_case) (st : cstate) (h : list PM.op) (rs : list (bool * option package)) : list Z :=
  match h, rs with
  | o :: h', r :: rs' => let '(st', code) := chk_call c st o r in code :: dbg_calls c st' h' rs'
  | _, _ => []
  end.
Definition dbg_c07e (c : c07e_case) : list Z := dbg_calls c (cfresh (e_design c)) (e_hist c) (e_impl c).

(* ------------------------------------------------------------------------------------------------ C08E: failure points
   One to_proto(module t) call in a fresh process under logging subclasses of the default passes: the implementation reports
   the (entry, module) whose body raised (None: the call returned, or raised outside a pass body).  The model: the machine of
   Model/C08PassFail.v (policy `repaired`) run with the failure points of the concrete bodies as its oracle, each point encoded
   in its error identity, so that the FIRST point the traversal meets can be read off the error the call ends with.
   Codes: 0 same verdict and same failing (entry, module); 2 differ; 5 outside the modelled fragment; 3 malformed. *)
Record c08e_case := { f_design : design; f_xinfo : xinfo; f_top : nat; f_ok : bool; f_point : option (nat * nat) }.

Definition enc_point (p m : nat) (e : err) : Z := 1 + Z.of_nat p + 100 * Z.of_nat m.

Definition model_point (c : c08e_case) : option (option (nat * nat)) :=
  match snd (fst (PF.do_call PF.repaired PF.init (ccall_with enc_point true (f_xinfo c) (f_design c) [f_top c] true))) with
  | None => Some None
  | Some (PF.CE z) => Some (Some (Z.to_nat ((z - 1) mod 100), Z.to_nat ((z - 1) / 100)))
  | Some _ => None
  end.

Definition chk_c08e (c : c08e_case) : Z :=
  match hier_design (f_design c) with
  | Error _ => 3
  | Ok _ =>
      if negb (frag_conns (f_design c)) then 5 else
      match model_point c, f_ok c, f_point c with
      | Some None, true, None => 0
      | Some (Some (p, m)), false, Some (q, k) => if Nat.eqb p q && Nat.eqb m k then 0 else 2
      | None, _, _ => 3
      | _, _, _ => 2
      end
  end.

Definition dbg_c08e (c : c08e_case) : option (option (nat * nat)) * list (nat * nat * Z) :=
  (model_point c, failure_points_with enc_point true (f_xinfo c) (f_design c)).
