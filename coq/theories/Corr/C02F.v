(* Corr/C02F.v — the tie of the checked pipeline with NESTED references (Model/C02FPipeline.v:checked_run2) and of the checked
   pipeline WITH BUNDLES (Model/C02FBundles.v:checked_bundle_run) to the implementation.

   Core cases (c02f_case): as Corr/C02E.v - the model's verdict for to_proto against h.to_proto raising or not, its verdict for
   elaborate against h.elaborate, the rejecting stage against the ElabPass class (or the exporter, or the constructors: "build")
   the implementation's error came from.
     code 0 agree
          1 model and implementation disagree on to_proto and the SPECIFICATION (wf_design) sides with the model
          2 they disagree and the specification sides with the implementation (or they disagree on elaborate alone): tie broken
          4 the model contradicts Props/C02F.v on a design inside the hypotheses of the theorem (checker defect)
          5 both reject, in different passes: tie broken on the rejecting pass
     Tie codes (2, 5) are given only INSIDE the scope the model is claimed for:
          given_e d && frag_f d,  and the model did not run out of fuel (a loop between the sources of reference groups:
          valid, elaborated by the implementation since fixes/C01F-1, declined by the model - Props/C02F.v:C02F_ex_loop).
     (Before fixes/C02F-1 a port that is no-connected and referred to only INSIDE a slice / concatenation passed handle_noconn in the
     implementation - the Slice, not the PortRef, carries the connected port - and the design was rejected later by accident, or, when
     a slice dropped the part, not at all.  The model always failed in ResolvePortRefs: module_portrefs holds every reference.)
   chk_c02f = code * 10000 + stage * 100 + (in C02F scope) * 10 + (in C02E scope: given_e && frag_e).

   Bundle cases (c02fb_case): verdict only (to_proto).  code 0 agree; 1 the implementation returned a package for a design the
   model rejects and either Spec/C01BWf.v calls it faulty or the model's reason is an extra member (EExtra: fixes/C02-1, C02-2);
   2 otherwise disagree (inside bp_wf of the written design, model not out of fuel); chk_c02fb = code * 1000 + stage * 10 + scope. *)
From Coq Require Import String.
Require Import Hdl21.Base.PyInt Hdl21.Base.Design Hdl21.Spec.WfDesign Hdl21.Spec.C01ENets Hdl21.Spec.C01FNets Hdl21.Base.Package
               Hdl21.Base.C01BDesign Hdl21.Spec.C01BWf Hdl21.Spec.C01GLower
               Hdl21.Model.C02Checks Hdl21.Model.C01EElab Hdl21.Model.C01FElab Hdl21.Model.C01GBundlePasses
               Hdl21.Model.C02EPipeline Hdl21.Model.C02FPipeline Hdl21.Model.C02FBundles Hdl21.Corr.C03 Hdl21.Corr.C02E.
Open Scope string_scope.
Open Scope Z_scope.

Record c02f_case := { f_design : design; f_xinfo : xinfo;
                      f_elab : bool;       (* h.elaborate returned *)
                      f_proto : bool;      (* h.to_proto returned *)
                      f_where : string }.  (* where to_proto's error came from: pass class, "export", "build", "?" *)

Definition stage2_idx (s : stage2) : Z := match s with SBuild => 10 | SOf s' => stage_idx s' end.

Definition is_efuel {A} (r : result A) : bool := match r with Error EFuel => true | _ => false end.
Definition is_enoconn {A} (r : result A) : bool := match r with Error ENoConn => true | _ => false end.

Definition in_scope2 (d : design) (r : result package) : bool := given_e d && frag_f d && negb (is_efuel r).
Definition in_scope_e (d : design) : bool := given_e d && frag_e d.

Definition where_ok2 (s : stage2) (r : result package) (w : string) : bool :=
  String.eqb w "?" || String.eqb w "build" ||
  match s with
  | SBuild => false                              (* only the constructors refuse there: "build" *)
  | SOf SExport => String.eqb w "export"
  | SOf s' => String.eqb w (stage_pass s')
  end.

Definition code_c02f (c : c02f_case) : Z * stage2 * bool :=
  let d := f_design c in
  let '(s, r) := checked_run2 (f_xinfo c) d in
  let ma := is_ok r in
  let me := match s with SOf SExport => true | SOf SDone => true | _ => false end in
  let sa := is_ok (wf_design d) in
  let sc := in_scope2 d r in
  (if sc && all_used d && ma && negb sa then 4
   else if sc && all_used d && sa && frag_ok2 d && xinfo_ok (f_xinfo c) d && negb ma && negb (is_ename r) then 4
   else if negb (Bool.eqb ma (f_proto c)) then (if Bool.eqb sa (f_proto c) then (if sc then 2 else 0) else 1)
   else if sc && negb (Bool.eqb me (f_elab c)) then 2
   else if sc && negb ma && negb (where_ok2 s r (f_where c)) then 5
   else 0, s, sc).

Definition chk_c02f (c : c02f_case) : Z :=
  let '(code, s, sc) := code_c02f c in
  code * 10000 + stage2_idx s * 100 + (if sc then 10 else 0) + (if in_scope_e (f_design c) then 1 else 0).

Definition all_c02f (l : list c02f_case) : list (Z * Z) := number_from 0 chk_c02f l.

(* ------------------------------------------------------------------------------------------------ bundles *)
Record c02fb_case := { fb_design : bdesign; fb_xi : xinfo; fb_proto : bool }.

Definition bstage_idx (s : bstage) : Z :=
  match s with SBInstBundles => 21 | SBConnTypes => 22 | SBFlatten => 23 | SBOf s' => stage2_idx s' end.

Definition is_eextra {A} (r : result A) : bool := match r with Error EExtra => true | _ => false end.

Definition code_c02fb (c : c02fb_case) : Z * bstage * bool :=
  let d := fb_design c in
  let '(s, r) := checked_bundle_run (fb_xi c) d in
  let ma := is_ok r in
  let sa := is_ok (wf_bdesign d) in
  let sc := bp_wf d && negb (is_efuel r) in
  (if Bool.eqb ma (fb_proto c) then 0
   else if fb_proto c then (if negb sa || is_eextra r then 1 else if sc then 2 else 0)      (* implementation accepts, model rejects *)
   else if sc then 2 else 0,                                                                   (* model accepts, implementation rejects *)
   s, sc).

Definition chk_c02fb (c : c02fb_case) : Z :=
  let '(code, s, sc) := code_c02fb c in code * 1000 + bstage_idx s * 10 + (if sc then 1 else 0).

Definition all_c02fb (l : list c02fb_case) : list (Z * Z) := number_from 0 chk_c02fb l.
