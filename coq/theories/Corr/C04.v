(* Corr/C04.v — evaluator of the C04 correspondence run.
   A case is a history of connection operations on the instances of one module, with the
   implementation's observation after EVERY operation (Instance.conns, the `_connected_ports` sets,
   the handed-out references), the final mapping the harness built its abstract design from, and the
   C01 case (abstract design of the FINAL mapping + the package the implementation exported after
   the whole history).
   Result: 0 ok, else code + 10 * (index of the first offending step + 1); the export check counts as
   step number `length steps`.
     code 1: the implementation violates the specification (Spec/C04LastWrite.v / Spec/Nets.v)
     code 2: the specification is met, but the implementation differs from the model (dict order,
             back-reference sets, handed-out references)
     code 3: harness inconsistency (final mapping / design given by the harness is not the specified one)
     code 6: the valid final design was rejected by the implementation (reported as code 1 class) *)
Require Import Hdl21.Base.PyInt Hdl21.Model.C04ConnOps Hdl21.Spec.C04LastWrite.
Require Hdl21.Corr.C01.

Record obs := { o_conns : list (pid * conn);        (* conns of every instance, instance by instance, dict order *)
                o_back : list (conn * list pid);    (* _connected_ports of every connectable the driver knows *)
                o_handed : list pid;                (* keys of _refs.portrefs *)
                o_unique : bool }.                  (* inst.p is inst.p, and the refs in the back sets are those objects *)
Inductive istep := IS (o : op) (acc : bool) (ob : obs).
Record hcase := { h_insts : list Z; h_ports : list Z; h_steps : list istep;
                  h_final : list (pid * conn); h_net : option Hdl21.Corr.C01.c01_case }.

Definition universe (h : hcase) : list pid :=
  concat (map (fun i => map (fun p => (i, p)) (h_ports h)) (h_insts h)).

Definition copt_eqb (a b : option conn) : bool :=
  match a, b with Some x, Some y => conn_eqb x y | None, None => true | _, _ => false end.

Definition subset (a b : list pid) : bool := forallb (fun q => mem q b) a.
Definition set_eqb (a b : list pid) : bool := subset a b && subset b a.

Fixpoint nodup_pids (l : list pid) : bool :=
  match l with [] => true | q :: t => negb (mem q t) && nodup_pids t end.

Fixpoint sm_get (q : pid) (sm : list (pid * option conn)) : option conn :=
  match sm with [] => None | (q', c) :: t => if pid_eqb q q' then c else sm_get q t end.

Definition sm_step (sm : list (pid * option conn)) (o : op) : list (pid * option conn) :=
  map (fun e => (fst e, port_step (fst e) (snd e) o)) sm.

(* the observation is exactly the specified mapping, and every back-reference set is its pre-image *)
Definition obs_spec_ok (u : list pid) (sm : list (pid * option conn)) (ob : obs) : bool :=
  let m := fun q => sm_get q sm in
  o_unique ob &&
  nodup_pids (map fst (o_conns ob)) &&
  forallb (fun e => mem (fst e) u) (o_conns ob) &&
  forallb (fun q => copt_eqb (lookup q (o_conns ob)) (m q)) u &&
  forallb (fun e => nodup_pids (snd e) && set_eqb (snd e) (attached m u (fst e))) (o_back ob) &&
  forallb (fun q => match m q with
                    | Some c => existsb (fun e => conn_eqb c (fst e)) (o_back ob)
                    | None => true end) u.

Definition touches_only_universe (u : list pid) (o : op) : bool :=
  match o with
  | Call i kvs => forallb (fun kv => mem (i, fst kv) u) kvs
  | SetAttr i p _ | Connect i p _ | Replace i p _ | Disconnect i p | GetRef i p => mem (i, p) u
  end.

Fixpoint walk_spec (u : list pid) (sm : list (pid * option conn)) (steps : list istep) (idx : Z)
  : Z * list (pid * option conn) :=
  match steps with
  | [] => (0, sm)
  | IS o acc ob :: t =>
      if negb (touches_only_universe u o) then (3 + 10 * (idx + 1), sm) else
      let sm' := sm_step sm o in
      if Bool.eqb acc (accepted (fun q => sm_get q sm) o) && obs_spec_ok u sm' ob
      then walk_spec u sm' t (idx + 1) else (1 + 10 * (idx + 1), sm)
  end.

Fixpoint pc_list_eqb (a b : list (pid * conn)) : bool :=
  match a, b with
  | [], [] => true
  | (q, c) :: a', (q', c') :: b' => pid_eqb q q' && conn_eqb c c' && pc_list_eqb a' b'
  | _, _ => false
  end.

Definition of_inst (i : Z) (l : list (pid * conn)) := filter (fun e => fst (fst e) =? i) l.

Definition model_matches (insts : list Z) (s : state) (ob : obs) : bool :=
  forallb (fun i => pc_list_eqb (of_inst i (st_conns s)) (of_inst i (o_conns ob))) insts &&
  forallb (fun e => set_eqb (snd e) (back_of (fst e) (st_back s))) (o_back ob) &&
  set_eqb (o_handed ob) (st_handed s).

Fixpoint walk_model (insts : list Z) (s : state) (steps : list istep) (idx : Z) : Z :=
  match steps with
  | [] => 0
  | IS o acc ob :: t =>
      let r := C04ConnOps.step s o in
      if Bool.eqb acc (snd r) && model_matches insts (fst r) ob
      then walk_model insts (fst r) t (idx + 1) else 2 + 10 * (idx + 1)
  end.

Definition final_ok (u : list pid) (sm : list (pid * option conn)) (f : list (pid * conn)) : bool :=
  nodup_pids (map fst f) && forallb (fun e => mem (fst e) u) f &&
  forallb (fun q => copt_eqb (lookup q f) (sm_get q sm)) u.

Definition chk_history (h : hcase) : Z :=
  let u := universe h in
  let n := Z.of_nat (List.length (h_steps h)) in
  let '(r, sm) := walk_spec u (map (fun q => (q, None)) u) (h_steps h) 0 in
  if negb (r =? 0) then r else
  if negb (final_ok u sm (h_final h)) then 3 + 10 * (n + 1) else
  let net := match h_net h with
             | None => 0
             | Some c => let k := Hdl21.Corr.C01.chk_c01 c in
                         if k =? 0 then 0 else if k =? 3 then 3 + 10 * (n + 1) else
                         if k =? 6 then 6 + 10 * (n + 1) else 1 + 10 * (n + 1)
             end in
  if negb (net =? 0) then net else walk_model (h_insts h) init (h_steps h) 0.
