(* Corr/C08.v — evaluators of the C08 correspondence run.  Per history (one fresh interpreter):
     code 0                    every call satisfies the specification and the model predicts what the implementation did
     code 1 + 10*(step+1)      the implementation violates the SPECIFICATION of C08 at that call
     code 2 + 10*(step+1)      the specification holds but the model (Model/C08PassFail.v, policy `repaired`) differs
   The specification below is written on observables only (outcome of each call, what a fresh process returns for that
   call alone, emptiness of the pending sets) and does not mention the pass manager's algorithm. *)
Require Import Hdl21.Base.PyInt Hdl21.Model.C08PassFail Hdl21.Model.C08GenFail Hdl21.Model.C08Elaborator Hdl21.Corr.C03.
Open Scope list_scope.

(* what a call returned: a package (digest of its deterministic serialisation + its modules in order) or an error *)
Inductive iout := IOk (digest : Z) (mods : list nat) | IErr (e : cerr).

Record obs := {
  o_out : iout;
  o_txt : Z;                        (* identity of the WHOLE error text (class, message with the hierarchical path, addresses
                                       scrubbed); 0 when the call returned.  `CCycle m` in o_out forgets the path, this does not *)
  o_pend_empty : bool;              (* every CLASS_LEVEL_CACHE.pending is empty after the call *)
  o_done : list (nat * nat);        (* the done sets of the pass classes the history uses *)
  o_failed : list (nat * Z);        (* modules carrying a failure record, with the recorded error *)
  o_elab : list nat;                (* modules marked _elaborated *)
  o_installed : list nat            (* class identities of the_global_elaborator.passes when the call was made *)
}.

Record step := {
  st_call : call;
  st_obs : obs;
  st_retry_of : option nat;         (* this call repeats that earlier call, nothing changed in between *)
  st_fresh : option iout;           (* what a fresh process returns for this call alone (same objects, same edits) *)
  st_fresh_txt : Z;                 (* ... and the identity of its error text *)
  st_min : option iout;             (* what a process returns in which NOTHING BUT the design of this call was ever built;
                                       given for designs that never contained the faulty module *)
  st_min_txt : Z;
  st_bad : option (nat * bool);     (* the call is built to fail inside this module; true = inside a rewriting pass *)
  st_search : option Z;             (* a real design fault: the failing (pass, module) is located by search *)
  st_carry : bool;                  (* the design fault located earlier is still present *)
  st_install : einstall             (* how the pass list of this call is made (Model/C08Elaborator.v); the driver ends
                                       every call with reset_elaborator() *)
}.

Definition cerr_eqb (a b : cerr) : bool :=
  match a, b with
  | CE x, CE y => x =? y
  | CCycle x, CCycle y => Nat.eqb x y
  | CNoMod x, CNoMod y => Nat.eqb x y
  | CFuel, CFuel => true
  | _, _ => false
  end.
Fixpoint nats_eqb (a b : list nat) : bool :=
  match a, b with
  | [], [] => true
  | x :: a', y :: b' => Nat.eqb x y && nats_eqb a' b'
  | _, _ => false
  end.
Definition iout_eqb (a b : iout) : bool :=
  match a, b with
  | IOk d m, IOk d' m' => (d =? d') && nats_eqb m m'
  | IErr e, IErr e' => cerr_eqb e e'
  | _, _ => false
  end.

(* ------------------------------------------------------------------ the specification, on observables *)
(* offenders: (module, left half-rewritten, the error reported when it failed) of the earlier failed calls *)
Definition offender := (nat * bool * (cerr * Z))%type.
Definition same_as (o : obs) (fo : iout) (ft : Z) : bool := iout_eqb (o_out o) fo && (o_txt o =? ft).

Definition spec_step (offs : list offender) (outs : list (iout * Z)) (s : step) : bool :=
  let o := st_obs s in
  let r := reach (st_call s) in
  let inreach := filter (fun x : offender => memn (fst (fst x)) r) offs in
  let halfs := filter (fun x : offender => snd (fst x)) inreach in
  (* 1. nothing is left pending *)
  o_pend_empty o &&
  (* 2. repeating a failed call reports the original error again: the same text, hierarchical path included *)
  match st_retry_of s with
  | Some j => match nth_error outs j with
              | Some (IErr e, t) => same_as o (IErr e) t
              | _ => true
              end
  | None => true
  end &&
  (* 3. a design containing a module left half-rewritten is never exported: the call reports that module's error *)
  match halfs with
  | [] => true
  | _ => match o_out o with
         | IErr e => existsb (fun x : offender => cerr_eqb e (fst (snd x)) && (o_txt o =? snd (snd x))) halfs
         | IOk _ _ => false
         end
  end &&
  (* 4. a package that is returned is the package of a fresh process *)
  match o_out o with
  | IOk _ _ => match st_fresh s with Some fo => iout_eqb (o_out o) fo | None => false end
  | IErr _ => true
  end &&
  (* 5. a design that contains no offending module behaves as in a fresh process: same package, or the same error text *)
  match inreach with
  | [] => match st_fresh s with Some fo => same_as o fo (st_fresh_txt s) | None => true end
  | _ => true
  end &&
  (* 6. ... whatever else was built next to it: "the result a fresh process gives" for a design is the result of the
        process in which only that design exists *)
  match inreach, st_min s with
  | [], Some fo => same_as o fo (st_min_txt s)
  | _, _ => true
  end.

Definition new_offender (s : step) : list offender :=
  match st_bad s, o_out (st_obs s) with
  | Some (m, hf), IErr e => [(m, hf, (e, o_txt (st_obs s)))]
  | _, _ => []
  end.

(* ------------------------------------------------------------------ the model against the implementation *)
Definition subset_pm (a b : list (nat * nat)) : bool := forallb (fun x => memp x b) a.
Definition same_pm (a b : list (nat * nat)) : bool := subset_pm a b && subset_pm b a.
Definition subset_n (a b : list nat) : bool := forallb (fun x => memn x b) a.
Definition same_failed (a b : list (nat * Z)) : bool :=
  forallb (fun x : nat * Z => match rec_of (fst x) b with Some c => c =? snd x | None => false end) a &&
  forallb (fun x : nat * Z => match rec_of (fst x) a with Some c => c =? snd x | None => false end) b.

Definition model_out (r : pst * option cerr * list nat) (exporting : bool) (d : Z) : iout :=
  match snd (fst r) with
  | Some e => IErr e
  | None => IOk (if exporting then d else 0) (snd r)
  end.

Definition digest_of (o : iout) : Z := match o with IOk d _ => d | IErr _ => 0 end.

Definition agrees (ms : pst) (c : call) (o : obs) : bool :=
  let r := do_call repaired ms c in
  let s1 := fst (fst r) in
  nats_eqb (map pid (c_passes c)) (o_installed o) &&
  iout_eqb (model_out r (c_export c) (digest_of (o_out o))) (o_out o) &&
  same_pm (done s1) (o_done o) &&
  same_failed (failed s1) (o_failed o) &&
  (subset_n (elab s1) (o_elab o) && subset_n (o_elab o) (elab s1)) &&
  Bool.eqb (match pend s1 with [] => true | _ => false end) (o_pend_empty o).

Definition with_fail (c : call) (fl : list (nat * nat * Z)) : call :=
  {| c_kids := c_kids c; c_passes := c_passes c; c_tops := c_tops c; c_fail := fl ++ c_fail c; c_export := c_export c |}.

(* all (pass, module) positions of a call *)
Definition positions (c : call) : list (nat * nat) :=
  flat_map (fun p : pass => map (fun km : nat * list nat => (pid p, fst km)) (c_kids c)) (c_passes c).

Fixpoint find_loc (ms : pst) (c : call) (o : obs) (code : Z) (cands : list (nat * nat)) : option (nat * nat * Z) :=
  match cands with
  | [] => None
  | (p, m) :: rest => if agrees ms (with_fail c [(p, m, code)]) o then Some (p, m, code) else find_loc ms c o code rest
  end.

(* the default pass list, as the pass records of the calls made with it show it *)
Fixpoint default_of (ss : list step) : list pass :=
  match ss with
  | [] => []
  | s :: ss' => match st_install s with EReset => c_passes (st_call s) | _ => default_of ss' end
  end.

(* Model/C08Elaborator.v, `fresh = true`: the list the_global_elaborator holds after this call's installation *)
Definition model_list (dflt : list pass) (es : est) (s : step) : option (list pass) :=
  match einstall_step true dflt es (st_install s) with Some es1 => current es1 | None => None end.
Definition passes_eqb (a b : list pass) : bool :=
  nats_eqb (map pid a) (map pid b) && forallb (fun x => x) (map (fun ab : pass * pass => Bool.eqb (prw (fst ab)) (prw (snd ab)) && Bool.eqb (pmk (fst ab)) (pmk (snd ab))) (combine a b)).

Fixpoint chk_steps (dflt : list pass) (es : est) (k : Z) (ms : pst) (carry : list (nat * nat * Z)) (offs : list offender) (outs : list (iout * Z))
                   (ss : list step) : Z :=
  match ss with
  | [] => 0
  | s :: ss' =>
      if negb (spec_step offs outs s) then 1 + 10 * (k + 1) else
      (* the pass list of the call is the one the elaborator model installs (whatever was installed and edited before) *)
      if negb (match dflt, model_list dflt es s with
               | [], _ => true                      (* no call with the default list in this history: nothing to compare with *)
               | _, Some l => passes_eqb l (c_passes (st_call s))
               | _, None => false
               end) then 2 + 10 * (k + 1) else
      let es' := match einstall_step true dflt es (st_install s) with
                 | Some es1 => match einstall_step true dflt es1 EReset with Some es2 => es2 | None => es1 end
                 | None => es
                 end in
      let carried := if st_carry s then carry else [] in
      let c0 := with_fail (st_call s) carried in
      let found := match st_search s with
                   | Some code => match o_out (st_obs s) with
                                  | IErr _ => find_loc ms c0 (st_obs s) code (positions c0)
                                  | IOk _ _ => None
                                  end
                   | None => None
                   end in
      let c1 := match found with Some x => with_fail c0 [x] | None => c0 end in
      if negb (agrees ms c1 (st_obs s)) then 2 + 10 * (k + 1) else
      let ms' := fst (fst (do_call repaired ms c1)) in
      let carry' := match found with Some x => x :: carried | None => carried end in
      chk_steps dflt es' (k + 1) ms' carry' (new_offender s ++ offs) (outs ++ [(o_out (st_obs s), o_txt (st_obs s))]) ss'
  end.

(* the whole history through the specification first: a model mismatch at an early call must not hide a violation of the
   specification at a later one *)
Fixpoint spec_only (k : Z) (offs : list offender) (outs : list (iout * Z)) (ss : list step) : Z :=
  match ss with
  | [] => 0
  | s :: ss' => if negb (spec_step offs outs s) then 1 + 10 * (k + 1)
                else spec_only (k + 1) (new_offender s ++ offs) (outs ++ [(o_out (st_obs s), o_txt (st_obs s))]) ss'
  end.

Definition hcase := list step.
Definition chk_history (h : hcase) : Z :=
  let c := spec_only 0 [] [] h in
  if c =? 0 then chk_steps (default_of h) (einit true (default_of h)) 0 init [] [] [] h else c.

(* ------------------------------------------------------------------ generator histories *)
Inductive gout := GOk (name : Z) | GErr (e : gerr) | GOther.
Record gstepc := {
  g_key : nat;
  g_modes : list (nat * option (nat * nat));
    (* how the body of each key behaves NOW: None returns; Some (i, kind) ends after i nested calls with a failure of that
       kind (0 Exception, 1 returns no Module, >= 2 a BaseException outside Exception) *)
  g_out : gout;
  g_fresh : gout;                        (* the same call, same body behaviour, in a fresh process *)
  g_txt : Z; g_fresh_txt : Z;            (* identities of the whole error texts (0: the call returned) *)
  g_pend_empty : bool;
  g_stack_empty : bool;
  g_done : list nat;                     (* keys in Cache.done *)
  g_runs : list (nat * nat)              (* body executions so far, per key *)
}.
(* nested calls per key, the keys whose generator has enable_cache=False, the calls *)
Definition gcase := (list (nat * list nat) * list nat * list gstepc)%type.

Definition gerr_eqb (a b : gerr) : bool :=
  match a, b with
  | GE x i, GE y j => Nat.eqb x y && Nat.eqb i j
  | GCycle x, GCycle y => Nat.eqb x y
  | GFuel, GFuel => true
  | _, _ => false
  end.
Definition gout_eqb (a b : gout) : bool :=
  match a, b with GOk x, GOk y => x =? y | GErr x, GErr y => gerr_eqb x y | GOther, GOther => true | _, _ => false end.

Fixpoint assoc_calls (l : list (nat * list nat)) (k : nat) : list nat :=
  match l with [] => [] | (k', cs) :: l' => if Nat.eqb k k' then cs else assoc_calls l' k end.
Fixpoint assoc_mode (l : list (nat * option (nat * nat))) (k : nat) : option (nat * nat) :=
  match l with [] => None | (k', o) :: l' => if Nat.eqb k k' then o else assoc_mode l' k end.

(* specification: nothing stays pending or on the stack, and the call does what it does in a fresh process
   (a body that raised is simply run again) *)
Definition gspec (s : gstepc) : bool :=
  g_pend_empty s && g_stack_empty s && gout_eqb (g_out s) (g_fresh s) && (g_txt s =? g_fresh_txt s).

Fixpoint chk_gsteps (calls : list (nat * list nat)) (unc : list nat) (k : Z) (ms : gst) (ss : list gstepc) : Z :=
  match ss with
  | [] => 0
  | s :: ss' =>
      if negb (gspec s) then 1 + 10 * (k + 1) else
      let r := grun GFinally (fun key => negb (gmem key unc)) (assoc_calls calls) (fun key _ => assoc_mode (g_modes s) key)
                    (S (length calls)) ms (g_key s) in
      let ms' := fst r in
      let okout := match snd r, g_out s with
                   | None, GOk _ => true
                   | Some e, GErr e' => gerr_eqb e e'
                   | _, _ => false
                   end in
      let okdone := forallb (fun x => gmem x (g_done s)) (gdone ms') && forallb (fun x => gmem x (gdone ms')) (g_done s) in
      let okruns := forallb (fun kr : nat * nat => Nat.eqb (gcount (fst kr) (gruns ms')) (snd kr)) (g_runs s) in
      if negb (okout && okdone && okruns) then 2 + 10 * (k + 1) else chk_gsteps calls unc (k + 1) ms' ss'
  end.
(* the whole history through the specification first (as for module histories): a cache that differs from the model's at
   an early call must not hide what a later call returns *)
Fixpoint gspec_only (k : Z) (ss : list gstepc) : Z :=
  match ss with
  | [] => 0
  | s :: ss' => if negb (gspec s) then 1 + 10 * (k + 1) else gspec_only (k + 1) ss'
  end.
Definition chk_gen (c : gcase) : Z :=
  let c1 := gspec_only 0 (snd c) in
  if c1 =? 0 then chk_gsteps (fst (fst c)) (snd (fst c)) 0 ginit (snd c) else c1.
