(* Corr/C17.v — evaluators of the C17 correspondence run.  Codes per case:
   0 ok · 1 the implementation violates the property on this input · 2 property holds, model and
   implementation differ · 3 the Coq specification disagrees with the Python oracle. *)
From Coq Require Import String Ascii.
Require Import Hdl21.Base.PyInt Hdl21.Spec.SimSpec Hdl21.Model.SimExport Hdl21.Corr.C03.
Require Import Hdl21.Base.Dec Hdl21.Model.C17Float.

(* ---- equality of abstract Sims (numbers by value) ---- *)
Definition num_eqb (a b : num) : bool :=
  match a, b with
  | NPre nm ne pe, NPre nm' ne' pe' => dec_eqb nm (ne + pe) nm' (ne' + pe')
  | NLit s, NLit s' => String.eqb s s'
  | _, _ => false
  end.
Definition onum_eqb (a b : option num) : bool :=
  match a, b with Some x, Some y => num_eqb x y | None, None => true | _, _ => false end.
Definition sweep_eqb (a b : sweep) : bool :=
  match a, b with
  | SwLin x y z, SwLin x' y' z' => num_eqb x x' && num_eqb y y' && num_eqb z z'
  | SwLog x y n, SwLog x' y' n' => num_eqb x x' && num_eqb y y' && (n =? n')
  | SwPts l, SwPts l' => forall2b num_eqb l l'
  | _, _ => false
  end.
Definition svar_eqb (a b : svar) : bool :=
  match a, b with VStr s, VStr s' => String.eqb s s' | VPar n, VPar n' => ostr_eqb n n' | _, _ => false end.
Definition nout_eqb (a b : nout) : bool :=
  match a, b with
  | OTuple l, OTuple l' => forall2b ostr_eqb l l'
  | OConn s, OConn s' | OStr s, OStr s' => String.eqb s s'
  | OOther, OOther => true
  | _, _ => false
  end.
Definition nsrc_eqb (a b : nsrc) : bool :=
  match a, b with SInst s, SInst s' | SStr s, SStr s' => String.eqb s s' | _, _ => false end.
Fixpoint an_eqb (a b : analysis) : bool :=
  match a, b with
  | AOp n, AOp n' => ostr_eqb n n'
  | ADc v sw n, ADc v' sw' n' => svar_eqb v v' && sweep_eqb sw sw' && ostr_eqb n n'
  | AAc x y k n, AAc x' y' k' n' => num_eqb x x' && num_eqb y y' && (k =? k') && ostr_eqb n n'
  | ATran t ts n, ATran t' ts' n' => num_eqb t t' && onum_eqb ts ts' && ostr_eqb n n'
  | ANoise o s x y k n, ANoise o' s' x' y' k' n' =>
      nout_eqb o o' && nsrc_eqb s s' && num_eqb x x' && num_eqb y y' && (k =? k') && ostr_eqb n n'
  | ASweep i v sw n, ASweep i' v' sw' n' => forall2b an_eqb i i' && svar_eqb v v' && sweep_eqb sw sw' && ostr_eqb n n'
  | AMonte i k n, AMonte i' k' n' => forall2b an_eqb i i' && (k =? k') && ostr_eqb n n'
  | ACustom c n, ACustom c' n' => String.eqb c c' && ostr_eqb n n'
  | _, _ => false
  end.
Definition smode_eqb (a b : smode) : bool :=
  match a, b with MNone, MNone | MAll, MAll | MSelected, MSelected => true | _, _ => false end.
Definition starg_eqb (a b : starg) : bool :=
  match a, b with
  | TMode m, TMode m' => smode_eqb m m'
  | TSig s, TSig s' | TName s, TName s' => String.eqb s s'
  | TSigs l, TSigs l' | TNames l, TNames l' => strs_eqb l l'
  | _, _ => false
  end.
Definition akind_eqb (a b : akind) : bool := String.eqb (kind_name a) (kind_name b).
Definition meas_an_eqb (a b : meas_an) : bool :=
  match a, b with MStr s, MStr s' => String.eqb s s' | MAn k, MAn k' => akind_eqb k k' | _, _ => false end.
Definition control_eqb (a b : control) : bool :=
  match a, b with
  | CInclude p, CInclude p' => String.eqb p p'
  | CLib p s, CLib p' s' => String.eqb p p' && String.eqb s s'
  | CSave t, CSave t' => starg_eqb t t'
  | CMeas an e n, CMeas an' e' n' => meas_an_eqb an an' && String.eqb e e' && ostr_eqb n n'
  | CParam n v, CParam n' v' => ostr_eqb n n' && num_eqb v v'
  | CLiteral s, CLiteral s' => String.eqb s s'
  | _, _ => false
  end.
Definition oval_eqb (a b : oval) : bool :=
  match a, b with VBool x, VBool y => Bool.eqb x y | VNum x, VNum y => num_eqb x y | _, _ => false end.
Definition attr_eqb (a b : attr) : bool :=
  match a, b with
  | AtAn x, AtAn y => an_eqb x y
  | AtCtrl x, AtCtrl y => control_eqb x y
  | AtOpt n v, AtOpt n' v' => String.eqb n n' && oval_eqb v v'
  | _, _ => false
  end.
Fixpoint hmod_eqb (a b : hmod) : bool :=
  match a, b with HMod i n k, HMod i' n' k' => N.eqb i i' && String.eqb n n' && forall2b hmod_eqb k k' end.
Definition sim_eqb (a b : sim) : bool :=
  hmod_eqb (tb_mod (s_tb a)) (tb_mod (s_tb b)) && zlist_eqb (tb_ports (s_tb a)) (tb_ports (s_tb b)) &&
  forall2b attr_eqb (s_attrs a) (s_attrs b).

(* ---- the tree's own float() per decimal value, as observed on this run ---- *)
Definition ftab := list (Z * Z * dbl).
Definition frel_tree (t : ftab) (m e : Z) (f : fnum) : bool :=
  match f with
  | FDbl d => existsb (fun x => let '(m', e', d') := x in dec_eqb m e m' e' && dbl_eqb d d') t
  | FDec _ _ => false
  end.
(* model output (FDec) against implementation output (FDbl) *)
Definition fmatch (t : ftab) (a b : fnum) : bool :=
  match a with FDec m e => frel_tree t m e b | FDbl d => match b with FDbl d' => dbl_eqb d d' | _ => false end end.

Definition osweep_eqb (t : ftab) (a b : osweep) : bool :=
  match a, b with
  | OLin x y z, OLin x' y' z' | OLog x y z, OLog x' y' z' => fmatch t x x' && fmatch t y y' && fmatch t z z'
  | OPts l, OPts l' => forall2b (fmatch t) l l'
  | _, _ => false
  end.
Fixpoint oan_eqb (t : ftab) (a b : oan) : bool :=
  match a, b with
  | OOp n, OOp n' => String.eqb n n'
  | ODc n i sw, ODc n' i' sw' => String.eqb n n' && String.eqb i i' && osweep_eqb t sw sw'
  | OAc n x y k, OAc n' x' y' k' => String.eqb n n' && fmatch t x x' && fmatch t y y' && (k =? k')
  | OTran n x y, OTran n' x' y' => String.eqb n n' && fmatch t x x' && fmatch t y y'
  | ONoise n p q s x y k, ONoise n' p' q' s' x' y' k' =>
      String.eqb n n' && String.eqb p p' && String.eqb q q' && String.eqb s s' && fmatch t x x' && fmatch t y y' && (k =? k')
  | OSweep n v sw l, OSweep n' v' sw' l' =>
      String.eqb n n' && String.eqb v v' && osweep_eqb t sw sw' && forall2b (oan_eqb t) l l'
  | OMonte n k sd l, OMonte n' k' sd' l' => String.eqb n n' && (k =? k') && (sd =? sd') && forall2b (oan_eqb t) l l'
  | OCustom n c, OCustom n' c' => String.eqb n n' && String.eqb c c'
  | _, _ => false
  end.
Definition pval_eqb (a b : pval) : bool :=
  match a, b with
  | PDec m e, PDec m' e' => dec_eqb m e m' e'
  | PLit s, PLit s' => String.eqb s s'
  | PInt z, PInt z' => z =? z'
  | PBool x, PBool y => Bool.eqb x y
  | _, _ => false
  end.
Definition octrl_eqb (a b : octrl) : bool :=
  match a, b with
  | XInclude p, XInclude p' => String.eqb p p'
  | XLib p s, XLib p' s' => String.eqb p p' && String.eqb s s'
  | XSaveMode m, XSaveMode m' => smode_eqb m m'
  | XSaveSig s, XSaveSig s' => String.eqb s s'
  | XMeas x y z, XMeas x' y' z' => String.eqb x x' && String.eqb y y' && String.eqb z z'
  | XParam n v, XParam n' v' => String.eqb n n' && pval_eqb v v'
  | XLiteral s, XLiteral s' => String.eqb s s'
  | _, _ => false
  end.
Definition out_eqb (t : ftab) (a b : siminput) : bool :=
  String.eqb (o_top a) (o_top b) &&
  forall2b (fun x y => N.eqb (fst x) (fst y) && String.eqb (snd x) (snd y)) (o_pkg a) (o_pkg b) &&
  forall2b (fun x y => String.eqb (fst x) (fst y) && pval_eqb (snd x) (snd y)) (o_opts a) (o_opts b) &&
  forall2b (oan_eqb t) (o_an a) (o_an b) && forall2b octrl_eqb (o_ctrls a) (o_ctrls b).

(* ---- main stream: one export call ---- *)
(* builds (generator intent) , read-back of the constructed Sims (None: construction raised),
   outputs of to_proto (None: raised), the tree's float() table *)
Definition main_case := (list build * option (list sim) * option (list siminput) * ftab)%type.

Definition chk_main (c : main_case) : Z :=
  let '(bs, rd, out, t) := c in
  match traverse construct bs with
  | Error _ =>                     (* the model rejects the construction (bad @sim class) *)
      match rd with None => 0 | Some _ => 2 end
  | Ok intended =>
      match rd with
      | None => 1                  (* a documented way of building the Sim raised *)
      | Some rb =>
          if negb (spec_all frel_nearest intended out) then 1            (* the property itself: every float field is the nearest double *)
          else if negb (spec_all (frel_tree t) intended out) then 2     (* ... and is what the tree's float() returns for that value *)
          else if negb (forall2b sim_eqb intended rb) then 2
          else match export_all rb, out with
               | Ok mo, Some io =>
                   if forall2b (out_eqb t) mo io then
                     (* the exporter with COMPUTED float fields (Model/C17Float.v, round_dec): bit for bit *)
                     match export_all_c round_dec rb with
                     | Ok co => if forall2b (out_eqb []) co io then 0 else 2
                     | Error _ => 2
                     end
                   else 2
               | Error _, None => match export_all_c round_dec rb with Error _ => 0 | Ok _ => 2 end
               | _, _ => 2
               end
      end
  end.

(* number of float() results of the tree that are not the nearest double (cross-checked against CPython's Fraction) *)
Definition chk_round (c : main_case) : Z :=
  let '(_, _, _, t) := c in
  zlen (filter (fun x => let '(m, e, d) := x in negb (nearest_double m e d)) t).

(* both in one pass over a case file (parsing the cases dominates the run time): code = chk_main + 4 * chk_round *)
Definition chk_both (c : main_case) : Z := chk_main c + 4 * chk_round c.

(* ---- spec validation: nearest_double against fractions.Fraction / float() of CPython ---- *)
Definition near_case := (Z * Z * dbl * bool)%type.
Definition chk_near (c : near_case) : Z :=
  let '(m, e, d, expect) := c in
  (* round_dbl is evaluated on the correctly rounded double only: the neighbours differ from it *)
  if Bool.eqb (nearest_double m e d) expect && (if expect then dbl_eqb (round_dbl m e) d else true) then 0 else 3.

(* ---- spec validation: the name generator against f"Analysis{n}" ---- *)
Definition chk_autoname (c : N * string) : Z :=
  if String.eqb (auto_name (fst c)) (snd c) then 0 else 3.

(* ---- float path (strengthening round): hdl21.sim.proto.export_float on one Prefixed (number nm*10^ne, prefix pe).
   Observed: the Decimal that Prefixed.__float__ hands to float() (self.scale(Prefix.UNIT).number: sign, coefficient,
   exponent) and the double export_float returns (None: it raised).
   1: the double is not the nearest double of the prefixed value (the property);
   2: the Decimal differs, digit for digit, from the model's (Model/C17Float.v: unit_number_ctx None), or the double is not
      the computed rounding (round_dec) of the model's Decimal. *)
Definition fpath_case := (Z * Z * Z * (bool * Z * Z) * option dbl)%type.
Definition chk_fpath (c : fpath_case) : Z :=
  let '(nm, ne, pe, (sg, co, ex), r) := c in
  match r with
  | None => 1
  | Some d =>
      if negb (nearest_double nm (ne + pe) d) then 1
      else
        let u := unit_number_ctx None (num_pfx nm ne pe) in
        if Bool.eqb sg (dsign u) && (co =? Z.of_N (dcoef u)) && (ex =? dexp u) && dbl_eqb (round_dec u) d then 0 else 2
  end.
(* diagnosis: the observed double is what a correctly rounding float() returns for the product evaluated in 28 digits *)
Definition fpath_ctx28 (c : fpath_case) : Z :=
  let '(nm, ne, pe, _, r) := c in
  match r with
  | Some d => let u := unit_number_ctx (Some 28) (num_pfx nm ne pe) in
              if negb (nearest_double nm (ne + pe) d) && nearest_double (dint u) (dexp u) d then 1 else 0
  | None => 0
  end.
Definition chk_fpath_both (c : fpath_case) : Z := chk_fpath c + 4 * fpath_ctx28 c.

(* ---- spec validation: the text of a path.  Written text, str(pathlib.Path(w)), os.path.normpath(w) of CPython:
   path_str and normpath (Model/C17Path.v) give the same texts, and `strikes` holds exactly where the two differ. *)
Require Import Hdl21.Model.C17Path.
Definition path_case := (string * string * string)%type.
Definition chk_path (c : path_case) : Z :=
  let '(w, ps, np) := c in
  if String.eqb (path_str w) ps && String.eqb (normpath w) np &&
     Bool.eqb (strikes (negb (proot_eqb (root_of w) RNone)) None (parts_of w)) (negb (String.eqb ps np)) then 0 else 3.
