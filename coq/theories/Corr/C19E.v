(* Corr/C19E.v — the tie of Model/C19EDesign.v (the written design of the module Series / MosStack / Wrapper builds)
   + the pipeline model (Model/C01FElab.v:elab_export_model2) to the implementation, for leaf units (primitives and
   external modules): the package the model exports for series_design / wrapper_design against the package the
   implementation exports for the generated module.
   Codes: 0  the two packages are equal: external declarations, module name, signals (order, widths), ports and directions,
             the flattened instances units_0 .. units_{n-1} (names as ArrayFlattener invents them), references, parameters
             and every connection target (resolved slices of the private bus) - up to the ORDER of the connections inside
             one instance (the design lists them in port order, generators.py puts the parallel ports first);
             series ports wider than one bit are ordinary cases (fixes/C19W-1): series_design with the width of the pair,
             private bus of (n-1)*w bits, resolved bit by bit
          2  they differ (tie broken), or the implementation rejected a call the model accepts / accepted one it rejects
          4  the model contradicts a theorem of Props/C19E.v (the pipeline model rejects a series design, or the design of
             the PINNED code for wide series ports - series_design_code - is valid): a defect of the checker
          3  the case is outside the hypotheses (series_ok / wrapper_ok / xinfo_ok false, unknown series port, the two
             series ports differ in width): a defect of the harness *)
Require Import Hdl21.Base.PyInt Hdl21.Spec.PySlice Hdl21.Model.Slice Hdl21.Model.Resolve Hdl21.Base.Design
               Hdl21.Spec.Nets Hdl21.Spec.WfDesign Hdl21.Base.Package Hdl21.Base.PrimTable Hdl21.Spec.PkgWf
               Hdl21.Spec.C01ENets Hdl21.Corr.C03 Hdl21.Corr.C01 Hdl21.Model.C01EElab Hdl21.Corr.C01E
               Hdl21.Model.C01FElab Hdl21.Spec.C01FNets
               Hdl21.Spec.C19Topology Hdl21.Model.C19Series Hdl21.Model.C19EDesign.
From Coq Require String.
Open Scope string_scope.
Open Scope Z_scope.

Record c19e_case := { e_gen : Z (* 0 Series, 1 MosStack, 2 Wrapper *); e_io : list (name * Z); e_a : name; e_b : name; e_n : Z;
                      e_mod : name; e_dev : devinfo; e_dirs : list (name * Z); e_pkg : option package }.

Definition e_xinfo (c : c19e_case) : xinfo :=
  {| x_devs := [(dev_string (e_dev c), e_dev c)]; x_ncnames := [(e_mod c, [])]; x_dirs := [(e_mod c, e_dirs c)] |}.

(* connections of one instance as a map *)
Definition conns_eqv (a b : list (name * ptarget)) : bool :=
  (zlen a =? zlen b) &&
  forallb (fun c => match assoc (fst c) b with Some t => ptarget_eqb (snd c) t | None => false end) a.

Definition pinst_eqv (a b : pinst) : bool :=
  String.eqb (pi_name a) (pi_name b) && pref_eqb (pi_ref a) (pi_ref b) &&
  list_eqb ns_eqb (pi_params a) (pi_params b) && conns_eqv (pi_conns a) (pi_conns b).

Definition pmodule_eqv (a b : pmodule) : bool :=
  String.eqb (pm_name a) (pm_name b) && list_eqb nz_eqb (pm_sigs a) (pm_sigs b) &&
  list_eqb nz_eqb (pm_ports a) (pm_ports b) && list_eqb pinst_eqv (pm_insts a) (pm_insts b).

Definition pkg_eqv (a b : package) : bool :=
  list_eqb pext_eqb (pk_exts a) (pk_exts b) && list_eqb pmodule_eqv (pk_mods a) (pk_mods b).

Definition tie (xi : xinfo) (d : design) (pi : option package) : Z :=
  match elab_export_model2 xi d with
  | Error _ => 4
  | Ok pm => match pi with Some p => if pkg_eqv pm p then 0 else 2 | None => 2 end
  end.

Definition chk_c19e (c : c19e_case) : Z :=
  let io := e_io c in
  let names := map fst io in
  let xi := e_xinfo c in
  let dev := dev_string (e_dev c) in
  if (e_gen c =? 2) || (e_n c =? 1) then
    match unused_name (name_fuel names) names "inner" with
    | Error _ => 3
    | Ok un =>
        let nm := {| sn_mod := e_mod c; sn_dev := dev; sn_i := ""; sn_units := un |} in
        let d := wrapper_design nm io in
        if negb (wrapper_ok nm io && xinfo_ok xi d) then 3 else tie xi d (e_pkg c)
    end
  else
    match unused_name (name_fuel names) names "i" with
    | Error _ => 3
    | Ok iname =>
        match unused_name (name_fuel (iname :: names)) (iname :: names) "units" with
        | Error _ => 3
        | Ok un =>
            let nm := {| sn_mod := e_mod c; sn_dev := dev; sn_i := iname; sn_units := un |} in
            match assoc (e_a c) io, assoc (e_b c) io with
            | Some wa, Some wb =>
                if negb ((wa =? wb) && series_ok nm io (e_a c) (e_b c) wa (e_n c)) then 3 else
                let d := series_design nm io (e_a c) (e_b c) wa (e_n c) in
                if negb (xinfo_ok xi d) then 3 else
                if (2 <=? wa) && is_ok (wf_design (series_design_code nm io (e_a c) (e_b c) (e_n c))) then 4 else
                tie xi d (e_pkg c)
            | _, _ => 3
            end
        end
    end.

(* for diagnosis *)
Definition model_pkg_c19e (c : c19e_case) : result package :=
  let io := e_io c in
  let names := map fst io in
  iname <- unused_name (name_fuel names) names "i" ;;
  un <- unused_name (name_fuel (iname :: names)) (iname :: names) "units" ;;
  w <- ofopt EMissing (assoc (e_a c) io) ;;
  elab_export_model2 (e_xinfo c)
    (series_design {| sn_mod := e_mod c; sn_dev := dev_string (e_dev c); sn_i := iname; sn_units := un |} io (e_a c) (e_b c) w (e_n c)).
