(* Corr/C03Loop.v — evaluators of the two streams added in the strengthening round of C03:
   `pubw`  : the PUBLIC width property (Slice.width, Concat.width) of every non-leaf node of a nested expression, read
             before elaboration, against the number of selected bits (specification) and against the model of width();
   `loop`  : systems of port connections that mention one another's port references (also in a loop):
             the bits every connection has in the exported package against Python's selection followed across
             the references (specification), against a Python-list oracle, and against the model of the walker
             of ResolvePortRefs.untie_source_loops.
   Codes as in Corr/C03.v: 0 ok, 1 implementation violates the property, 2 tie broken, 3 specification disagrees
   with the Python oracle / the generated case is not what the generator promises (harness defect). *)
Require Import Hdl21.Base.PyInt Hdl21.Spec.PySlice Hdl21.Model.Slice Hdl21.Model.Resolve Hdl21.Corr.C03
               Hdl21.Model.C03Loop.

(* ------------------------------------------------------------------ pubw *)
Fixpoint pub_nodes (x : sx) : list sx :=
  match x with
  | XSig _ _ => []
  | XSlice p _ => x :: pub_nodes p
  | XConcat ps => x :: concat (map pub_nodes ps)
  end.

Definition pubw_case := (sx * option (list (option Z)))%type.

Fixpoint pub_codes (ns : list sx) (ws : list (option Z)) : Z :=
  match ns, ws with
  | [], [] => 0
  | n :: ns', o :: ws' =>
      let prop_ok :=
        match xbits n, o with
        | Ok bs, Some w => w =? zlen bs
        | Ok _, None => has_beyond n
        | Error _, None => true
        | Error _, Some _ => false
        end in
      if negb prop_ok then 1 else
      let model_ok :=
        match xwidth n, o with
        | Ok w, Some w' => w =? w'
        | Error _, None => true
        | _, _ => false
        end in
      let rest := pub_codes ns' ws' in
      if rest =? 1 then 1 else if model_ok then rest else 2
  | _, _ => 3
  end.

Definition chk_pubw (c : pubw_case) : Z :=
  let '(x, o) := c in
  match o with
  | None => 0      (* the expression could not even be built: chk_nested sees width None / target None *)
  | Some ws => pub_codes (pub_nodes x) ws
  end.

(* ------------------------------------------------------------------ loop *)
(* env; the implementation: per connected port (in env order) its public width before elaboration and its resolved
   target after export; the oracle: per port, per bit, Some signal-bit or None (goes round) *)
Definition loop_case :=
  (env * option (list (option Z * list flat)) * list (list (option bit)))%type.

Definition bit_eqb (a b : bit) : bool := N.eqb (fst a) (fst b) && (snd a =? snd b).

Definition env_bits (e : env) : Z :=
  fold_right (fun p acc => match xwidth (snd p) with Ok w => w + acc | Error _ => acc end) 0 e.

Definition loop_fuel (e : env) : nat := S (Z.to_nat (env_bits e)).

(* every reference leaf is written with the width of its source (the generator's promise; the port's width) *)
Fixpoint sx_leaves (x : sx) : list (N * Z) :=
  match x with
  | XSig id w => [(id, w)]
  | XSlice p _ => sx_leaves p
  | XConcat ps => concat (map sx_leaves ps)
  end.

Definition leaf_ok (e : env) (l : N * Z) : bool :=
  match lookup e (fst l) with
  | None => true
  | Some src => match xwidth src with Ok w => w =? snd l | Error _ => false end
  end.

Definition widths_ok (e : env) : bool := forallb (fun p => forallb (leaf_ok e) (sx_leaves (snd p))) e.

(* representative of the loop a round-going atom ends in: the smallest atom met in the second half of 2F steps *)
Fixpoint orbit (e : env) (n : nat) (a : bit) : list bit :=
  match n with
  | O => []
  | S n' => a :: match lookup e (fst a) with
                 | None => []
                 | Some src => match walk_spec src (snd a) with Ok b => orbit e n' b | Error _ => [] end
                 end
  end.

Definition bit_key (a : bit) : Z := Z.of_N (fst a) * 100000 + snd a.

Definition round_rep (e : env) (a : bit) : Z :=
  let f := loop_fuel e in
  fold_right (fun b acc => Z.min (bit_key b) acc) (bit_key a + 100000 * 100000) (skipn f (orbit e (f + f) a)).

Inductive sdest := SBit (b : bit) | SRound (rep : Z) | SErr.

Definition spec_dest (e : env) (a : bit) : sdest :=
  match chase_spec e (loop_fuel e) a with
  | Ok (DBit b) => SBit b
  | Ok DRound => SRound (round_rep e a)
  | Error _ => SErr
  end.

Definition model_dest (e : env) (a : bit) : sdest :=
  match chase_model e (loop_fuel e) a with
  | Ok (DBit b) => SBit b
  | Ok DRound => SRound 0
  | Error _ => SErr
  end.

(* the atoms of port id: (id, 0) .. (id, w-1) *)
Definition port_atoms (p : N * sx) : list bit :=
  match xwidth (snd p) with Ok w => map (pair (fst p)) (iota (Z.to_nat w) 0 1) | Error _ => [] end.

Definition sdest_oracle_ok (d : sdest) (o : option bit) : bool :=
  match d, o with
  | SBit b, Some b' => bit_eqb b b'
  | SRound _, None => true
  | _, _ => false
  end.

Fixpoint all2 {A B} (f : A -> B -> bool) (l : list A) (m : list B) : bool :=
  match l, m with
  | [], [] => true
  | x :: l', y :: m' => f x y && all2 f l' m'
  | _, _ => false
  end.

(* observed bit against the specification: a bit that arrives is that bit; a bit that goes round is a bit of the
   implicit signal of a connected port *)
Definition obs_ok (e : env) (d : sdest) (o : bit) : bool :=
  match d with
  | SBit b => bit_eqb b o
  | SRound _ => match lookup e (fst o) with Some _ => true | None => false end
  | SErr => false
  end.

(* two round-going bits are the same bit of the package exactly when they go round the same loop *)
Definition rounds_consistent (ds : list (sdest * bit)) : bool :=
  forallb (fun x => forallb (fun y =>
    match fst x, fst y with
    | SRound r1, SRound r2 => Bool.eqb (r1 =? r2) (bit_eqb (snd x) (snd y))
    | _, _ => true
    end) ds) ds.

Definition model_obs_ok (d : sdest) (o : bit) (e : env) : bool :=
  match d with
  | SBit b => bit_eqb b o
  | SRound _ => match lookup e (fst o) with Some _ => true | None => false end
  | SErr => false
  end.

Definition chk_loop (c : loop_case) : Z :=
  let '(e, impl, oracle) := c in
  if negb (env_ok e) then
    (* some connection is not a valid expression: the design must be rejected *)
    match impl with None => 0 | Some _ => 1 end
  else
  if negb (widths_ok e) then 3 else
  let specs := map (fun p => map (spec_dest e) (port_atoms p)) e in
  if negb (all2 (all2 sdest_oracle_ok) specs oracle) then 3 else
  match impl with
  | None => 1                         (* a valid system of connections was rejected *)
  | Some obs =>
      if negb (Nat.eqb (length obs) (length e)) then 3 else
      let per_port :=
        all2 (fun (sp : list sdest * (N * sx)) (ob : option Z * list flat) =>
                let '(ds, p) := sp in let '(pw, fl) := ob in
                forallb flat_wf fl
                && all2 (obs_ok e) ds (flats_bits fl)
                && match pw, xbits (snd p) with
                   | Some w, Ok bs => w =? zlen bs
                   | _, _ => false
                   end)
             (combine specs e) obs in
      let pairs := concat (map (fun so => combine (fst so) (flats_bits (snd (snd so)))) (combine specs obs)) in
      if negb (per_port && rounds_consistent pairs) then 1 else
      let models := map (fun p => map (model_dest e) (port_atoms p)) e in
      let model_ok :=
        all2 (fun (ds : list sdest) (ob : option Z * list flat) =>
                all2 (fun d o => model_obs_ok d o e) ds (flats_bits (snd ob))
                && match fst ob with Some w => w =? zlen ds | None => false end) models obs in
      if model_ok then 0 else 2
  end.

(* informational: shape of the system: 1 = some bit goes round, 2 = some bit crosses a reference *)
Definition loop_shape (c : loop_case) : Z :=
  let '(e, _, _) := c in
  let specs := concat (map (fun p => map (spec_dest e) (port_atoms p)) e) in
  (if existsb (fun d => match d with SRound _ => true | _ => false end) specs then 1 else 0).
