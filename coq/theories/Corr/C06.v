(* Corr/C06.v — evaluate wf_pkg on packages the implementation returned. code 0 ok, 1 not well-formed. *)
Require Import Hdl21.Base.PyInt Hdl21.Base.Design Hdl21.Base.Package Hdl21.Base.PrimTable Hdl21.Spec.PkgWf Hdl21.Corr.C03.

Definition err_code (e : err) : Z :=
  match e with
  | EOutOfBounds => 11 | EEmptySlice => 12 | EZeroStep => 13 | EWidth => 14 | EBadKind => 15 | EUnresolved => 16
  | EFuel => 17 | EName => 18 | EMissing => 19 | EExtra => 20 | EOrphan => 21 | ENoConn => 22 | ECycle => 23 | EOther => 24
  end.

Definition chk_c06 (p : package) : Z :=
  match wf_pkg prims_ext p with Ok _ => 0 | Error e => err_code e end.

(* ---------------------------------------------------------------------------------------------------------------
   Strengthening round (C06x): the whole statement per package - wf_pkg, instance parameters, and the three consumers
   named by the property (0 accepted, 1 rejected, 2 skipped) against what Spec/C06Accept.v predicts.
   code 0 ok · 11..24 wf_pkg error · 31 an instance parameter without name / value or a repeated name ·
   41 from_proto rejects a well-formed package · 42 a netlister rejects a well-formed package whose flat names are unique ·
   50 the netlisters reject a well-formed package because of their flat name spaces (finding class; predicted) ·
   51 ... because an instance of a vlsir.primitives element lacks a parameter vlsirtools requires (finding class; predicted) ·
   3  the flat-name-space model of the netlisters disagrees with them (spec validation) *)
Require Import Hdl21.Spec.C06Accept Hdl21.Model.C06Export.
From Coq Require String.

Record c06_case := { cc_pkg : package; cc_from : Z; cc_spice : Z; cc_spectre : Z }.

Definition chk_c06_full (c : c06_case) : Z :=
  let p := cc_pkg c in
  match wf_pkg prims_ext p with
  | Error e => err_code e
  | Ok _ =>
      if negb (wf_pkg_params p) then 31
      else if cc_from c =? 1 then 41
      else if netlist_flat_ok p && prim_params_ok p then (if (cc_spice c =? 1) || (cc_spectre c =? 1) then 42 else 0)
      else if (cc_spice c =? 1) && (cc_spectre c =? 1) then (if netlist_flat_ok p then 51 else 50)
      else if (cc_spice c =? 2) && (cc_spectre c =? 2) then 0
      else 3
  end.

(* ---- tie of the exporter model (Model/C06Export.v): module order, per-module references in instance order,
        declared external modules in order; None = the implementation refused to export (module-name or
        external-declaration conflict). code 2 = model and implementation differ *)
(* the design side names primitives by their hdl21 class name; the reference the exporter writes for them comes from the
   regenerated tables (PHYSICAL -> hdl21.primitives/<name>, IDEAL -> vlsir.primitives/<prim_map[name]>) *)
Require Import Hdl21Gen.Primitives.
Inductive cref := CMod (k : nat) | CExt (j : nat) | CPrim (pname : name).

Definition prim_ref (nm : name) : option (name * name) :=
  match find (fun e : string * string * list (string * Z) => String.eqb (fst (fst e)) nm) primitives with
  | Some (_, ty, _) =>
      if String.eqb ty "PHYSICAL" then Some ("hdl21.primitives", nm)
      else match assoc nm prim_map_export with Some v => Some ("vlsir.primitives", v) | None => None end
  | None => None
  end.

Definition cref_href (c : cref) : option href :=
  match c with
  | CMod k => Some (HMod k)
  | CExt j => Some (HExt j)
  | CPrim nm => match prim_ref nm with Some (d, n) => Some (HPrim d n) | None => None end
  end.

Fixpoint opt_all {A B} (f : A -> option B) (l : list A) : option (list B) :=
  match l with
  | [] => Some []
  | x :: l' => match f x, opt_all f l' with Some y, Some ys => Some (y :: ys) | _, _ => None end
  end.

Definition cmod_hmod (m : name * list (cref * Z)) : option hmod :=
  match opt_all (fun cn : cref * Z => match cref_href (fst cn) with Some r => Some (r, snd cn) | None => None end) (snd m) with
  | Some is => Some {| hm_name := fst m; hm_insts := is |}
  | None => None
  end.

Record c06_order_case := { oc_mods : list (name * list (cref * Z)); oc_xheap : xheap; oc_top : nat; oc_impl : option package }.

Definition pref_eqb (a b : pref) : bool :=
  match a, b with
  | PLocal x, PLocal y => String.eqb x y
  | PExt d n, PExt d' n' => String.eqb d d' && String.eqb n n'
  | _, _ => false
  end.

Fixpoint list_eqb {A} (f : A -> A -> bool) (a b : list A) : bool :=
  match a, b with
  | [], [] => true
  | x :: a', y :: b' => f x y && list_eqb f a' b'
  | _, _ => false
  end.

Definition chk_c06_order (c : c06_order_case) : Z :=
  match opt_all cmod_hmod (oc_mods c) with
  | None => 3
  | Some hp =>
  match export hp (oc_xheap c) [oc_top c], oc_impl c with
  | Ok st, Some p =>
      if list_eqb (fun a b => String.eqb (fst a) (fst b) && list_eqb pref_eqb (snd a) (snd b))
                  (map (fun m => (fst m, map oref_pref (snd m))) (xs_out st))
                  (map (fun m => (pm_name m, map pi_ref (pm_insts m))) (pk_mods p))
         && list_eqb pext_eqb (xs_exts st) (pk_exts p)
      then 0 else 2
  | Error EName, None => 0
  | Error EFuel, _ => 3
  | _, _ => 2
  end
  end.

(* ---- strengthening round 2: held names vs. carried names (Model/C06Held.v). The implementation refuses the design (Orphanage)
        exactly when the model's namespace holds some attribute under a name it does not carry. 0 ok, 2 tie broken. What a returned
        package looks like is judged by chk_c06_full like any other package. *)
Require Import Hdl21.Model.C06Held.
Record c06_held_case := { hc_ops : list hop; hc_refused : bool }.
Definition chk_c06_held (c : c06_held_case) : Z :=
  if Bool.eqb (orphanage_ok (hrun (hc_ops c))) (negb (hc_refused c)) then 0 else 2.
