(* Corr/C06.v — evaluate wf_pkg on packages the implementation returned. code 0 ok, 1 not well-formed. *)
Require Import Hdl21.Base.PyInt Hdl21.Base.Design Hdl21.Base.Package Hdl21.Base.PrimTable Hdl21.Spec.PkgWf Hdl21.Corr.C03.

Definition err_code (e : err) : Z :=
  match e with
  | EOutOfBounds => 11 | EEmptySlice => 12 | EZeroStep => 13 | EWidth => 14 | EBadKind => 15 | EUnresolved => 16
  | EFuel => 17 | EName => 18 | EMissing => 19 | EExtra => 20 | EOrphan => 21 | ENoConn => 22 | ECycle => 23 | EOther => 24
  end.

Definition chk_c06 (p : package) : Z :=
  match wf_pkg prims_ext p with Ok _ => 0 | Error e => err_code e end.
