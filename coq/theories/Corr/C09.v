(* Corr/C09.v — evaluators of the C09 correspondence run.  Codes per case (a group of histories over one
   universe of paramclasses / generators, each history run in its own interpreter):
   0 = the implementation's observations satisfy the property's specification and agree with the model,
   1 = the observations violate the specification (memoisation, distinctness, one module <-> one name,
       history-free names),
   2 = the specification holds on the observations but model and implementation differ (tie broken),
   3 = malformed case (harness error: table entry or observation outside the modelled grammar). *)
Require Import Hdl21.Base.PyInt Hdl21.Model.ParamName Hdl21.Model.GenCache Hdl21.Model.C09GenFail Hdl21.Model.GenUniverse Hdl21.Corr.C03.
From Coq Require Import String Ascii.
Open Scope string_scope.
Open Scope Z_scope.

(* ---------- observations of the implementation ---------- *)
Inductive cobs := ORej | OAcc (mid : nat) (name : string).   (* identity (numbered by first appearance), .name at return *)
Record hobs := {
  h_calls : list rawcall;
  h_obs : list cobs;                       (* one per call: a rejected call (the exception is caught) is followed by the next one *)
  h_final : list (nat * string * string);  (* per module: .name at the end of the history, name in the exported package *)
  h_runs2 : list (nat * list pval);        (* body executions in order: generator, parameters as the body saw them
                                              (level 2: the field values of the validated instance, numbers as written) *)
  h_exported : bool;                       (* a design instantiating every returned module was exported *)
  h_clean : bool                           (* Cache.pending and Cache.stack are empty at the end of the history *)
}.
Record gcase := { c_univ : list gen; c_table : list entry; c_hists : list hobs }.

(* the observed body executions as cache keys *)
Definition canon_run (r : nat * list pval) : key :=
  match canon_all (snd r) with Ok vs => (fst r, vs) | Error _ => (fst r, [VStr "?not canonicalisable"]) end.
Definition h_runs (h : hobs) : list key := map canon_run (h_runs2 h).

(* ---------- generic helpers ---------- *)
Fixpoint all_pairs {A} (p : A -> A -> bool) (l : list A) : bool :=
  match l with [] => true | x :: l' => forallb (p x) l' && all_pairs p l' end.

Fixpoint zip {A B} (a : list A) (b : list B) : list (A * B) :=
  match a, b with x :: a', y :: b' => (x, y) :: zip a' b' | _, _ => [] end.

Definition okey_eqb (a b : option key) : bool :=
  match a, b with Some x, Some y => key_eqb x y | _, _ => false end.

Fixpoint final_of (m : nat) (l : list (nat * string * string)) : option (string * string) :=
  match l with [] => None | (m', n, e) :: l' => if Nat.eqb m m' then Some (n, e) else final_of m l' end.

(* accepted calls of a history: spec-level key, module id, name at return, final name, export name *)
Record acc := { a_key : key; a_mid : nat; a_ret : string; a_fin : string; a_exp : string }.

Fixpoint accepted (U : list gen) (h : hobs) (cs : list rawcall) (os : list cobs) : option (list acc) :=
  match cs, os with
  | _, [] => Some []
  | c :: cs', OAcc m n :: os' =>
      match mk_key U c, final_of m (h_final h), accepted U h cs' os' with
      | Ok k, Some (fn, en), Some r => Some ({| a_key := k; a_mid := m; a_ret := n; a_fin := fn; a_exp := en |} :: r)
      | Error _, Some _, Some r => Some r   (* arguments outside the value grammar: the specification is silent
                                               (the model check reports the difference) *)
      | _, _, _ => None                     (* a returned module without a final name: malformed observation *)
      end
  | _ :: cs', ORej :: os' => accepted U h cs' os'
  | [], _ :: _ => None
  end.

(* the keys of the refused calls of a history (a call whose arguments do not validate has no key) *)
Fixpoint rejected (U : list gen) (cs : list rawcall) (os : list cobs) : list key :=
  match cs, os with
  | c :: cs', ORej :: os' => match mk_key U c with Ok k => k :: rejected U cs' os' | Error _ => rejected U cs' os' end
  | _ :: cs', OAcc _ _ :: os' => rejected U cs' os'
  | _, _ => []
  end.

Definition count_key (k : key) (l : list key) : nat := List.length (filter (key_eqb k) l).

Definition hex_char (a : ascii) : bool := has_char a "0123456789abcdef".
Definition is_digest (s : string) : bool := all_chars hex_char s && Nat.eqb (String.length s) 32.

(* ---------- the specification, evaluated on the implementation's observations ---------- *)
Definition origin_c (U : list gen) (T : list entry) (k : key) : option key := origin (prog_of U T) FUEL k.

Definition spec_hist (U : list gen) (T : list entry) (h : hobs) : bool :=
  match accepted U h (h_calls h) (h_obs h) with
  | None => false
  | Some accs =>
      let runs_h := h_runs h in
      (* equal parameters -> the identical module; modules coincide exactly when the creating calls do *)
      all_pairs (fun a b => implb (key_eqb (a_key a) (a_key b)) (Nat.eqb (a_mid a) (a_mid b))) accs &&
      all_pairs (fun a b => match origin_c U T (a_key a), origin_c U T (a_key b) with
                            | Some x, Some y => Bool.eqb (key_eqb x y) (Nat.eqb (a_mid a) (a_mid b))
                            | _, _ => true end) accs &&
      let rejs := rejected U (h_calls h) (h_obs h) in
      (* no call, refused or not, leaves anything pending *)
      h_clean h &&
      (* no two of the modules the history handed out share a name (whatever their calls were: also calls whose arguments
         are outside the modelled value grammar) *)
      all_pairs (fun a b => negb (String.eqb (snd (fst a)) (snd (fst b)))) (h_final h) &&
      (negb (h_exported h) || all_pairs (fun a b => negb (String.eqb (snd a) (snd b))) (h_final h)) &&
      (* the body of every accepted call ran exactly once; when nothing was refused no body ran twice at all (a refused
         call runs its body again when it is repeated - that is what the model says, compared below) *)
      forallb (fun a => Nat.eqb (count_key (a_key a) runs_h) 1) accs &&
      (negb (forallb (fun o => match o with ORej => false | _ => true end) (h_obs h)) || all_pairs (fun a b => negb (key_eqb a b)) runs_h) &&
      (* refused, and refused again: no call is both refused and answered with a module in one interpreter *)
      forallb (fun a => negb (existsb (key_eqb (a_key a)) rejs)) accs &&
      (* one module <-> one name, at return, at the end, and in the exported package *)
      forallb (fun a => String.eqb (a_ret a) (a_fin a)) accs &&
      all_pairs (fun a b => Bool.eqb (Nat.eqb (a_mid a) (a_mid b)) (String.eqb (a_fin a) (a_fin b))) accs &&
      (* a design instantiating every module the history handed out can be exported, whatever was refused in between *)
      (negb (existsb (fun o => match o with OAcc _ _ => true | _ => false end) (h_obs h)) || h_exported h) &&
      (negb (h_exported h) ||
       all_pairs (fun a b => Bool.eqb (Nat.eqb (a_mid a) (a_mid b)) (String.eqb (a_exp a) (a_exp b))) accs)
  end.

(* history-free names: the same call has the same name in every history of the group *)
Definition accs_of (U : list gen) (h : hobs) : list acc :=
  match accepted U h (h_calls h) (h_obs h) with Some l => l | None => [] end.

Definition spec_cross (U : list gen) (hs : list hobs) : bool :=
  all_pairs (fun h1 h2 =>
    forallb (fun a => forallb (fun b =>
      implb (key_eqb (a_key a) (a_key b))
            (String.eqb (a_fin a) (a_fin b) &&
             (negb (h_exported h1 && h_exported h2) || String.eqb (a_exp a) (a_exp b))))
      (accs_of U h2)) (accs_of U h1) &&
    (* ... and is refused in every history if it is refused in one (not on call order, process or memory addresses) *)
    forallb (fun a => negb (existsb (key_eqb (a_key a)) (rejected U (h_calls h2) (h_obs h2)))) (accs_of U h1) &&
    forallb (fun a => negb (existsb (key_eqb (a_key a)) (rejected U (h_calls h1) (h_obs h1)))) (accs_of U h2)) hs.

(* ---------- model against implementation ---------- *)
Definition name_matches (U : list gen) (T : list entry) (creator : key) (impl : string) : bool :=
  let o := match b_ret (prog_of U T creator) with RFresh o => o | RPass _ => None end in
  let base := match o with Some n => n | None => gen_name_of U creator end in
  if has_params_of U creator then
    match uname_of U creator with
    | Ok (Readable s) => String.eqb impl (base ++ "(" ++ s ++ ")")
    | Ok Hashed =>
        let lb := String.length base in
        String.eqb (substring 0 (S lb) impl) (base ++ "(") &&
        is_digest (substring (S lb) 32 impl) &&
        String.eqb (substring (lb + 33) (String.length impl) impl) ")"
    | Error _ => false
    end
  else String.eqb impl base.

Fixpoint same_shape (ms : list (option (key * nat))) (os : list cobs) : bool :=
  match ms, os with
  | [], [] => true
  | Some _ :: ms', OAcc _ _ :: os' => same_shape ms' os'
  | None :: ms', ORej :: os' => same_shape ms' os'
  | _, _ => false
  end.

Definition model_hist_ok (U : list gen) (T : list entry) (h : hobs) : bool :=
  let r := model_hist U T init (h_calls h) in
  let st := fst r in
  let pairs := zip (snd r) (h_obs h) in
  same_shape (snd r) (h_obs h) &&
  (* identities: the same partition of the calls into modules *)
  all_pairs (fun a b => match a, b with
                        | (Some (_, m1), OAcc i1 _), (Some (_, m2), OAcc i2 _) => Bool.eqb (Nat.eqb m1 m2) (Nat.eqb i1 i2)
                        | _, _ => true end) pairs &&
  (* names: the name computed by the model for the creating call *)
  forallb (fun p => match p with
                    | (Some (_, m), OAcc _ n) =>
                        match nth_error (heap st) m with
                        | Some gm => name_matches U T (m_creator gm) n &&
                                     match uname_of U (m_creator gm) with
                                     | Ok (Readable _) => String.eqb n (m_name gm)
                                     | _ => true end
                        | None => false end
                    | _ => true end) pairs &&
  (* body executions, in order - those of refused calls included *)
  ((fix eq (a b : list key) : bool :=
      match a, b with [] , [] => true | x :: a', y :: b' => key_eqb x y && eq a' b' | _, _ => false end)
     (rev (runs st)) (h_runs h)).

Definition chk_group (c : gcase) : Z :=
  let U := c_univ c in let T := c_table c in
  if negb (table_ok U T) then 3 else
  if negb (forallb (spec_hist U T) (c_hists c) && spec_cross U (c_hists c)) then 1 else
  if negb (forallb (model_hist_ok U T) (c_hists c)) then 2 else 0.

(* spec only: used for the built-in MosStack -> Series -> Wrapper stream, whose parameter classes
   (Instantiable / tuple valued) are outside the modelled value grammar *)
Definition chk_spec_only (c : gcase) : Z :=
  let U := c_univ c in let T := c_table c in
  if negb (table_ok U T) then 3 else
  if negb (forallb (spec_hist U T) (c_hists c) && spec_cross U (c_hists c)) then 1 else 0.

(* ---------- model validation on single values (stream "values"): validation of a written value, == and hash of two
   validated instances of a one-field paramclass.  2 = model and implementation differ. ---------- *)
Inductive held := HRej | HVal (v : pval).
Inductive obool := OTrue | OFalse | ORaise | OAbsent.
Record vcase := { v_dtype : dtype; v_a : pval; v_b : pval; v_held_a : held; v_held_b : held; v_eq : obool; v_heq : obool }.

Definition held_matches (d : dtype) (w : pval) (o : held) : bool :=
  match validate d w, o with
  | Ok x, HVal y => pval_eqb x y && valid d y
  | Error _, HRej => true
  | _, _ => false
  end.

Definition obool_matches (m : bool) (o : obool) : bool :=
  match o with OTrue => m | OFalse => negb m | ORaise => true | OAbsent => false end.
Definition obool_true (o : obool) : bool := match o with OTrue => true | _ => false end.

Definition chk_value (c : vcase) : Z :=
  if negb (held_matches (v_dtype c) (v_a c) (v_held_a c) && held_matches (v_dtype c) (v_b c) (v_held_b c)) then 2 else
  match v_held_a c, v_held_b c with
  | HVal x, HVal y =>
      (* == exactly; hash: equal in the model -> equal on the implementation (CPython's hash has collisions, e.g. -1 / -2) *)
      if negb (obool_matches (inst_eqb x y) (v_eq c)) then 2 else
      if hash_eqb x y && negb (obool_true (v_heq c)) then 2 else
      (* the two calls have one key exactly when the implementation's dict lookup would hit *)
      match canon x, canon y, v_eq c with
      | Ok kx, Ok ky, (OTrue | OFalse) => if Bool.eqb (pval_eqb kx ky) (obool_true (v_eq c) && obool_true (v_heq c)) then 0 else 2
      | Ok _, Ok _, _ => 0
      | _, _, _ => 2
      end
  | _, _ => 0
  end.
