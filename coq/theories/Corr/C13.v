(* Corr/C13.v — evaluators of the C13 correspondence run.  Per case a code:
   0 = the implementation satisfies the property on this input and agrees with the model,
   1 = the implementation violates the property (Spec/C13Spec.v) on this input,
   2 = the property holds on this input but model and implementation differ (tie broken),
   3 = a Coq specification function disagrees with the CPython oracle (spec-validation streams), or a float's
       repr annotation does not read back as that float. *)
From Coq Require Import String Ascii.
Require Import Hdl21.Base.PyInt Hdl21.Base.Dec Hdl21.Model.Prefixed Hdl21.Model.C13Params Hdl21.Spec.C13Spec.
Require Import Hdl21.Corr.C03 Hdl21.Corr.C14.
Open Scope list_scope.
Open Scope Z_scope.
Notation length := List.length.

(* ------------------------------------------------------------------ floats: bit pattern -> m * 2^e *)
Definition fl_of_bits (b : Z) : fl :=
  let s := b / 9223372036854775808 in
  let e := (b / 4503599627370496) mod 2048 in
  let f := b mod 4503599627370496 in
  if e =? 2047 then FInf (s =? 1)
  else let m := if e =? 0 then f else f + 4503599627370496 in
       FFin (if s =? 1 then - m else m) (if e =? 0 then -1074 else e - 1075).

Definition float_annot_ok (v : value) : bool :=
  match v with
  | VFloat b r =>
      if float_finite b then
        match numeric r with Some d => fl_eqb (nearest_double d) (fl_of_bits b) | None => false end
      else true
  | _ => true
  end.

(* ------------------------------------------------------------------ exact equality of exported values *)
Definition pnum_eqb (a b : pnum) : bool :=
  match a, b with
  | NInt64 x, NInt64 y => x =? y
  | NString x, NString y => str_eqb x y
  | NDouble x, NDouble y => x =? y
  | _, _ => false
  end.
Definition pvalue_eqb (a b : pvalue) : bool :=
  match a, b with
  | PVLiteral x, PVLiteral y => str_eqb x y
  | PVInt64 x, PVInt64 y => x =? y
  | PVDouble x, PVDouble y => x =? y
  | PVString x, PVString y => str_eqb x y
  | PVPrefixed n p, PVPrefixed m q => pnum_eqb n m && String.eqb p q
  | _, _ => false
  end.

(* ------------------------------------------------------------------ stream scalar: to_scalar *)
Inductive sres := SExc | SPre (d : dec) (q : Z) | SLit (s : str).

Definition chk_scalar (c : value * sres) : Z :=
  let '(v, r) := c in
  if negb (float_annot_ok v) then 3 else
  let spec_ok :=
    match expected 0 v, r with
    | XFree, _ => true
    | XValue d, SPre d' q => is_prefix q && deqb (dscaleb d' q) d
    | XPrefixed d q, SPre d' q' => (q =? q') && deqb d' d
    | XLiteral s, SLit t => str_eqb s t
    | _, _ => false
    end in
  if negb spec_ok then 1 else
  let model_ok :=
    match to_scalar v, r with
    | Ok (VPrefixed p), SPre d q => dec_identical (number p) d && (prefix p =? q)
    | Ok (VLit s), SLit t => str_eqb s t
    | Error _, SExc => true
    | _, _ => false
    end in
  if model_ok then 0 else 2.

(* ------------------------------------------------------------------ stream value: export_param_value *)
Inductive vres := VExc | VOmit | VVal (pv : pvalue).

Definition chk_value (c : value * vres) : Z :=
  let '(v, r) := c in
  let x := expected 4 v in
  let spec_ok :=
    if is_free x then true
    else if unrepresentable x then match r with VExc => true | _ => false end
    else match x, r with
         | XOmit, VOmit => true
         | _, VVal pv => shows x pv
         | _, _ => false
         end in
  if negb spec_ok then 1 else
  let model_ok :=
    match export_param_value v, r with
    | Ok None, VOmit => true
    | Ok (Some a), VVal b => pvalue_eqb a b
    | Error _, VExc => true
    | _, _ => false
    end in
  if model_ok then 0 else 2.

(* ------------------------------------------------------------------ stream inst: paramclass construction + to_proto *)
Inductive ires := IRej | IAcc (dom nm : str) (ps : list (str * pvalue)).

Definition spec_ref (t : target) (dom nm : str) : bool :=
  match t with
  | TPrim name =>
      match sassoc name ideal_doc with
      | Some v => str_eqb dom (of_string "vlsir.primitives") && str_eqb nm (of_string v)
      | None => str_eqb dom (of_string "hdl21.primitives") && str_eqb nm (of_string name)
      end
  | TExt _ d name => str_eqb dom (match d with Some x => x | None => [] end) && str_eqb nm name
  end.

Fixpoint doc_rename (t : list (string * string)) (k : str) : str :=
  match t with
  | [] => k
  | (a, b) :: r => if str_eqb k (of_string a) then of_string b else doc_rename r k
  end.
Definition spec_name (t : target) (k : str) : str :=
  match t with
  | TPrim name => if String.eqb name "PulseVoltageSource" then doc_rename pulse_doc k else k
  | TExt _ _ _ => k
  end.

Definition entries (k : str) (ps : list (str * pvalue)) : list pvalue :=
  map snd (filter (fun e => str_eqb k (fst e)) ps).

(* value checks of a primitive's own parameter class are not this property's concern: a Bipolar width / length whose
   value does not exceed the comparison tolerance 10^(min(prefix, 0) - EPSILON) of prefixed numbers ("invalid width")
   is outside the quantifier *)
Definition domain_free (t : target) (k : str) (x : expect) : expect :=
  match t with
  | TPrim name =>
      if String.eqb name "Bipolar" && (str_eqb k (of_string "w") || str_eqb k (of_string "l")) then
        match x with
        | XValue d => if dltb (of_int 1 (-20)) d then x else XFree
        | XPrefixed d q => if dltb (of_int 1 (Z.min q 0 - 20)) (dscaleb d q) then x else XFree
        | _ => x
        end
      else x
  | _ => x
  end.

Definition spec_inst (c : call) (r : ires) : bool :=
  let xs := map (fun p : str * Z * value => (fst (fst p), domain_free (c_tgt c) (fst (fst p)) (expected (snd (fst p)) (snd p)))) (c_params c) in
  if existsb (fun kx => is_free (snd kx)) xs then true
  else
    let must_refuse := existsb (fun kx => unrepresentable (snd kx)) xs in
    match r with
    | IRej => must_refuse
    | IAcc dom nm ps =>
        negb must_refuse && spec_ref (c_tgt c) dom nm
        && (length ps =? length (filter (fun kx => negb (is_omit (snd kx))) xs))%nat
        && forallb (fun kx : str * expect =>
                      let (k, x) := kx in
                      match entries (spec_name (c_tgt c) k) ps with
                      | [] => is_omit x
                      | [pv] => shows x pv
                      | _ => false
                      end) xs
    end.

Fixpoint params_eqb (a b : list (str * pvalue)) : bool :=
  match a, b with
  | [], [] => true
  | (k, v) :: a', (k', v') :: b' => str_eqb k k' && pvalue_eqb v v' && params_eqb a' b'
  | _, _ => false
  end.

Definition chk_inst (c : call * ires) : Z :=
  let '(cl, r) := c in
  if negb (forallb (fun p : str * Z * value => float_annot_ok (snd p)) (c_params cl)) then 3 else
  if negb (spec_inst cl r) then 1 else
  let model_ok :=
    match export_instance cl, r with
    | Ok (d, n, ps), IAcc d' n' ps' => str_eqb d d' && str_eqb n n' && params_eqb ps ps'
    | Error _, IRej => true
    | _, _ => false
    end in
  if model_ok then 0 else 2.

(* ------------------------------------------------------------------ spec validation against CPython's decimal module *)
Definition chk_numspec (c : str * option dec) : Z :=
  let '(s, o) := c in
  match numeric s, o with
  | None, None => 0
  | Some a, Some b => if dec_identical a b then 0 else 3
  | _, _ => 3
  end.

Definition chk_strspec (c : dec * str) : Z :=
  let '(d, s) := c in
  match dec_to_string d with Some t => if str_eqb s t then 0 else 3 | None => 3 end.

(* ================================================================== strengthening round: objects with several facets
   (Model/C13Dispatch.v, Spec/C13Overlap.v).  Same codes.  `expected_obj` = (refusal admissible, what must be observable). *)
Require Import Hdl21.Model.C13Dispatch Hdl21.Spec.C13Overlap.

Definition float_annot_ok_obj (o : pyobj) : bool :=
  match o_flt o with Some (b, r) => float_annot_ok (VFloat b r) | None => true end.

(* to_scalar: the result is the object itself or a fresh Prefixed / Literal; the driver looks at it as a Prefixed first *)
Definition chk_scalar_obj (c : pyobj * sres) : Z :=
  let '(o, r) := c in
  if negb (float_annot_ok_obj o) then 3 else
  let '(may, x) := expected_obj 0 o in
  let spec_ok :=
    match x, r with
    | XFree, _ => true
    | _, SExc => may
    | XValue d, SPre d' q => is_prefix q && deqb (dscaleb d' q) d
    | XPrefixed d q, SPre d' q' => (q =? q') && deqb d' d
    | XLiteral s, SLit t => str_eqb s t
    | _, _ => false
    end in
  if negb spec_ok then 1 else
  let model_ok :=
    match to_scalar_obj o, r with
    | Ok st, SPre d q => match o_pre st with Some p => dec_identical (number p) d && (prefix p =? q) | None => false end
    | Ok st, SLit t => match o_pre st, o_lit st with None, Some s => str_eqb s t | _, _ => false end
    | Error _, SExc => true
    | _, _ => false
    end in
  if model_ok then 0 else 2.

Definition chk_value_obj (c : pyobj * vres) : Z :=
  let '(o, r) := c in
  let '(may, x) := expected_obj 4 o in
  let spec_ok :=
    if is_free x then true
    else if unrepresentable x then match r with VExc => true | _ => false end
    else match x, r with
         | _, VExc => may
         | XOmit, VOmit => true
         | _, VVal pv => shows x pv
         | _, _ => false
         end in
  if negb spec_ok then 1 else
  let model_ok :=
    match export_param_value_obj o, r with
    | Ok None, VOmit => true
    | Ok (Some a), VVal b => pvalue_eqb a b
    | Error _, VExc => true
    | _, _ => false
    end in
  if model_ok then 0 else 2.

Definition domain_free_obj (t : target) (k : str) (mx : bool * expect) : bool * expect := (fst mx, domain_free t k (snd mx)).

Definition spec_inst_obj (c : ocall) (r : ires) : bool :=
  let xs := map (fun p : str * Z * pyobj =>
                   (fst (fst p), domain_free_obj (oc_tgt c) (fst (fst p)) (expected_obj (snd (fst p)) (snd p)))) (oc_params c) in
  if existsb (fun kx => is_free (snd (snd kx))) xs then true
  else
    let must_refuse := existsb (fun kx => unrepresentable (snd (snd kx))) xs in
    let may_refuse := existsb (fun kx => fst (snd kx)) xs in
    match r with
    | IRej => must_refuse || may_refuse
    | IAcc dom nm ps =>
        negb must_refuse && spec_ref (oc_tgt c) dom nm
        && (length ps =? length (filter (fun kx => negb (is_omit (snd (snd kx)))) xs))%nat
        && forallb (fun kx : str * (bool * expect) =>
                      let '(k, (_, x)) := kx in
                      match entries (spec_name (oc_tgt c) k) ps with
                      | [] => is_omit x
                      | [pv] => shows x pv
                      | _ => false
                      end) xs
    end.

Definition chk_inst_obj (c : ocall * ires) : Z :=
  let '(cl, r) := c in
  if negb (forallb (fun p : str * Z * pyobj => float_annot_ok_obj (snd p)) (oc_params cl)) then 3 else
  if negb (spec_inst_obj cl r) then 1 else
  let model_ok :=
    match export_instance_obj cl, r with
    | Ok (d, n, ps), IAcc d' n' ps' => str_eqb d d' && str_eqb n n' && params_eqb ps ps'
    | Error _, IRej => true
    | _, _ => false
    end in
  if model_ok then 0 else 2.
