(* Corr/C18.v — evaluators of the C18 correspondence run.
   A case is an edit history with the implementation's observation after EVERY operation.
   Result per case: 0 ok, else  code + 10 * (index of the first offending step + 1)  with
   code 1 = the implementation violates the specification (Spec/Namespace.v) at that step,
   code 2 = the specification is met everywhere but the implementation differs from the model
            (acceptance, key order of the namespace or of a view). Step index = number of steps for the
   final export check. *)
Require Import Hdl21.Base.PyInt Hdl21.Spec.Namespace Hdl21.Model.Namespace.
From Coq Require Import String Ascii.
Open Scope string_scope.
Open Scope Z_scope.

(* observation of the live container *)
Record obs := O {
  o_ns : list (name * Z * Z * bool * bool);   (* key, object id, live class, parent is the container, obj.name == key *)
  o_views : list (list (name * Z));           (* ports, signals, instances, instarrays, instbundles, bundles *)
  o_gets : list (name * Z * Z)                (* name, get(name), getattr(name): id | -1 absent | -2 other Python object *)
}.
Inductive istep := IS (o : op) (acc : bool) (ob : option obs).   (* ob = None: the container is broken (a view is gone) *)
Record export := E { e_sigs : list name; e_ports : list name; e_insts : list name; e_derived : list name }.
Definition hcase := (ctr * list name * list istep * option export)%type.

Definition class_of_kind (k : vkind) : Z :=
  match k with
  | KSignal true _ => 0 | KSignal false _ => 1 | KInstance => 2 | KInstArray => 3 | KInstBundle => 4 | KBundleInst => 5
  | _ => 6
  end.

(* the view an object belongs to, judged by its LIVE class and visibility *)
Definition view_of_class (c : ctr) (cls : Z) : option view :=
  match c with
  | CModule =>
      if cls =? 0 then Some VPorts else if cls =? 1 then Some VSignals else if cls =? 2 then Some VInstances
      else if cls =? 3 then Some VInstArrays else if cls =? 4 then Some VInstBundles else if cls =? 5 then Some VBundles
      else None
  | CBundle => if (cls =? 0) || (cls =? 1) then Some VSignals else if cls =? 5 then Some VBundles else None
  end.

Definition view_index (k : view) : nat :=
  match k with VPorts => 0 | VSignals => 1 | VInstances => 2 | VInstArrays => 3 | VInstBundles => 4 | VBundles => 5 end%nat.

Fixpoint zlookup (n : name) (l : list (name * Z)) : Z :=
  match l with [] => -1 | (m, i) :: t => if String.eqb n m then i else zlookup n t end.

Fixpoint ns_find (n : name) (l : list (name * Z * Z * bool * bool)) : option (Z * Z) :=
  match l with
  | [] => None
  | (m, i, cls, _, _) :: t => if String.eqb n m then Some (i, cls) else ns_find n t
  end.

Definition id_of (o : option value) : Z := match o with Some v => v_id v | None => -1 end.

Definition view_opt_eqb (a : option view) (b : view) : bool :=
  match a with Some k => view_eqb k b | None => false end.

(* attribute access against get(): a bound name gives the object get() gives; an unbound name gives NO attribute at all
   (-1: AttributeError / None) - "some other Python object" (-2) is acceptable only for the Python-level attributes of the
   class (`ports`, `name`, `add`, ...: the regenerated table of public attribute names).  A container that keeps plain
   class-body data (`width = 8`) readable under a name its namespace does not know - or knows as another object - fails here. *)
Definition ga_ok (c : ctr) (n : name) (g ga : Z) : bool :=
  if 0 <=? g then ga =? g else if mem n (public_attrs c) then ga <? 0 else ga =? -1.

(* the observation is coherent and denotes exactly the abstract map `a` *)
Definition obs_ok (c : ctr) (a : astate) (ob : obs) : bool :=
  forallb (fun e => let '(n, g, ga) := e in
     (g =? id_of (a_map a n)) &&
     (is_private n || ga_ok c n g ga)) (o_gets ob)
  &&
  forallb (fun e => let '(n, i, cls, par, nm) := e in
     par && nm &&
     existsb (fun e' => let '(m, g, _) := e' in String.eqb m n && (g =? i)) (o_gets ob) &&
     match a_map a n with Some v => (i =? v_id v) && (cls =? class_of_kind (v_kind v)) | None => false end &&
     match view_of_class c cls with
     | Some k => zlookup n (nth (view_index k) (o_views ob) []) =? i
     | None => false
     end) (o_ns ob)
  &&
  forallb (fun k =>
     forallb (fun e => let '(n, i) := e in
        match ns_find n (o_ns ob) with
        | Some (i', cls) => (i =? i') && view_opt_eqb (view_of_class c cls) k
        | None => false
        end) (nth (view_index k) (o_views ob) [])) all_views
  && (List.length (o_views ob) =? 6)%nat.

Definition pair_eqb (a b : name * Z) : bool := String.eqb (fst a) (fst b) && (snd a =? snd b).
Fixpoint list_eqb {A} (f : A -> A -> bool) (a b : list A) : bool :=
  match a, b with
  | [], [] => true
  | x :: a', y :: b' => f x y && list_eqb f a' b'
  | _, _ => false
  end.

Definition obs_eqb (c : ctr) (a b : obs) : bool :=
  list_eqb (fun x y => let '(n, i, c1, p, m) := x in let '(n', i', c2, p', m') := y in
                       String.eqb n n' && (i =? i') && (c1 =? c2) && Bool.eqb p p' && Bool.eqb m m') (o_ns a) (o_ns b)
  && list_eqb (list_eqb pair_eqb) (o_views a) (o_views b)
  && list_eqb (fun x y => let '(n, g, ga) := x in let '(n', g', ga') := y in
                          String.eqb n n' && (g =? g') &&
                          (* attribute access to Python-level attributes (e.g. `name`, which stays assignable) is not the namespace's business *)
                          (is_private n || mem n (public_attrs c) || (ga =? ga'))) (o_gets a) (o_gets b).

Definition is_elab (o : op) : bool := match o with Elaborate => true | _ => false end.

(* specification pass: first step at which the implementation leaves the specification *)
Fixpoint walk_spec (c : ctr) (a : astate) (prev : option obs) (steps : list istep) (idx : Z) : Z * astate :=
  match steps with
  | [] => (0, a)
  | IS o acc None :: _ => (1 + 10 * (idx + 1), a)
  | IS o acc (Some ob) :: t =>
      let r := spec_step c a o in
      let a' := match r with Accepted x => x | Rejected => a end in
      let ok :=
        Bool.eqb acc (accepted r) &&
        (if is_elab o then true                       (* elaboration rewrites the module: not C18's business *)
         else if a_elab a
         then match prev with Some p => obs_eqb c p ob | None => false end    (* frozen after elaboration *)
         else obs_ok c a' ob) in
      if ok then walk_spec c a' (Some ob) t (idx + 1) else (1 + 10 * (idx + 1), a)
  end.

Definition keys_ids (l : assoc) : list (name * Z) := map (fun e => (fst e, v_id (snd e))) l.

Definition model_matches (s : state) (ob : obs) : bool :=
  list_eqb pair_eqb (map (fun e => let '(n, i, _, _, _) := e in (n, i)) (o_ns ob)) (keys_ids (st_ns s))
  && forallb (fun k => list_eqb pair_eqb (nth (view_index k) (o_views ob) []) (keys_ids (st_views s k))) all_views.

(* model pass: acceptance and the ordered contents of namespace and views, until elaboration *)
Fixpoint walk_model (c : ctr) (s : state) (steps : list istep) (idx : Z) : Z :=
  match steps with
  | [] => 0
  | IS o acc None :: _ => 2 + 10 * (idx + 1)
  | IS o acc (Some ob) :: t =>
      let r := step c s o in
      let s' := match r with Ok x => x | Error _ => s end in
      let ok := Bool.eqb acc (is_ok r) && (is_elab o || st_elab s || model_matches s' ob) in
      if ok then walk_model c s' t (idx + 1) else 2 + 10 * (idx + 1)
  end.

(* exported package of the edited container, over the plain names of the alphabet *)
Definition export_ok (c : ctr) (a : astate) (names : list name) (e : export) : bool :=
  forallb (fun n =>
    if is_private n || reserved c n || mem n (public_attrs c) then true else
    let s := mem n (e_sigs e) in let p := mem n (e_ports e) in
    let i := mem n (e_insts e) in let d := mem n (e_derived e) in
    match a_map a n with
    | Some v =>
        match v_kind v with
        | KSignal port _ => s && negb i && negb d && (is_bundle c || Bool.eqb p port)
        | KInstance => i && negb s && negb d
        | KInstArray | KInstBundle | KBundleInst => d && negb s && negb i
        | _ => false
        end
    | None => negb s && negb i && negb d
    end) names.

Definition chk_history (h : hcase) : Z :=
  let '(c, names, steps, ex) := h in
  let '(r, a) := walk_spec c a_init None steps 0 in
  if negb (r =? 0) then r else
  let n := Z.of_nat (List.length steps) in
  match ex with
  | Some e => if export_ok c a names e then walk_model c init steps 0 else 1 + 10 * (n + 1)
  | None => walk_model c init steps 0
  end.

(* class-style definition: items, accepted?, observation of the resulting container *)
Definition ccase := (ctr * list (name * value) * bool * option obs)%type.

Definition chk_class (x : ccase) : Z :=
  let '(c, items, acc, ob) := x in
  let spec_ok :=
    match spec_class c items, acc, ob with
    | Accepted a, true, Some o => obs_ok c a o
    | Accepted _, false, _ => class_dontcare c items
    | Rejected, false, _ => true
    | _, _, _ => false
    end in
  if negb spec_ok then 1 else
  let model_ok :=
    match of_class_body c init items, acc, ob with
    | Ok s, true, Some o => model_matches s o
    | Error _, false, _ => true
    | _, _, _ => false
    end in
  if model_ok then 0 else 2.

(* class-style definition FOLLOWED by an edit history (second strengthening round): the class body (index 0), then every
   operation (index k >= 1) is checked as in chk_history, starting from the state the class body denotes; identities of the
   body's values and of the operations' values are disjoint (the harness numbers them consecutively) *)
Definition chcase := (ctr * list (name * value) * bool * option obs * list name * list istep * option export)%type.

Definition chk_class_hist (x : chcase) : Z :=
  let '(c, items, acc, ob, names, steps, ex) := x in
  let r0 := chk_class (c, items, acc, ob) in
  if negb (r0 =? 0) then r0 + 10 else
  match spec_class c items, of_class_body c init items, acc with
  | Accepted a, Ok s, true =>
      let '(r, a') := walk_spec c a ob steps 1 in
      if negb (r =? 0) then r else
      let n := Z.of_nat (List.length steps) in
      match ex with
      | Some e => if export_ok c a' names e then walk_model c s steps 1 else 1 + 10 * (n + 2)
      | None => walk_model c s steps 1
      end
  | _, _, _ => 0
  end.

Definition chk_static (l : list bool) : Z := if forallb (fun b => b) l then 0 else 1.

(* ====================================================================================================
   Strengthening round: histories over SEVERAL containers that share live objects (Spec/C18World.v).
   A case: observed containers, alphabet, object creations, steps (operation, accepted?, one observation per
   observed container), and the exported package of one observed container.
   Same result code as above. *)
Require Import Hdl21.Spec.C18World Hdl21.Model.C18World.

Inductive wistep := WIS (o : wop) (acc : bool) (obsl : list (option obs)).
Definition wcase := (list cid * list name * list wop * list wistep * option (nat * option export))%type.
(* export: None = not requested; Some (k, None) = exporting observed container k failed; Some (k, Some e) = its package *)

(* observation of container ci against the specification world: the namespace denotes the abstract map, every
   object sits in the view of the kind it was SORTED by, and the flags the implementation reports about the live
   object (class / visibility, parent is this container, name is the key) are those of the specification's heap *)
Definition wobs_ok (ci : cid) (a : astate) (h : heap) (ob : obs) : bool :=
  let c := fst ci in
  forallb (fun e => let '(n, g, ga) := e in
     (g =? id_of (a_map a n)) &&
     (is_private n || ga_ok c n g ga)) (o_gets ob)
  &&
  forallb (fun e => let '(n, i, cls, par, nm) := e in
     existsb (fun e' => let '(m, g, _) := e' in String.eqb m n && (g =? i)) (o_gets ob) &&
     match a_map a n with
     | Some v =>
         (i =? v_id v) &&
         match h i with
         | Some o => (cls =? class_of_kind (o_kind o)) &&
                     Bool.eqb par (opt_z_eqb (parent_of c o) (snd ci)) &&
                     Bool.eqb nm (opt_name_eqb (o_name o) n)
         | None => false
         end &&
         match view_of c (v_kind v) with
         | Some k => zlookup n (nth (view_index k) (o_views ob) []) =? i
         | None => false
         end
     | None => false
     end) (o_ns ob)
  &&
  forallb (fun k =>
     forallb (fun e => let '(n, i) := e in
        match ns_find n (o_ns ob), a_map a n with
        | Some (i', _), Some v => (i =? i') && (i =? v_id v) && view_opt_eqb (view_of c (v_kind v)) k
        | _, _ => false
        end) (nth (view_index k) (o_views ob) [])) all_views
  && (List.length (o_views ob) =? 6)%nat.

(* an elaborated container is frozen: same keys and objects in namespace, views and get() as before *)
Definition obs_ids_eqb (a b : obs) : bool :=
  list_eqb pair_eqb (map (fun e => let '(n, i, _, _, _) := e in (n, i)) (o_ns a))
                    (map (fun e => let '(n, i, _, _, _) := e in (n, i)) (o_ns b))
  && list_eqb (list_eqb pair_eqb) (o_views a) (o_views b)
  && list_eqb pair_eqb (map (fun e => let '(n, g, _) := e in (n, g)) (o_gets a))
                       (map (fun e => let '(n, g, _) := e in (n, g)) (o_gets b)).

Definition elab_of (o : wop) (ci : cid) : bool := match o with WElab cj => cid_eqb cj ci | _ => false end.

Fixpoint wcheck_spec (o : wop) (a a' : aworld) (cids : list cid) (obsl prev : list (option obs)) : bool :=
  match cids, obsl, prev with
  | [], [], [] => true
  | ci :: cs, Some ob :: os, p :: ps =>
      (if elab_of o ci then true
       else if a_elab (w_st a ci) then match p with Some pb => obs_ids_eqb pb ob | None => false end
       else wobs_ok ci (w_st a' ci) (w_heap a') ob)
      && wcheck_spec o a a' cs os ps
  | _, _, _ => false
  end.

Fixpoint walk_wspec (cids : list cid) (a : aworld) (prev : list (option obs)) (steps : list wistep) (idx : Z) : Z * aworld :=
  match steps with
  | [] => (0, a)
  | WIS o acc obsl :: t =>
      let r := wspec_step a o in
      let a' := match r with Some x => x | None => a end in
      match obsl with
      | [] =>   (* not observed (exhaustive streams: every proper prefix is a case of its own): acceptance only *)
          if Bool.eqb acc (is_some r) then walk_wspec cids a' prev t (idx + 1) else (1 + 10 * (idx + 1), a)
      | _ =>
          if Bool.eqb acc (is_some r) && wcheck_spec o a a' cids obsl prev
          then walk_wspec cids a' obsl t (idx + 1) else (1 + 10 * (idx + 1), a)
      end
  end.

Fixpoint wcheck_model (o : wop) (w w' : cworld) (cids : list cid) (obsl : list (option obs)) : bool :=
  match cids, obsl with
  | [], [] => true
  | ci :: cs, Some ob :: os =>
      (elab_of o ci || st_elab (w_st w ci) || model_matches (w_st w' ci) ob) && wcheck_model o w w' cs os
  | _, _ => false
  end.

(* Orphanage (elaboration of a Module; repaired code, fix C18-5): every attribute reports the Module as its parent and
   carries the key it is held by as its name *)
Definition orphan_free (w : cworld) (ci : cid) : bool :=
  forallb (fun e => match w_heap w (v_id (snd e)) with
                    | Some o => opt_z_eqb (parent_of (fst ci) o) (snd ci) && opt_name_eqb (o_name o) (fst e)
                    | None => false
                    end) (st_ns (w_st w ci)).

Fixpoint walk_wmodel (cids : list cid) (w : cworld) (steps : list wistep) (idx : Z) : Z :=
  match steps with
  | [] => 0
  | WIS o acc obsl :: t =>
      let r := wmstep w o in
      let w' := match r with Some x => x | None => w end in
      let orphan_ok := match o with
                       | WElab (CModule, i) => negb acc || orphan_free w (CModule, i)
                       | _ => true
                       end in
      if Bool.eqb acc (is_some r) && orphan_ok && (match obsl with [] => true | _ => wcheck_model o w w' cids obsl end)
      then walk_wmodel cids w' t (idx + 1) else 2 + 10 * (idx + 1)
  end.

(* name and parent of every entry over the alphabet are those of the live object (the exporter reads live names; which
   view lists a signal is the container's business, so a stale visibility does not matter here) *)
Definition np_synced (ci : cid) (a : aworld) (names : list name) : bool :=
  forallb (fun n => match a_map (w_st a ci) n with
                    | Some v => match w_heap a (v_id v) with
                                | Some o => opt_z_eqb (parent_of (fst ci) o) (snd ci) && opt_name_eqb (o_name o) n
                                | None => false
                                end
                    | None => true
                    end) names.

(* ae: the world the container's elaboration saw (the last world if the export itself elaborates it), a: the last world.
   An export that went through must come from a Module without orphans or renamed attributes (Orphanage, fix C18-5);
   it is compared with the namespace when the names still are in place at the end. *)
Definition wexport_ok (ci : cid) (ae a : aworld) (names : list name) (e : export) : bool :=
  (is_bundle (fst ci) || np_synced ci ae names) &&
  (if np_synced ci ae names && np_synced ci a names then export_ok (fst ci) (w_st a ci) names e else true).

(* the world the exported package of container ci speaks about: the one its (first accepted) elaboration saw, else the last *)
Fixpoint world_at_export (ci : cid) (a : aworld) (steps : list wistep) : aworld :=
  match steps with
  | [] => a
  | WIS o acc _ :: t => if acc && elab_of o ci then a else world_at_export ci (wspec_apply a o) t
  end.

Definition chk_world (x : wcase) : Z :=
  let '(cids, names, news, steps, ex) := x in
  let a0 := wfold astp aw_init news in
  let w0 := wmfold cw_init news in
  let '(r, a) := walk_wspec cids a0 (map (fun _ => None) cids) steps 0 in
  if negb (r =? 0) then r else
  let n := Z.of_nat (List.length steps) in
  let ex_ok := match ex with
               | Some (k, Some e) => match nth_error cids k with
                                     | Some ci => wexport_ok ci (world_at_export ci a0 steps) a names e
                                     | None => false
                                     end
               | _ => true
               end in
  if ex_ok then walk_wmodel cids w0 steps 0 else 1 + 10 * (n + 1).
