(* Corr/C01.v — evaluator of the C01 correspondence: the net partition and leaf devices of the
   exported package (read as the netlisters read it) against the meaning of the written design. *)
Require Import Hdl21.Base.PyInt Hdl21.Spec.PySlice Hdl21.Model.Slice Hdl21.Model.Resolve Hdl21.Base.Design
               Hdl21.Spec.Nets Hdl21.Spec.WfDesign Hdl21.Base.Package Hdl21.Base.PrimTable Hdl21.Corr.C03.

Definition subset (a b : list node) : bool := forallb (fun x => existsb (node_eqb x) b) a.
Definition same_nodes (a b : list node) : bool :=
  (Z.of_nat (Datatypes.length a) =? Z.of_nat (Datatypes.length b)) && subset a b && subset b a.

Fixpoint names_eqb (a b : list name) : bool :=
  match a, b with
  | [], [] => true
  | x :: a', y :: b' => String.eqb x y && names_eqb a' b'
  | _, _ => false
  end.

(* impl result: the package (None = the implementation raised) *)
Record c01_case := { cc_design : design; cc_terms : list node;
                     cc_pkg : option package; cc_top : name; cc_pterms : list node }.

(* codes: 0 ok; 1 implementation violates the property; 3 harness/spec inconsistency (the terminal list
   given by the harness is not the terminal set of the design, or the design is not valid);
   6 a valid design was rejected by the implementation *)
Definition chk_c01 (c : c01_case) : Z :=
  let d := cc_design c in
  match wf_design d, terminals d with
  | Ok _, Ok ts =>
      if negb (same_nodes (map fst ts) (cc_terms c)) then 3 else
      match labels d (design_fuel d) (cc_terms c) with
      | Error _ => 3
      | Ok ls =>
          match cc_pkg c with
          | None => 6
          | Some p =>
              match design_of_pkg prims_ext p (cc_top c) with
              | Error _ => 1
              | Ok pd =>
                  match terminals pd with
                  | Error _ => 1
                  | Ok pts =>
                      if negb (same_nodes (map fst pts) (cc_pterms c)) then 1 else
                      (* the same leaf devices (kind and parameters) at corresponding terminals *)
                      let dev_of (all : list (node * name)) (n : node) :=
                        match find (fun x => node_eqb (fst x) n) all with Some x => snd x | None => "?" end in
                      if negb (names_eqb (map (dev_of ts) (cc_terms c)) (map (dev_of pts) (cc_pterms c))) then 1 else
                      match labels pd (design_fuel pd) (cc_pterms c) with
                      | Error _ => 1
                      | Ok pls => if zlist_eqb ls pls then 0 else 1
                      end
                  end
              end
          end
      end
  | _, _ => 3
  end.
