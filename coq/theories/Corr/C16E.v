(* Corr/C16E.v — evaluator of the C16E tie: the implementation's flatten(m), exported, against the package-level model
   Model/C16EPkg.v:flatten_pkg run on the exported hierarchical package (both packages come from the implementation; the harness
   only strips the Python-module qualifier the exporter prefixes to module names: `designlib.Top`, `hdl21.flatten.Top_flat`).
   Codes: 0  both reject, or both accept and the ONE module of the model's package is the implementation's flattened module
             SYNTACTICALLY: name, signals with widths IN ORDER, ports with directions in order, instances in order with name,
             reference, parameters and connections in order; every external module the implementation's package declares is
             declared identically in the model's;
          2  accepted / rejected differently, or the modules differ (tie broken);
          4  the model contradicts its theorems on this case (the hierarchical package is wf_pkg but the model's result is not,
             or the model's result is not flat);
          3  malformed case. *)
Require Import Hdl21.Base.PyInt Hdl21.Spec.PySlice Hdl21.Model.Slice Hdl21.Model.Resolve Hdl21.Base.Design
               Hdl21.Spec.Nets Hdl21.Base.Package Hdl21.Base.PrimTable Hdl21.Spec.PkgWf Hdl21.Corr.C03 Hdl21.Corr.C01 Hdl21.Corr.C01E
               Hdl21.Spec.C16Flat Hdl21.Model.C16Flatten Hdl21.Corr.C16 Hdl21.Model.C16EPkg.
From Coq Require Import String.
Open Scope string_scope.
Open Scope list_scope.
Open Scope Z_scope.

Definition exts_declared (fp q : package) : bool := forallb (fun x => existsb (pext_eqb x) (pk_exts q)) (pk_exts fp).

Definition chk_c16e (c : c16_case) : Z :=
  let hp := c_hpkg c in
  match find_pmodule (pk_mods hp) (c_htop c) with
  | None => 3
  | Some _ =>
      match flatten_pkg hp (c_htop c), c_fpkg c with
      | Error _, None => 0
      | Error _, Some _ => 2
      | Ok _, None => 2
      | Ok q, Some fp =>
          match pk_mods q, find_pmodule (pk_mods fp) (c_ftop c) with
          | [qm], Some fm =>
              if negb (pm_is_flat qm) then 4 else
              if match wf_pkg prims_ext hp, wf_pkg prims_ext q with Ok _, Error _ => true | _, _ => false end then 4 else
              if negb (String.eqb (flat_top hp (c_htop c)) (pm_name qm)) then 4 else
              if pmodule_eqb qm fm && exts_declared fp q then 0 else 2
          | _, _ => 2
          end
      end
  end.
