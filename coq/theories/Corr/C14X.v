(* Corr/C14X.v — evaluators of the C14X correspondence streams (harness/vp/c14x.py, called from the end of harness/vp/c14.py:run).
   Codes as in Corr/C14.v: 0 ok, 1 the implementation violates the property, 2 the property holds but model and implementation
   differ, 3 a specification function disagrees with its reference / malformed case.

   float():  the specification is the PROVED nearest double `round_dec` (Props/C14X.v C14X_nearest_double_is_nearest); on every case
   the older specification function Corr/C14.v:nearest_double is compared with it as well (code 3), which ties the function the
   C14 pair stream evaluates to the proved one on every value of the run. *)
Require Import Hdl21.Base.PyInt Hdl21.Base.Dec Hdl21.Model.Prefixed Hdl21Gen.PrefixTable Hdl21.Corr.C03 Hdl21.Corr.C14.
Require Import Hdl21.Spec.SimSpec Hdl21.Model.C17Float Hdl21.Model.C14XModel.
Open Scope Z_scope.

Definition fl_of_dbl (d : dbl) : option fl :=
  match d with
  | DFin neg M E => Some (FFin (if neg then - M else M) E)
  | DInf neg => Some (FInf neg)
  | DNan => None
  end.

Definition ofl_eqb (a b : option fl) : bool :=
  match a, b with Some x, Some y => fl_eqb x y | _, _ => false end.

(* ---- float() of a GROUP of representations of one value: (representations, observed float of each) *)
Definition float_case := (list pfx * list (option fl))%type.

Definition chk_float_x (c : float_case) : Z :=
  let '(ps, fs) := c in
  match ps with
  | [] => 3
  | p0 :: _ =>
      let v := Prefixed.pval p0 in
      let want := fl_of_dbl (round_dec v) in
      if negb ((length ps =? length fs)%nat && forallb pwf ps && forallb (fun p => deqb (Prefixed.pval p) v) ps) then 3
      else if negb (ofl_eqb (Some (C14.nearest_double v)) want) then 3          (* the two specification functions agree *)
      else if negb (forallb (fun f => ofl_eqb f want) fs) then 1            (* every representation: the nearest double of the value *)
      else if forallb (fun pf => match pfloat_c (fst pf) with Ok d => ofl_eqb (snd pf) (fl_of_dbl d) | Error _ => false end)
                      (combine ps fs) then 0 else 2
  end.

(* ---- a.scale(): (operand, observed result, observed int(a)) *)
Definition scale_case := (pfx * ires * option Z)%type.

(* the model's choice satisfies its theorem on this value (self-check of the generated table + model; never expected to fail) *)
Definition model_closest (p : pfx) : bool :=
  match closest_log p with
  | Ok q => is_prefix q &&
            ((dint (number p) =? 0) ||
             forallb (fun v => negb (strictly_closer (Z.abs (dint (number p)) * Z.abs (dint (number p))) (pexp p) q v)) prefix_values)
  | Error _ => false
  end.

Definition chk_scale_x (c : scale_case) : Z :=
  let '(a, r, i) := c in
  if negb (pwf a) then 3
  else if negb (exact r (Prefixed.pval a) && match i with Some t => is_int_partb t (Prefixed.pval a) | None => false end) then 1
  else if negb (model_closest a) then 3
  else if same_auto r (Ok a) && match i, pint a with Some t, Ok t' => t =? t' | _, _ => false end then 0 else 2.

(* is the observed prefix different from the exactly closest one (then same_auto accepted it through the band)? for the report *)
Definition scale_other_neighbour (c : scale_case) : Z :=
  let '(a, r, _) := c in
  match r, closest_log a with IVal _ q, Ok q' => if q =? q' then 0 else 1 | _, _ => 0 end.

(* ---- mixed operands: a op x, x op a, hash(a) == hash(x) *)
Record mixed_case := mkMixed {
  ma : pfx; mx : operand;
  m_cmp : icmp;             (* a < x, a <= x, a == x, a != x, a > x, a >= x *)
  m_rcmp : icmp;            (* x < a, ... (the reflected operators) *)
  m_hash_applies : bool;    (* false for a float that is not exactly the decimal of its repr: hash(float) hashes another value *)
  m_hasheq : option bool    (* hash(a) == hash(x) *)
}.

Definition oval (x : operand) : dec :=
  match x with OpPre p => Prefixed.pval p | OpDec d => d | OpInt n => of_int n 0 | OpFloat d => d end.
Definition oprefix_c (x : operand) : Z := match x with OpPre p => prefix p | _ => 0 end.

Definition mixed_spec (c : mixed_case) : bool :=
  let va := Prefixed.pval (ma c) in let vx := oval (mx c) in
  let s := Z.min (prefix (ma c)) (oprefix_c (mx c)) in
  cmp_spec va vx s (m_cmp c) && cmp_spec vx va s (m_rcmp c)
  && match m_hasheq c with
     | Some h => if m_hash_applies c && deqb va vx then h else true
     | None => false
     end.

Definition cmp_model (o : cmpop -> result bool) (c : icmp) : bool :=
  match c with
  | CExc => false
  | CVal lt le eq ne gt ge =>
      match o OLt, o OLe, o OEq, o ONe, o OGt, o OGe with
      | Ok a, Ok b, Ok c', Ok d, Ok e, Ok f =>
          bool_eqb lt a && bool_eqb le b && bool_eqb eq c' && bool_eqb ne d && bool_eqb gt e && bool_eqb ge f
      | _, _, _, _, _, _ => false
      end
  end.

Definition mixed_model (c : mixed_case) : bool :=
  cmp_model (fun o => pcmp_mixed o (ma c) (mx c)) (m_cmp c)
  && cmp_model (fun o => pcmp_reflected o (mx c) (ma c)) (m_rcmp c)
  && match m_hasheq c, opt_norm_eqb (phash (ma c)) (ohash (mx c)) with
     | Some h, Some true => if m_hash_applies c then h else true
     | Some _, Some false => true
     | _, _ => false
     end.

Definition chk_mixed (c : mixed_case) : Z :=
  if negb (pwf (ma c) && match mx c with OpPre p => pwf p | _ => true end) then 3
  else if negb (mixed_spec c) then 1 else if mixed_model c then 0 else 2.

(* ---- chains: a < b, b < c, a < c, a > c, a == c as observed *)
Definition chain_case := (pfx * pfx * pfx * option (bool * bool * bool * bool * bool))%type.

Definition chk_chain (c : chain_case) : Z :=
  let '(a, b, c', o) := c in
  match o with
  | None => 1                                        (* a comparison raised *)
  | Some (ab, bc, ac, ca, eq) =>
      if negb (pwf a && pwf b && pwf c') then 3
      (* the order of the exact values is never inverted along a chain *)
      else if ab && bc && ca then 1
      else if bool_eqb ab (pcmp OLt a b) && bool_eqb bc (pcmp OLt b c') && bool_eqb ac (pcmp OLt a c')
              && bool_eqb ca (pcmp OGt a c') && bool_eqb eq (pcmp OEq a c')
              (* and the theorem's instance: transitive when the middle prefix is not below both outer ones *)
              && (if ab && bc && (Z.min (prefix a) (prefix c') <=? prefix b) then ac else true)
           then 0 else 2
  end.
