(* Corr/C07.v — evaluator of the C07 correspondence run.
   A case is a design DAG and a call history with the implementation's observation of EVERY call (each history was run
   in its own fresh interpreter).  Result per case: 0 ok, else code + 10 * (index of the first offending call + 1):
   code 1 = the implementation violates the property at that call: a call over a valid design is refused, the exported
            package / netlist differs from the one a fresh process produces for the same tops, add() is accepted on a
            module that an earlier call elaborated (or refused on one that none did), or a REFUSED add() changed what
            the module holds;
   code 2 = the property is met but the implementation differs from the model: the (pass entry, module) visit log of the
            call is not the model's, or a pass body changed io it must leave alone (frame conditions of the read
            discipline: bundle-level io before the flattening entry, flattened io after it), or the names a bundle-
            flattening visit created / wired (namespace, ports, connection names of the instances) are not the ones the
            flattening-names model computes from the module as it was before the visit and the flattened io of its children;
   code 3 = malformed case (history refers to a module that does not exist; the pass table lacks a needed entry). *)
Require Import Hdl21.Base.PyInt Hdl21.Model.C07PassMgr Hdl21.Model.C07FlatNames.
From Coq Require Import String.
Local Open Scope nat_scope.
Local Open Scope list_scope.

(* the machine with the flattening-names body (Model/C07FlatNames.v) at the flattening entry and bodies that change
   nothing of the modelled names elsewhere; the content `init m` of a module is what the implementation showed right
   BEFORE its flattening body ran (each module is flattened at most once per history).  Visit order, done sets,
   snapshots and marks do not depend on the bodies. *)
Definition ustate := state cmod cio cfl.
Definition ustep (bf mk : nat) : ustate -> op -> ustate * resp cmod :=
  step cmod cio cfl cbio cfio (fbody bf (fun _ _ _ c => c) (fun _ _ _ c => c)) (fun _ c => c) default_caches bf mk.
Definition uinit (inits : list cmod) (d : design) : ustate := init_state cmod cio cfl (fun m => nth m inits cm_empty) d.

Fixpoint list_eqb {A} (e : A -> A -> bool) (a b : list A) : bool :=
  match a, b with
  | [], [] => true
  | x :: a', y :: b' => e x y && list_eqb e a' b'
  | _, _ => false
  end.
Definition strs_eqb := list_eqb String.eqb.
(* connection names of an instance are compared as a multiset: the ORDER of `inst.conns` is no observable of this property
   (it is what fix 330cc52 of another property made deterministic; the pinned tree appends flattened connections) *)
Definition scount (x : string) (l : list string) : nat := List.length (filter (String.eqb x) l).
Definition strs_permb (a b : list string) : bool :=
  (List.length a =? List.length b) && forallb (fun x => scount x a =? scount x b) a.
Definition inst_eqb (a b : mid * list string) : bool := (fst a =? fst b) && strs_permb (snd a) (snd b).
(* what the implementation showed right AFTER a flattening body: namespace, ports, connection names of the instances *)
Definition post_eqb (c ob : cmod) : bool :=
  strs_eqb (c_ns c) (c_ns ob) && strs_eqb (c_ports c) (c_ports ob) && list_eqb inst_eqb (c_insts c) (c_insts ob).

(* the implementation's observation of one call:
   accepted (no exception; elaborate returned the very objects it was given),
   logged: the history ran under the logging elaborator (false: under the default elaborator, no visit log),
   visit log oldest first: (entry, module, public io unchanged by the body),
   same: 1 output equals the fresh-process reference, 0 differs, 2 the call has no output;
         for add(): 0 = the attempt changed what the module publicly holds (containers, namespace), 2 = it did not *)
Inductive iobs := IObs (accepted : bool) (logged : bool) (log : list (nat * nat * bool)) (same : nat)
                       (flat : list (mid * cmod)).   (* per flattening visit of the call: module, names after the body *)
Definition c07case := (design * list cmod * list (op * iobs))%type.

(* specification side: m was elaborated by an earlier call iff it is reachable from one of that call's tops *)
Fixpoint reachb (d : design) (fuel : nat) (t m : mid) : bool :=
  (t =? m) || match fuel with 0 => false | S f => existsb (fun c => reachb d f c m) (kids d t) end.
Definition spec_elaborated (d : design) (called : list mid) (m : mid) : bool :=
  existsb (fun t => reachb d (S t) t m) called.

Fixpoint keys_eqb (a : list (nat * nat * bool)) (b : list (nat * mid)) : bool :=
  match a, b with
  | [], [] => true
  | (k, m, _) :: a', (k', m') :: b' => (k =? k') && (m =? m') && keys_eqb a' b'
  | _, _ => false
  end.

Definition tops_of (o : op) : list mid :=
  match o with Elaborate t | Export t | Netlist t => t | _ => [] end.

Definition chk_call (bf mk : nat) (st : ustate) (called : list mid) (o : op) (ob : iobs) : nat * ustate :=
  let '(IObs acc logged log same flat) := ob in
  let '(st', r) := ustep bf mk st o in
  match r with
  | RBad _ => (3, st')
  | _ =>
    let d := s_design st in
    let prop_ok :=
      match o with
      | Elaborate _ => acc && negb (same =? 0)
      | Export _ | Netlist _ => acc && (same =? 1)
      | NewParent _ => acc
      | Add m _ => if spec_elaborated d called m then negb acc && negb (same =? 0) else acc
      end in
    if negb prop_ok then (1, st') else
    let fresh := rev (firstn (List.length (s_log st') - List.length (s_log st)) (s_log st')) in
    let model_ok :=
      (negb logged || keys_eqb log (log_keys cio cfl fresh)) &&
      forallb (fun e => let '(k, _, u) := e in (k =? bf) || u) log &&
      (* the flattening-names model: one observation per flattening visit, each equal to the model's content *)
      (negb logged || (List.length flat =? List.length (filter (fun e => fst (fst e) =? bf) fresh))) &&
      forallb (fun e => post_eqb (s_content st' (fst e)) (snd e)) flat &&
      match o, r with
      | Add _ _, RRefused _ => negb acc
      | Add _ _, RAccepted _ => acc
      | Add _ _, _ => false
      | _, _ => true
      end in
    if model_ok then (0, st') else (2, st')
  end.

(* a code-1 verdict (the property is violated) anywhere in the history wins over an earlier code-2 verdict (model and
   implementation differ), which is kept in `pend` and reported when no later call violates the property *)
Fixpoint chk_calls (bf mk : nat) (st : ustate) (called : list mid) (l : list (op * iobs)) (i : Z) (pend : Z) : Z :=
  match l with
  | [] => pend
  | (o, ob) :: l' =>
      let '(c, st') := chk_call bf mk st called o ob in
      if c =? 0 then chk_calls bf mk st' (tops_of o ++ called) l' (i + 1)%Z pend
      else if c =? 2 then chk_calls bf mk st' (tops_of o ++ called) l' (i + 1)%Z
                            (if (pend =? 0)%Z then (2 + 10 * (i + 1))%Z else pend)
      else (Z.of_nat c + 10 * (i + 1))%Z
  end.

Definition chk_c07 (c : c07case) : Z :=
  let '(d, inits, l) := c in
  match default_bf, default_mk with
  | Some bf, Some mk => if wf_design d then chk_calls bf mk (uinit inits d) [] l 0%Z 0%Z else 3%Z
  | _, _ => 3%Z
  end.

(* repeated classes in the pass list (the pinned tree lists ConnTypes and Orphanage twice) *)
Definition table_distinct : bool := caches_distinct default_caches.
