(* Corr/C01FB.v — the modelling assumption of C01F_bundles_end_to_end_partial, checked on every design of the bundle streams:
   "InstBundleElabPass + BundleFlattener, followed by the rest of the pipeline, give the package that the pipeline model gives
   on the member-wise lowering (Spec/C01BLower.v:lower) of the written bundle design - up to the names of invented signals and
   instances".  For one bundle design: the hypotheses of the corollary are evaluated, Coq computes the model's package on
   `lower dot_name d` and compares its net labels on the (mapped) terminals with the path-based labels of the design; the
   implementation's package is compared with the same labels by chk_c01b.
   Codes: 0  hypotheses hold; model package, implementation package and specification have the same nets on all terminals
          8  the lowered design is outside frag_ok2 (a loop between reference groups); implementation checked against the specification only
          9  the lowered design is not valid by Spec/WfDesign.v (e.g. a no-connect member inside the concatenation a Pair is
             lowered to): outside the corollary; implementation checked against the specification only
          1/6 the implementation violates the property (as reported by chk_c01b)
          2  the model rejects the lowered design although all hypotheses hold (tie broken)
          4  the model's package does not have the nets of the design (would contradict the corollary)
          3  a decidable hypothesis of the lowering lemma fails (harness / spec inconsistency) *)
Require Import Hdl21.Base.PyInt Hdl21.Spec.PySlice Hdl21.Model.Slice Hdl21.Model.Resolve Hdl21.Base.Design
               Hdl21.Spec.Nets Hdl21.Spec.WfDesign Hdl21.Base.Package Hdl21.Base.PrimTable Hdl21.Spec.PkgWf
               Hdl21.Corr.C03 Hdl21.Corr.C01 Hdl21.Base.C01BDesign Hdl21.Spec.C01BNets Hdl21.Spec.C01BWf Hdl21.Spec.C01BLower
               Hdl21.Corr.C01B Hdl21.Spec.C01ENets Hdl21.Model.C01EElab Hdl21.Model.C01FElab Hdl21.Spec.C01FNets
               Hdl21.Proofs.C01FProofsEnd Hdl21.Proofs.C01FProofsBundles.

Record c01fb_case := { fb_case : c01b_case; fb_xinfo : xinfo }.

Definition chk_c01fb (c : c01fb_case) : Z :=
  let cb := fb_case c in
  let d := cb_design cb in
  let ts := cb_terms cb in
  let xi := fb_xinfo c in
  let ld := lower dot_name d in
  let ci := chk_c01b cb in
  if negb (ci =? 0) then ci else
  if negb (names_ok dot_name d && pairs_ok d) then 3 else
  match traverse (borbit d (bdesign_fuel d)) ts, blabels d (bdesign_fuel d) ts with
  | Ok os, Ok bl =>
      if negb (forallb (forallb (bnode_ok d)) os && forallb (orbit_closed d) os) then 3 else
      match wf_design ld, terminals ld with
      | Ok _, Ok tl =>
          if negb (forallb (fun t => existsb (node_eqb (C01BLower.phi dot_name t)) (map fst tl)) ts) then 3 else
          if negb (xinfo_ok xi ld) then 3 else
          if negb (frag_ok2 ld) then 8 else
          match elab_export_model2 xi ld, top_name ld with
          | Ok pm, Ok tn =>
              match design_of_pkg prims_ext pm tn with
              | Ok pd =>
                  match labels pd (design_fuel pd) (map (fun t => term_map2 xi ld (C01BLower.phi dot_name t)) ts) with
                  | Ok pl => if zlist_eqb pl bl then 0 else 4
                  | Error _ => 4
                  end
              | Error _ => 4
              end
          | Error _, _ => 2
          | _, Error _ => 3
          end
      | _, _ => 9
      end
  | _, _ => 3
  end.
