(* Corr/C11E.v — the tie of C11E: for one written design, the pipeline model's package read as c11pkg (to_c11) against the
   package the implementation exported, read as c11pkg by the C11 harness printer; and rt_pkg on it.
     0  the two packages are equal, the hypotheses of C11E_round_trip_end_to_end_partial hold, the package is normal and a
        fixed point of rt_pkg;  also: the design is refused by both, or lies outside the model (frag_ok2 false / model declines)
        and rt_pkg is the identity on the implementation's own package
     1  the round trip is NOT the identity on the exported package: the driver measured to_proto(from_proto(P)) <> P (as
        messages or as deterministic bytes), or from_proto / the second to_proto raised
     2  tie broken: to_c11 (model package) differs from the implementation's package, exactly one of the two refuses the design,
        or the driver measured P' = P while rt_pkg is not the identity on the package
     3  harness: a generated design on which a hypothesis is false (wf_design / xinfo_ok / xinfo_c11_ok) although both accept it
     4  the model contradicts its theorem: hypotheses hold, the package is not normal  *)
Require Import Hdl21.Base.PyInt Hdl21.Spec.PySlice Hdl21.Model.Slice Hdl21.Model.Resolve Hdl21.Base.Design
               Hdl21.Spec.WfDesign Hdl21.Base.Package Hdl21.Spec.C01ENets Hdl21.Spec.C01FNets Hdl21.Model.C01EElab Hdl21.Model.C01FElab
               Hdl21.Model.C11RoundTrip Hdl21.Model.C11EConv Hdl21.Corr.C03.
From Coq Require Import String.
Open Scope string_scope.
Open Scope Z_scope.

(* e_impl_rt: what the driver measured on the implementation itself - to_proto(from_proto(P).<top>) == P as messages and bytes *)
Record c11e_case := { e_design : design; e_xinfo : xinfo; e_impl : option c11pkg; e_impl_rt : bool }.

Definition rt_fixed (q : c11pkg) : bool :=
  match rt_pkg q with Ok r => c11pkg_eqb r q | Error _ => false end.

Definition wf_ok (d : design) : bool := match wf_design d with Ok _ => true | Error _ => false end.

Definition chk_c11e (c : c11e_case) : Z :=
  let d := e_design c in
  let xi := e_xinfo c in
  match elab_export_model2 xi d, e_impl c with
  | Error _, None => 0
  | Error _, Some q' => if negb (e_impl_rt c) then 1 else if frag_ok2 d && wf_ok d then 2 else if rt_fixed q' then 0 else 2
  | Ok _, None => if wf_ok d then 2 else 0
  | Ok p, Some q' =>
      let q := to_c11 p in
      if negb (e_impl_rt c) then 1 else
      if negb (c11pkg_eqb q q') then 2 else
      if negb (rt_fixed q) then 2 else
      if negb (wf_ok d && frag_ok2 d && xinfo_ok xi d && xinfo_c11_ok xi) then 3 else
      if negb (c11_normal q) then 4 else 0
  end.

(* shape, for the coverage report: 1 model accepts, 2 frag_ok2, 4 frag_ok, 8 xinfo_c11_ok *)
Definition c11e_shape (c : c11e_case) : Z :=
  (match elab_export_model2 (e_xinfo c) (e_design c) with Ok _ => 1 | Error _ => 0 end) +
  (if frag_ok2 (e_design c) then 2 else 0) + (if frag_ok (e_design c) then 4 else 0) + (if xinfo_c11_ok (e_xinfo c) then 8 else 0).

(* stream ptext (spec validation of Model/C11EConv.v:parse_pvalue): the text harness/impl/designlib.py:pval_str printed for a live
   ParamValue message, and the same message as the C11 harness printer reads it.  Code 3: parse_pvalue reads the text otherwise. *)
Definition ptext_case := (string * pvalue)%type.
Definition chk_ptext (c : ptext_case) : Z := if pvalue_eqb (parse_pvalue (fst c)) (snd c) then 0 else 3.
