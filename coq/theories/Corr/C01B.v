(* Corr/C01B.v — evaluator of the C01 correspondence on the BUNDLE fragment: the net partition and leaf devices of the exported
   package (read as the netlisters read it, Base/Package.v + Spec/Nets.v) against the path-based meaning of the written design
   (Spec/C01BNets.v).  The terminals of the design are mapped to the package by NAMES computed here from the naming model that
   C10 proves (Model/BundleFlat.flatten_module: `inst_member_path`, underscores appended while taken): the flattened names of
   the top module's port bundles; array elements are called inst_k, the members of a Pair inst_p / inst_n. *)
Require Import Hdl21.Base.PyInt Hdl21.Spec.PySlice Hdl21.Model.Slice Hdl21.Model.Resolve Hdl21.Base.Design
               Hdl21.Spec.Nets Hdl21.Spec.WfDesign Hdl21.Base.Package Hdl21.Base.PrimTable Hdl21.Corr.C03 Hdl21.Corr.C01
               Hdl21.Base.C01BDesign Hdl21.Spec.C01BNets Hdl21.Spec.C01BWf.
Require Hdl21.Spec.BundleSpec Hdl21.Model.BundleFlat.
Require Import Hdl21Gen.C10Tables.
From Coq Require DecimalString DecimalZ.

Definition bsubset (a b : list bnode) : bool := forallb (fun x => existsb (bnode_eqb x) b) a.
Definition same_bnodes (a b : list bnode) : bool :=
  (Z.of_nat (Datatypes.length a) =? Z.of_nat (Datatypes.length b)) && bsubset a b && bsubset b a.

Definition zdec (z : Z) : string := DecimalString.NilEmpty.string_of_int (Z.to_int z).

(* the name of element e of an instance after array / instance-bundle scalarisation *)
Definition inst_flat_name (x : binst) (e : Z) : name :=
  if bi_pair x then sapp (bi_name x) (sapp "_" (pair_elem e))
  else if 0 <? bi_n x then sapp (bi_name x) (sapp "_" (zdec e)) else bi_name x.

(* the names of everything in a module that is not a bundle instance *)
Definition scalar_ns (m : bmodule) : list string :=
  map fst (bm_ports m) ++ map fst (bm_sigs m) ++
  concat (map (fun x => if bi_pair x then [inst_flat_name x 0; inst_flat_name x 1] else [bi_name x]) (bm_insts m)).

Definition module_flat (m : bmodule) : result (list (string * BundleSpec.scope)) :=
  r <- BundleFlat.flatten_module flatname_maxlen (scalar_ns m) (bm_bundles m) ;; Ok (fst r).

Fixpoint ppath_down (d : bdesign) (m : bmodule) (p : list pelem) (acc : path) : result path :=   (* p outermost first *)
  match p with
  | [] => Ok acc
  | (i, e) :: p' =>
      x <- ofopt EMissing (find_binst (bm_insts m) i) ;;
      match bi_of x with
      | TMod k => m' <- nth_bmod d k ;; ppath_down d m' p' ((inst_flat_name x e, 0) :: acc)
      | TDev _ _ => Error EBadKind
      end
  end.

(* the package-side terminal of a design-side terminal *)
Definition pterm (d : bdesign) (n : bnode) : result node :=
  top <- nth_bmod d (bd_top d) ;;
  match n with
  | NBSig [] s [] k => Ok (NSig [] s k)
  | NBSig [] b mp k =>
      fl <- module_flat top ;; sc <- ofopt EMissing (assoc b fl) ;; f <- ofopt EMissing (BundleSpec.passoc mp sc) ;;
      Ok (NSig [] (BundleSpec.fname f) k)
  | NBPort p i e port [] k =>
      m <- bmod_at d p ;; x <- ofopt EMissing (find_binst (bm_insts m) i) ;;
      pp <- ppath_down d top (rev p) [] ;;
      Ok (NPort pp (inst_flat_name x e) 0 port k)
  | _ => Error EBadKind
  end.

Record c01b_case := { cb_design : bdesign; cb_terms : list bnode; cb_pkg : option package; cb_top : name }.

(* codes: 0 ok; 1 implementation violates the property; 3 harness/spec inconsistency (the terminal list given by the harness
   is not the terminal set of the design, the design is not valid, or the naming model cannot name a terminal);
   6 a valid design was rejected by the implementation *)
Definition chk_c01b (c : c01b_case) : Z :=
  let d := cb_design c in
  match wf_bdesign d, bterminals d with
  | Ok _, Ok ts =>
      if negb (same_bnodes (map fst ts) (cb_terms c)) then 3 else
      match blabels d (bdesign_fuel d) (cb_terms c), traverse (pterm d) (cb_terms c) with
      | Ok ls, Ok pterms =>
          match cb_pkg c with
          | None => 6
          | Some p =>
              match design_of_pkg prims_ext p (cb_top c) with
              | Error _ => 1
              | Ok pd =>
                  match terminals pd with
                  | Error _ => 1
                  | Ok pts =>
                      if negb (same_nodes (map fst pts) pterms) then 1 else
                      let bdev_of (n : bnode) :=
                        match find (fun x => bnode_eqb (fst x) n) ts with Some x => snd x | None => "?" end in
                      let dev_of (n : node) :=
                        match find (fun x => node_eqb (fst x) n) pts with Some x => snd x | None => "?" end in
                      if negb (names_eqb (map bdev_of (cb_terms c)) (map dev_of pterms)) then 1 else
                      match labels pd (design_fuel pd) pterms with
                      | Error _ => 1
                      | Ok pls => if zlist_eqb ls pls then 0 else 1
                      end
                  end
              end
          end
      | _, _ => 3
      end
  | _, _ => 3
  end.

(* diagnostics for replays: the two label lists *)
Definition dbg_c01b (c : c01b_case) : result (list Z) * result (list Z) :=
  let d := cb_design c in
  (blabels d (bdesign_fuel d) (cb_terms c),
   match cb_pkg c with
   | None => Error EMissing
   | Some p => pd <- design_of_pkg prims_ext p (cb_top c) ;; pterms <- traverse (pterm d) (cb_terms c) ;;
               labels pd (design_fuel pd) pterms
   end).

(* ---- spec validation: lowering the design member-wise (Spec/C01BLower.v, with the injective naming b.m1.m2) and reading the
   result with the core semantics Spec/Nets.v gives the same net labels as the path-based meaning; the hypotheses of the
   lowering theorem (Props/C01B.v) hold for the design.  code 3 on any disagreement. ---- *)
Require Import Hdl21.Spec.C01BLower.
Fixpoint dot_join (l : list name) : name :=
  match l with [] => "" | x :: r => sapp "." (sapp x (dot_join r)) end.
Definition dot_name (b : name) (q : mpath) : name := sapp b (dot_join q).

Definition chk_lower (c : c01b_case) : Z :=
  let d := cb_design c in
  let ld := lower dot_name d in
  if negb (names_ok dot_name d && pairs_ok d) then 3 else
  (* the decidable hypotheses of C01B_lower_labels: every node on the computed orbits is a node of the design *)
  match traverse (borbit d (bdesign_fuel d)) (cb_terms c) with
  | Ok os =>
      if negb (forallb (forallb (bnode_ok d)) os) then 3 else
      match blabels d (bdesign_fuel d) (cb_terms c), labels ld (bdesign_fuel d) (map (phi dot_name) (cb_terms c)) with
      | Ok a, Ok b => if zlist_eqb a b then 0 else 3
      | _, _ => 3
      end
  | Error _ => 3
  end.
