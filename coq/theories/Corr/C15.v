(* Corr/C15.v — evaluators of the C15 correspondence run.  Codes per case:
   0 ok;  1x implementation violates the SPEC on this input (11 hierarchy/names/conns/untouched changed, 12 device is
   not one that satisfies the request, 13 sizes, 14 multiplier, 15 device port unconnected, 16 equal parameters gave
   different calls, 17 export/netlist failed, 18 error raised though satisfiable / completed though unsatisfiable,
   19 a non-descriptive exception escaped);  2 property holds but model and implementation differ. *)
From Coq Require Import String.
Require Import Hdl21.Base.PyInt Hdl21.Spec.PdkSpec Hdl21.Model.PdkSelect Hdl21.Model.Walker Hdl21.Model.PdkRegistry.
Require Import Hdl21.Corr.C03.
Open Scope string_scope.
Open Scope list_scope.
Open Scope Z_scope.

(* a design as the harness reports it: module table, instance targets refer to earlier table indexes *)
Inductive jtarget :=
| JMod (idx : nat) | JPrim (p : prim) (prm : pparams)
| JCall (id : Z) (name : string) (ports : list string) (cls : string) (fields : list (string * pv))
| JExt (name : string) | JOther.
Definition jinst := (string * list (string * string) * jtarget)%type.
Definition jmod := (string * list jinst)%type.
Definition jdesign := list jmod.

(* pdk, top index, pre copies, post copies, error class (0 none, 1 descriptive, 2 escaped), export+netlists ok *)
Inductive dcase := DCase (k : pdk) (top : nat) (pre post : list jdesign) (err : Z) (nl : bool).

Fixpoint conns_eqb (a b : list (string * string)) : bool :=
  match a, b with
  | [], [] => true
  | (p, n) :: a', (q, m) :: b' => String.eqb p q && String.eqb n m && conns_eqb a' b'
  | _, _ => false
  end.

Fixpoint fields_sub (m i : list (string * pv)) : bool :=       (* every field the model sets has that value *)
  match m with [] => true | (f, v) :: r => opt_eqb pv_same (assoc f i) (Some v) && fields_sub r i end.

Definition prim_eqb (a b : prim) : bool := String.eqb (prim_name a) (prim_name b).

(* reachable module indexes from the top (refs go to smaller indexes: fuel = table size) *)
Fixpoint reach (fuel : nat) (d : jdesign) (todo : list nat) (acc : list nat) : list nat :=
  match fuel with
  | O => acc
  | S f =>
      let new := filter (fun i => negb (existsb (Nat.eqb i) acc)) todo in
      match new with
      | [] => acc
      | _ =>
          let next := flat_map (fun i => match nth_error d i with
                                         | Some (_, insts) => flat_map (fun it => match snd it with JMod j => [j] | _ => [] end) insts
                                         | None => [] end) new in
          reach f d next (acc ++ new)
      end
  end.

Definition is_cand (k : pdk) (g : group) (prm : pparams) (name : string) (ports : list string) (cls : string) : bool :=
  existsb (fun e => String.eqb (dev_name (snd e)) name && strs_eqb (dev_ports (snd e)) ports && String.eqb (dev_class (snd e)) cls)
          (candidates k g prm).

(* requests whose parameters the parameter classes reject by a ValueError *)
Definition nonpos (o : option pv) : bool := match o with Some (PNum n d) => n <=? 0 | _ => false end.
Definition nonint (o : option pv) : bool :=
  match o with Some (PNum n d) => negb (n mod d =? 0) | Some PNone | None => false | Some _ => true end.
Definition bad_param (k : pdk) (g : group) (prm : pparams) : bool :=
  match k, g with
  | Sample, GMos => nonpos (pm_w prm) || nonpos (pm_l prm) || nonpos (pm_nf prm)
  | Sky130, (GCap | GBjt) => nonint (pm_mult prm)
  | _, _ => false
  end.

(* spec check of one instance: code 0 or 11..15 *)
Definition chk_inst (k : pdk) (reachable : bool) (a b : jinst) : Z :=
  let '(n, c, t) := a in let '(n', c', t') := b in
  if negb (String.eqb n n' && conns_eqb c c') then 11 else
  match t, t' with
  | JMod i, JMod j => if Nat.eqb i j then 0 else 11
  | JExt x, JExt y => if String.eqb x y then 0 else 11
  | JCall _ x p cl f, JCall _ y q cl' f' =>
      if String.eqb x y && strs_eqb p q && String.eqb cl cl' && fields_sub f f' && fields_sub f' f then 0 else 11
  | JPrim p prm, _ =>
      match (if reachable then group_of k p else None) with
      | None => match t' with JPrim q prm' => if prim_eqb p q && pparams_eqb prm prm' then 0 else 11 | _ => 11 end
      | Some g =>
          match t' with
          | JCall _ name ports cls fields =>
              if negb (is_cand k g prm name ports cls) then 12
              else if negb (sizes_ok k prm (name, ports, cls) fields) then 13
              else if negb (mult_ok k prm (name, ports, cls) fields) then 14
              else if negb (ports_connected ports c) then 15
              else 0
          | _ => 12
          end
      end
  | JOther, JOther => 0
  | _, _ => 11
  end.

Fixpoint first_nz (l : list Z) : Z := match l with [] => 0 | x :: r => if x =? 0 then first_nz r else x end.

Fixpoint zip {A B} (a : list A) (b : list B) : list (A * B) :=
  match a, b with x :: a', y :: b' => (x, y) :: zip a' b' | _, _ => [] end.

Definition chk_mod (k : pdk) (reachable : bool) (a b : jmod) : Z :=
  if negb (String.eqb (fst a) (fst b) && Nat.eqb (length (snd a)) (length (snd b))) then 11
  else first_nz (map (fun ab => chk_inst k reachable (fst ab) (snd ab)) (zip (snd a) (snd b))).

Fixpoint number {A} (i : nat) (l : list A) : list (nat * A) :=
  match l with [] => [] | x :: r => (i, x) :: number (S i) r end.

Definition chk_copy (k : pdk) (top : nat) (pre post : jdesign) : Z :=
  if negb (Nat.eqb (length pre) (length post)) then 11 else
  let rs := reach (S (length pre)) pre [top] [] in
  first_nz (map (fun x => chk_mod k (existsb (Nat.eqb (fst x)) rs) (fst (snd x)) (snd (snd x))) (number 0 (zip pre post))).

(* mapped positions of the reachable part: (copy, key, post call id) *)
Definition keyed (k : pdk) (top : nat) (copy : nat) (pre post : jdesign) : list (nat * ckey * Z) :=
  let rs := reach (S (length pre)) pre [top] [] in
  flat_map (fun x =>
    if existsb (Nat.eqb (fst x)) rs then
      flat_map (fun ab => match snd (fst ab), snd (snd ab) with
                          | JPrim p prm, JCall id _ _ _ _ =>
                              match group_of k p with Some g => [(copy, (g, prm), id)] | None => [] end
                          | _, _ => [] end) (zip (snd (fst (snd x))) (snd (snd (snd x))))
    else []) (number 0 (zip pre post)).

(* equal parameters => the same call: across everything compiled under one cache *)
Definition same_call_ok (k : pdk) (l : list (nat * ckey * Z)) : bool :=
  forallb (fun a => forallb (fun b =>
    let '(ca, ka, ia) := a in let '(cb, kb, ib) := b in
    if ckey_eqb ka kb && (global_cache k || Nat.eqb ca cb) then ia =? ib else true) l) l.

(* requests of the reachable part that no device satisfies (or several do), or with rejected parameter values *)
Definition unsat (k : pdk) (top : nat) (pre : jdesign) : bool :=
  let rs := reach (S (length pre)) pre [top] [] in
  existsb (fun x => existsb (Nat.eqb (fst x)) rs &&
    existsb (fun it => match snd it with
                       | JPrim p prm => match group_of k p with
                                        | Some g => negb (Nat.eqb (length (candidates k g prm)) 1) || bad_param k g prm
                                        | None => false end
                       | _ => false end) (snd (snd x))) (number 0 pre).

(* ---- the model on the same input: unfold the table into the walker's tree *)
Fixpoint unfold_mod (fuel : nat) (d : jdesign) (i : nat) : module :=
  match fuel with
  | O => Mod "" INil
  | S f =>
      match nth_error d i with
      | None => Mod "" INil
      | Some (name, insts) =>
          Mod name (fold_right (fun it acc =>
            let '(n, c, t) := it in
            ICons n c (match t with
                       | JMod j => TMod (unfold_mod f d j)
                       | JPrim p prm => TPrim p prm
                       | JCall id name ports cls fields => TCall {| c_id := Z.to_N id + 1000000; c_spec := ((name, ports, cls), fields) |}
                       | JExt x => TExt x
                       | JOther => TExt "?" end) acc) INil insts)
      end
  end.

(* flatten a tree into the sequence of instance targets in traversal order *)
Fixpoint flat_t (t : target) : list (option call) :=
  match t with
  | TMod m => None :: flat_m m
  | TCall c => [Some c]
  | _ => [None]
  end
with flat_m (m : module) : list (option call) := match m with Mod _ l => flat_i l end
with flat_i (l : ilist) : list (option call) :=
  match l with INil => [] | ICons _ _ t r => flat_t t ++ flat_i r end.

Fixpoint compile_all (k : pdk) (st : wst) (ms : list module) : sel (list module) :=
  match ms with
  | [] => SOk []
  | m :: r => x <~ compile k st m ;; y <~ compile k (snd x) (fst x) ;;   (* compiling again changes nothing *)
              xs <~ compile_all k (snd y) r ;; SOk (fst y :: xs)
  end.

Definition call_agree (m i : option call) : bool :=
  match m, i with
  | None, None => true
  | Some a, Some b =>
      let '((n, p, c), f) := c_spec a in let '((n', p', c'), f') := c_spec b in
      String.eqb n n' && strs_eqb p p' && String.eqb c c' && fields_sub f f'
  | _, _ => false
  end.

Fixpoint all2 {A B} (f : A -> B -> bool) (a : list A) (b : list B) : bool :=
  match a, b with [] , [] => true | x :: a', y :: b' => f x y && all2 f a' b' | _, _ => false end.

Definition id_of (o : option call) : option N := match o with Some c => Some (c_id c) | None => None end.
Definition same_partition (a b : list (option call)) : bool :=
  let z := zip a b in
  forallb (fun x => forallb (fun y =>
    match id_of (fst x), id_of (fst y), id_of (snd x), id_of (snd y) with
    | Some i, Some j, Some i', Some j' => Bool.eqb (N.eqb i j) (N.eqb i' j')
    | _, _, _, _ => true end) z) z.

Definition chk_design (c : dcase) : Z :=
  let '(DCase k top pre post err nl) := c in
  let n := S (length (hd [] pre)) in
  let spec :=
    if err =? 2 then 19
    else if err =? 1 then (if existsb (unsat k top) pre then 0 else 18)
    else if negb (Nat.eqb (length pre) (length post)) then 11
    else
      let r := first_nz (map (fun ab => chk_copy k top (fst ab) (snd ab)) (zip pre post)) in
      if negb (r =? 0) then r
      else if negb (same_call_ok k (flat_map (fun x => keyed k top (fst x) (fst (snd x)) (snd (snd x))) (number 0 (zip pre post)))) then 16
      else if negb nl then 17 else 0 in
  if negb (spec =? 0) then spec else
  let trees := map (fun d => unfold_mod n d top) pre in
  match compile_all k st0 trees with
  | SErr e => if (err =? 1) && negb (match e with EEscape => true | _ => false end) then 0 else 2
  | SOk ms =>
      if negb (err =? 0) then 2 else
      let fm := flat_map flat_m ms in
      let fi := flat_map (fun d => flat_m (unfold_mod n d top)) post in
      if all2 call_agree fm fi && same_partition fm fi then 0 else 2
  end.

(* ---- registry histories *)
Inductive iout := IOk (v : option Z) | IRej | IEsc.
Definition rcase := (list (string * bool) * list (rop * iout))%type.

Definition info_of (l : list (string * bool)) : minfo := fun m => nth (N.to_nat m) l ("", false).

Definition out_agree (m : rout) (i : iout) : bool :=
  match m, i with
  | ROk None, IOk None => true
  | ROk (Some a), IOk (Some b) => Z.of_N a =? b
  | RRej, IRej => true
  | _, _ => false
  end.

(* SPEC of the three forms of hdl21.pdk.compile, from the history of accepted registrations:
   by module: a valid PDK module is accepted and its compile runs;  by name: the module registered under that name
   runs, an unknown name is rejected;  by default: the explicit default, else the only registered module, else rejected *)
Fixpoint chk_reg_spec (info : list (string * bool)) (regd : list Z) (names : list (string * Z)) (dflt : option Z)
                      (ops : list (rop * iout)) : Z :=
  match ops with
  | [] => 0
  | (o, r) :: rest =>
      let valid m := snd (nth (N.to_nat m) info ("", false)) in
      let nm m := fst (nth (N.to_nat m) info ("", false)) in
      let isreg m := existsb (Z.eqb (Z.of_N m)) regd in
      let add m := if isreg m then (regd, names) else (regd ++ [Z.of_N m], (nm m, Z.of_N m) :: names) in
      let lookup s := match find (fun x => String.eqb (fst x) s) names with Some x => Some (snd x) | None => None end in
      match r with IEsc => 19 | _ =>
      match o with
      | ORegister m =>
          match r with
          | IOk _ => if valid m || isreg m then chk_reg_spec info (fst (add m)) (snd (add m)) dflt rest else 18
          | _ => if valid m || isreg m then 18 else chk_reg_spec info regd names dflt rest
          end
      | OCompileMod m =>
          match r with
          | IOk (Some x) => if (valid m || isreg m) && (x =? Z.of_N m) then chk_reg_spec info (fst (add m)) (snd (add m)) dflt rest else 12
          | IOk None => 12
          | _ => if valid m || isreg m then 18 else chk_reg_spec info regd names dflt rest
          end
      | OCompileName s =>
          match r, lookup s with
          | IOk (Some x), Some m => if x =? m then chk_reg_spec info regd names dflt rest else 12
          | IRej, None => chk_reg_spec info regd names dflt rest
          | _, _ => 18
          end
      | OCompileDefault =>
          let d := match dflt with Some d => Some d | None => match regd with [m] => Some m | _ => None end end in
          match r, d with
          | IOk (Some x), Some m => if x =? m then chk_reg_spec info regd names dflt rest else 12
          | IRej, None => chk_reg_spec info regd names dflt rest
          | _, _ => 18
          end
      | ODefault =>
          let d := match dflt with Some d => Some d | None => match regd with [m] => Some m | _ => None end end in
          match r with
          | IOk x => if opt_eqb Z.eqb x d then chk_reg_spec info regd names dflt rest else 12
          | _ => 18
          end
      | OSetDefaultMod m =>
          match r with
          | IOk _ => if isreg m then chk_reg_spec info regd names (Some (Z.of_N m)) rest else 18
          | _ => if isreg m then 18 else chk_reg_spec info regd names dflt rest
          end
      | OSetDefaultName s =>
          match r, lookup s with
          | IOk _, Some m => chk_reg_spec info regd names (Some m) rest
          | IRej, None => chk_reg_spec info regd names dflt rest
          | _, _ => 18
          end
      end end
  end.

Definition chk_registry (c : rcase) : Z :=
  let '(info, ops) := c in
  let s := chk_reg_spec info [] [] None ops in
  if negb (s =? 0) then s else
  let outs := fst (rrun (info_of info) r0 (map fst ops)) in
  if all2 out_agree outs (map snd ops) then 0 else 2.

(* ---- logic cells: cell name, ports, nets given, instance statement read back from the spice / spectre netlists
   (nets in port order followed by the cell name) *)
Definition ccase := (string * list string * list string * option (list string) * option (list string) * bool)%type.
Definition chk_cell (c : ccase) : Z :=
  let '(name, ports, nets, spice, spectre, raised) := c in
  if raised then 17 else
  if negb (Nat.eqb (length ports) (length nets) && nodupb ports && ident_ok name) then 11 else
  match spice, spectre with
  | Some a, Some b => if strs_eqb a (nets ++ [name]) && strs_eqb b (nets ++ [name]) then 0 else 15
  | _, _ => 17
  end.

(* ---- table entries: device names are netlist identifiers, ports distinct *)
Definition chk_entry (e : entry) : Z :=
  if ident_ok (dev_name (snd e)) && nodupb (dev_ports (snd e)) then 0 else 12.
