(* Corr/C02E.v — the tie of the checked pipeline (Model/C02EPipeline.v) to the implementation, on every base design
   and every single-fault mutant of the C02 stream:
     the model's verdict for to_proto   (checked_run ends in SDone)            against h.to_proto  raising or not,
     the model's verdict for elaborate  (checked_run gets past MarkModules)    against h.elaborate raising or not,
     the rejecting stage                                                       against the ElabPass class (or the exporter)
                                                                               the implementation's error came from.
   code 0 agree
        1 model and implementation disagree on to_proto and the SPECIFICATION (wf_design) sides with the model:
          the implementation violates the property on this design
        2 they disagree and the specification sides with the implementation (or they disagree on elaborate alone):
          the model is wrong - tie broken
        4 the model contradicts its own theorems (Props/C02E.v) on a design inside their hypotheses: checker defect
        5 both reject, but in different passes: tie broken on the rejecting pass
   chk_c02e returns code * 1000 + stage * 10 + (1 if the design is inside the hypotheses of C02E_reject_complete_partial). *)
From Coq Require Import String.
Require Import Hdl21.Base.PyInt Hdl21.Base.Design Hdl21.Spec.WfDesign Hdl21.Spec.C01ENets Hdl21.Base.Package
               Hdl21.Model.C02Checks Hdl21.Model.C01EElab Hdl21.Model.C02EPipeline Hdl21.Corr.C03.
Open Scope string_scope.
Open Scope Z_scope.

Record c02e_case := { e_design : design; e_xinfo : xinfo;
                      e_elab : bool;       (* h.elaborate returned *)
                      e_proto : bool;      (* h.to_proto returned *)
                      e_where : string }.  (* where to_proto's error came from: pass class, "export", "build", "?" *)

Definition stage_idx (s : stage) : Z :=
  match s with
  | SOrphanage => 1 | SPortRefs => 2 | SConnTypes => 3 | SArrays => 4 | SSlices => 5 | SPostConnTypes => 6
  | SPostOrphanage => 7 | SMark => 8 | SExport => 9 | SDone => 0
  end.

Definition in_scope (d : design) : bool := given_e d && frag_e d.

(* "build": the public constructors refused before any pass ran (the model has no such stage); "?": not known *)
Definition where_ok (s : stage) (w : string) : bool :=
  String.eqb w "?" || String.eqb w "build" ||
  String.eqb w (match s with SExport => "export" | _ => stage_pass s end).

Definition is_ename {A} (r : result A) : bool := match r with Error EName => true | _ => false end.

Definition code_c02e (c : c02e_case) : Z * stage :=
  let d := e_design c in
  let '(s, r) := checked_run (e_xinfo c) d in
  let ma := is_ok r in
  let me := match s with SExport => true | SDone => true | _ => false end in
  let sa := is_ok (wf_design d) in
  (if in_scope d && ma && negb sa then 4
   else if in_scope d && sa && frag_ok d && xinfo_ok (e_xinfo c) d && negb ma && negb (is_ename r) then 4
   (* outside the fragment the model is claimed for (e.g. references nested in slices / concatenations, which
      Model/C01EElab.v does not follow) a disagreement of the MODEL proves nothing: only the specification judges there *)
   else if negb (Bool.eqb ma (e_proto c)) then (if Bool.eqb sa (e_proto c) then (if in_scope d then 2 else 0) else 1)
   else if in_scope d && negb (Bool.eqb me (e_elab c)) then 2
   else if in_scope d && negb ma && negb (where_ok s (e_where c)) then 5
   else 0, s).

Definition chk_c02e (c : c02e_case) : Z :=
  let '(code, s) := code_c02e c in
  code * 1000 + stage_idx s * 10 + (if in_scope (e_design c) then 1 else 0).

Definition all_c02e (l : list c02e_case) : list (Z * Z) := number_from 0 chk_c02e l.
