(* Corr/C11.v — evaluators of the C11 correspondence run.
   A case is a package P the implementation exported, the package P' it exported after importing P (None: from_proto
   or the second to_proto raised), the fields of P and P' outside the model as opaque text, and the two protobuf-level
   comparisons the harness made (message equality, deterministic serialisation equality).
     1  the implementation violates the property: P' is missing or differs from P
     2  the property holds on this case but the model rt_pkg P is not P'  (tie broken)
     3  a specification function disagrees with the Python oracle (names stream) *)
Require Import Hdl21.Base.PyInt Hdl21.Base.Design Hdl21.Base.Package Hdl21.Base.Dec Hdl21.Model.C11RoundTrip Hdl21.Corr.C03.
Require Import Hdl21.Model.C11Share.
From Coq Require Import String.
Open Scope string_scope.
Open Scope Z_scope.

Definition c11_case := (c11pkg * option c11pkg * string * string * bool * bool)%type.

Definition chk_c11 (c : c11_case) : Z :=
  let '(p, oq, px, qx, eq_msg, eq_bytes) := c in
  match oq with
  | None => 1
  | Some q =>
      if negb (c11pkg_eqb p q && String.eqb px qx && eq_msg && eq_bytes) then 1 else
      match rt_pkg p with
      | Ok m => if c11pkg_eqb m q then 0 else 2
      | Error _ => 2
      end
  end.

(* enumeration tables against the live functions: (kind, input, what the exporter returned, what the importer made of it) *)
Definition enum_case := (string * string * Z * string * string * Z)%type.
Definition chk_enum (c : enum_case) : Z :=
  let '(kind, a, az, b, a', az') := c in
  if String.eqb kind "prefix" then
    if negb (az =? az') then 1 else
    match export_prefix az, import_prefix b with
    | Ok b', Ok z => if String.eqb b b' && (z =? az') then 0 else 2
    | _, _ => 2
    end
  else
    if negb (String.eqb a a') then 1 else
    let '(ex, im) := if String.eqb kind "dir" then (export_dir a, import_dir b) else (export_spicetype a, import_spicetype b) in
    match ex, im with
    | Ok b', Ok x => if String.eqb b b' && String.eqb x a' then 0 else 2
    | _, _ => 2
    end.

(* names: rt_name against ".".join(s.split(".")) and split_dot against str.split *)
Definition name_case := (string * list string * string)%type.
Definition chk_name (c : name_case) : Z :=
  let '(s, parts, joined) := c in
  if list_eqb String.eqb (split_dot s) parts && String.eqb (join_dot parts) joined then 0 else 3.

(* pyeq (spec validation of Model/C11Share.v:py_eq): two package values and what the live Python said of `x == y` for the
   values the live importer made of them (0 False, 1 True, 2 raised).  Code 3: the model decides otherwise.
   Code 9 marks the pairs the model leaves open (None / a value it does not import), so that the harness can report how
   many pairs were decided; it is not a failure. *)
Definition pyeq_case := (pvalue * pvalue * Z)%type.
Definition pyeq_model (a b : pvalue) : option bool :=
  match import_value a, import_value b with
  | Ok x, Ok y => py_eq x y
  | _, _ => None
  end.
Definition chk_pyeq (c : pyeq_case) : Z :=
  let '(a, b, live) := c in
  match pyeq_model a b with
  | Some r => if (if r then 1 else 0) =? live then 0 else 3
  | None => 9
  end.

(* history (strengthening round 2; Model/C11History.v): a heap of ExternalModule object states, a history of mutations and
   exports run in ONE interpreter, what every observing step returned (None: it raised; an export returns the ext_modules of
   its package, a direct call of export_external_module the one declaration), and the object states the driver read off the
   live objects at every observing step.
     1  a returned package's declarations are not those of the objects as they were at that moment (the SPEC, decls_current_b)
     2  the specification holds but the model differs: the live objects are not in the state the model's mutations give, the
        number of observations differs, or run_hist decl_fresh (order of the declarations, refusals) differs *)
Require Import Hdl21.Model.C11History.

Definition eport_eqb (a b : eport) : bool :=
  String.eqb (ep_name a) (ep_name b) && (ep_width a =? ep_width b) && String.eqb (ep_dir a) (ep_dir b).
Definition eobj_eqb (a b : eobj) : bool :=
  String.eqb (eo_domain a) (eo_domain b) && String.eqb (eo_name a) (eo_name b) && list_eqb eport_eqb (eo_ports a) (eo_ports b) &&
  String.eqb (eo_spicetype a) (eo_spicetype b).
Definition oret_eqb (a b : option (list c11ext)) : bool :=
  match a, b with
  | Some x, Some y => list_eqb c11ext_eqb x y
  | None, None => true
  | _, _ => false
  end.

Definition hist_case := (heap * list hop * list (option (list c11ext)) * list heap)%type.

Fixpoint all_current (seen : list (heap * hop)) (rets : list (option (list c11ext))) : bool :=
  match seen, rets with
  | (hp, op) :: s', r :: r' => step_current hp op r && all_current s' r'
  | _, _ => true
  end.

Definition chk_hist (c : hist_case) : Z :=
  let '(hp, ops, rets, live) := c in
  let seen := heaps_seen hp ops in
  if negb (all_current seen rets) then 1 else
  if negb (Nat.eqb (List.length seen) (List.length rets)) then 2 else
  if negb (list_eqb (list_eqb eobj_eqb) (map fst seen) live) then 2 else
  if list_eqb oret_eqb (run_hist unit decl_fresh hp tt ops) rets then 0 else 2.
