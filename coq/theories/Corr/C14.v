(* Corr/C14.v — evaluators of the C14 correspondence run.  Per case a code:
   0 = the implementation satisfies the property on this input and agrees with the model,
   1 = the implementation violates the property (specification) on this input,
   2 = the property holds on this input but model and implementation differ (tie broken),
   3 = a Coq specification function disagrees with the CPython oracle (spec validation streams).
   The specification side is written with the exact decimal operations of Base/Dec.v on the VALUES
   (number * 10^prefix) only; it does not mention the algorithm of prefix.py. *)
Require Import Hdl21.Base.PyInt Hdl21.Base.Dec Hdl21.Model.Prefixed Hdl21Gen.PrefixTable Hdl21.Corr.C03.
Open Scope Z_scope.

(* ------------------------------------------------------------------ nearest double (specification of float()) *)
(* the double nearest to num/den (num, den > 0), ties to even, as (m, E) meaning m * 2^E;
   None = rounds to infinity.  Subnormals: E is not below -1074. *)
Definition nearest_pos (num den : Z) : option (Z * Z) :=
  let L := Z.log2 num - Z.log2 den in
  (* floor(log2(num/den)) is L or L - 1 *)
  let ge := if 0 <=? L then Z.shiftl den L <=? num else den <=? Z.shiftl num (- L) in
  let fl := if ge then L else L - 1 in
  let E := Z.max (fl - 52) (-1074) in
  let m := if 0 <=? E then rhe num (Z.shiftl den E) else rhe (Z.shiftl num (- E)) den in
  if Z.shiftl 1 (1024 + 1074) <=? Z.shiftl m (E + 1074) then None
  else Some (m, E).

Inductive fl := FInf (neg : bool) | FFin (m e : Z).

Definition nearest_double (d : dec) : fl :=
  let c := Z.abs (dint d) in
  if c =? 0 then FFin 0 0 else
  let k := dexp d in
  let r := if 0 <=? k then nearest_pos (c * pow10 k) 1 else nearest_pos c (pow10 (- k)) in
  match r with
  | None => FInf (dint d <? 0)
  | Some (m, E) => FFin (if dint d <? 0 then - m else m) E
  end.

(* equality of m1 * 2^e1 and m2 * 2^e2 *)
Definition bin_eqb (m1 e1 m2 e2 : Z) : bool :=
  let e := Z.min e1 e2 in (Z.shiftl m1 (e1 - e) =? Z.shiftl m2 (e2 - e)).
Definition fl_eqb (a b : fl) : bool :=
  match a, b with
  | FInf x, FInf y => Bool.eqb x y
  | FFin m1 e1, FFin m2 e2 => bin_eqb m1 e1 m2 e2
  | _, _ => false
  end.

(* spec validation: nearest_double against CPython's correctly rounded int/int division of fractions.Fraction *)
Definition chk_float_spec (c : dec * fl) : Z := let '(d, f) := c in if fl_eqb (nearest_double d) f then 0 else 3.

(* ------------------------------------------------------------------ integer part (specification of int()) *)
Definition is_int_partb (t : Z) (d : dec) : bool :=
  let e := Z.min (dexp d) 0 in
  let v := at_ e d in
  (Z.abs t * pow10 (- e) <=? Z.abs v) && (Z.abs v <? (Z.abs t + 1) * pow10 (- e)) && (0 <=? t * v).

(* ------------------------------------------------------------------ implementation outputs *)
Inductive ires := IExc | IVal (d : dec) (q : Z).
Inductive icmp := CExc | CVal (lt le eq ne gt ge : bool).

Record pair_case := mkCase {
  ca : pfx; cb : pfx;
  r_add : ires; r_sub : ires; r_mul : ires;      (* a + b, a - b, a * b *)
  r_neg : ires; r_abs : ires;                    (* -a, abs(a) *)
  r_scale : ires;                                (* a.scale(b.prefix) *)
  r_auto : ires;                                 (* a.scale() *)
  r_pmul : ires;                                 (* a * b.prefix   (Prefix.__rmul__) *)
  r_muls : ires; r_adds : ires; r_rsubs : ires;  (* a * b.number, a + b.number, b.number - a  (scalar operands) *)
  r_cmp : icmp;
  r_hasheq : option bool;                        (* hash(a) == hash(b); None: raised *)
  r_int : option Z;                              (* int(a) *)
  r_float : option fl                            (* float(a) *)
}.

Definition ival (r : ires) : option dec := match r with IVal d q => Some (dscaleb d q) | IExc => None end.

(* value of the result equals the exact value `want`, and the result carries a member of Prefix *)
Definition exact (r : ires) (want : dec) : bool :=
  match r with IVal d q => is_prefix q && deqb (dscaleb d q) want | IExc => false end.

Definition bool_eqb := Bool.eqb.

(* the comparison part of the property on the six observed booleans *)
Definition cmp_spec (va vb : dec) (s : Z) (c : icmp) : bool :=
  match c with
  | CExc => false
  | CVal lt le eq ne gt ge =>
      let tol := of_int 1 (s - EPSILON) in
      let far := dltb tol (dabs (dsub va vb)) in
      (* trichotomy and the usual relations *)
      ((lt && negb eq && negb gt) || (negb lt && eq && negb gt) || (negb lt && negb eq && gt))
      && bool_eqb le (lt || eq) && bool_eqb ge (gt || eq) && bool_eqb ne (negb eq)
      (* beyond the tolerance: the order of the exact values *)
      && (if far then bool_eqb lt (dltb va vb) && bool_eqb gt (dltb vb va) && negb eq else true)
      (* the same value: equal *)
      && (if deqb va vb then eq else true)
  end.

Definition spec_ok (c : pair_case) : bool :=
  let a := ca c in let b := cb c in
  let va := pval a in let vb := pval b in
  let nb := number b in
  exact (r_add c) (dadd va vb) && exact (r_sub c) (dsub va vb) && exact (r_mul c) (dmul va vb)
  && exact (r_neg c) (dneg va) && exact (r_abs c) (dabs va)
  && exact (r_scale c) va && match r_scale c with IVal _ q => q =? prefix b | IExc => false end
  && exact (r_auto c) va
  && exact (r_pmul c) (dscaleb va (prefix b))
  && exact (r_muls c) (dmul va nb) && exact (r_adds c) (dadd va nb) && exact (r_rsubs c) (dsub nb va)
  && cmp_spec va vb (Z.min (prefix a) (prefix b)) (r_cmp c)
  && match r_hasheq c with Some h => if deqb va vb then h else true | None => false end
  && match r_int c with Some t => is_int_partb t va | None => false end
  && match r_float c with Some f => fl_eqb f (nearest_double va) | None => false end.

(* ---- agreement with the model.  Numbers are compared by value, prefixes exactly.  For the automatic rescaling the
   code takes log10 in the ambient 28-digit context: when value^2 is within 10^-24 (relative) of the boundary
   10^(q + q') between the model's choice q' and the observed q, either is accepted. *)
Definition same (r : ires) (m : pfx) : bool :=
  match r with IVal d q => (q =? prefix m) && deqb d (number m) | IExc => false end.

Definition in_band (raw : pfx) (q q' : Z) : bool :=
  let x := dmul (pval raw) (pval raw) in
  let B := of_int 1 (q + q') in
  negb (dltb B (dscaleb (dabs (dsub x B)) 24)).

Definition same_auto (r : ires) (raw : result pfx) : bool :=
  match r, raw with
  | IVal d q, Ok raw =>
      match closest_log raw with
      | Ok q' => is_prefix q && ((q =? q') || in_band raw q q') && deqb d (number (pscale raw q))
      | Error _ => false
      end
  | _, _ => false
  end.

Definition cmp_same (a b : pfx) (c : icmp) : bool :=
  match c with
  | CExc => false
  | CVal lt le eq ne gt ge =>
      let '(x, y) := rkey a b in       (* pcmp o a b = int_op o x y, by definition *)
      bool_eqb lt (int_op OLt x y) && bool_eqb le (int_op OLe x y) && bool_eqb eq (int_op OEq x y)
      && bool_eqb ne (int_op ONe x y) && bool_eqb gt (int_op OGt x y) && bool_eqb ge (int_op OGe x y)
  end.

Definition opt_norm_eqb (x y : result (option (Z * Z))) : option bool :=
  match x, y with
  | Ok (Some (c1, e1)), Ok (Some (c2, e2)) => Some ((c1 =? c2) && (e1 =? e2))
  | _, _ => None
  end.

Definition model_ok (c : pair_case) : bool :=
  let a := ca c in let b := cb c in
  same_auto (r_add c) (Ok (padd_raw a b)) && same_auto (r_sub c) (Ok (psub_raw a b))
  && same_auto (r_mul c) (prefix_rmul (mkP (dmul (number a) (number b)) (prefix a)) (prefix b))
  && same (r_neg c) (pneg a) && same (r_abs c) (pabs a)
  && same (r_scale c) (pscale a (prefix b))
  && same_auto (r_auto c) (Ok a)
  && match prefix_rmul a (prefix b) with Ok m => same (r_pmul c) m | Error _ => false end
  && same_auto (r_muls c) (Ok (mkP (dmul (number a) (number b)) (prefix a)))
  && match to_prefixed (number b) with
     | Ok sb => same (r_adds c) (padd_raw a sb) && same (r_rsubs c) (psub_raw sb a)
     | Error _ => false
     end
  && cmp_same a b (r_cmp c)
  && match r_hasheq c, opt_norm_eqb (phash a) (phash b) with
     | Some h, Some true => h            (* equal normal forms: equal hashes *)
     | Some _, Some false => true        (* different values: the hashes are unconstrained (may collide) *)
     | _, _ => false
     end
  && match r_int c, pint a with Some t, Ok t' => t =? t' | _, _ => false end
  && match r_float c, pfloat nearest_double a with Some f, Ok f' => fl_eqb f f' | _, _ => false end.

Definition chk_pair (c : pair_case) : Z :=
  if negb (pwf (ca c) && pwf (cb c)) then 2
  else if negb (spec_ok c) then 1 else if model_ok c then 0 else 2.

(* which part of the specification fails (diagnosis, for the report): bit mask *)
Definition bit (b : bool) (k : Z) : Z := if b then 0 else k.
Definition diag_pair (c : pair_case) : Z :=
  let a := ca c in let b := cb c in
  let va := pval a in let vb := pval b in let nb := number b in
  bit (exact (r_add c) (dadd va vb)) 1 + bit (exact (r_sub c) (dsub va vb)) 2 + bit (exact (r_mul c) (dmul va vb)) 4
  + bit (exact (r_neg c) (dneg va) && exact (r_abs c) (dabs va)) 8
  + bit (exact (r_scale c) va && exact (r_auto c) va && exact (r_pmul c) (dscaleb va (prefix b))) 16
  + bit (exact (r_muls c) (dmul va nb) && exact (r_adds c) (dadd va nb) && exact (r_rsubs c) (dsub nb va)) 32
  + bit (cmp_spec va vb (Z.min (prefix a) (prefix b)) (r_cmp c)) 64
  + bit (match r_hasheq c with Some h => if deqb va vb then h else true | None => false end) 128
  + bit (match r_int c with Some t => is_int_partb t va | None => false end) 256
  + bit (match r_float c with Some f => fl_eqb f (nearest_double va) | None => false end) 512.

(* ------------------------------------------------------------------ conversions: to_prefixed(x), x * prefix, Prefixed(number=x) *)
(* (exact decimal denoted by the argument, expected prefix, observed) *)
Definition conv_case := (dec * Z * ires)%type.
Definition chk_conv (c : conv_case) : Z :=
  let '(d, q, r) := c in
  match r with
  | IVal d' q' =>
      if negb ((q' =? q) && deqb d' d) then 1
      else match unit_prefix with
           | Ok u => if (q =? u) then (match to_prefixed d with Ok m => if same r m then 0 else 2 | Error _ => 2 end) else 0
           | Error _ => 2
           end
  | IExc => 1
  end.
