(* Corr/C12Z.v — evaluators of the C12 strengthening-round streams (harness/vp/c12z.py).
   codes: 0 ok · 1 the implementation violates the property (the processes disagree)
          2 the processes agree with each other but not with the model · 3 not a usable case (harness defect) *)
Require Import Hdl21.Base.PyInt Hdl21.Spec.BundleSpec Hdl21.Model.BundleFlat Hdl21.Spec.C12Repro Hdl21.Model.C12Order
               Hdl21.Model.C12ZCanon Hdl21.Corr.C12.
Require Import Hdl21Gen.Limits.
From Coq Require Import String Ascii.
Open Scope string_scope.
Open Scope list_scope.
Open Scope Z_scope.

(* ---- naming text of a set-holding parameter value: (value with every set in construction order, the text every process reports) *)
Definition gcase := (pv * list string)%type.
Definition chk_gtext (x : gcase) : Z :=
  let '(v, obs) := x in
  match obs with
  | [] | [_] => 3
  | o :: t =>
      if negb (pv_ok v) then 3 else
      if negb (forallb (String.eqb o) t) then 1 else
      if String.eqb (jtext v) o then 0 else 2
  end.

(* ---- implicit signal names at the length limit: reference groups, the instance and explicit signal names of the module,
        and per process: None = the design was refused, Some names = the signals of the exported module *)
Definition lcase := (list (list pref) * list string * list (option (list string)))%type.

Definition oeqb (a b : option (list string)) : bool :=
  match a, b with
  | None, None => true
  | Some x, Some y => slist_eqb x y
  | _, _ => false
  end.

Definition implicit_name (avoid : list string) (g : list pref) : result string :=
  p <- which_repaired g ;; flatname [sig_name p] avoid flatname_maxlen.

Definition chk_long (x : lcase) : Z :=
  let '(groups, avoid, obs) := x in
  match obs with
  | [] | [_] => 3
  | o :: t =>
      if negb (forallb (oeqb o) t) then 1 else
      match traverse (implicit_name avoid) groups with
      | Error _ => match o with None => 0 | Some _ => 2 end            (* some name cannot be made: every process refuses *)
      | Ok names =>
          if negb (snodup names) then 3 else
          match o with
          | None => 2
          | Some sigs => if forallb (fun n => smem n sigs) names then 0 else 2
          end
      end
  end.

(* ---- the PDK registry: a program of registry operations and, per process, the outcome of every operation *)
Definition pcase := (list pop * list (list pout))%type.
Fixpoint pouts_eqb (a b : list pout) : bool :=
  match a, b with
  | [], [] => true
  | x :: a', y :: b' => pout_eqb x y && pouts_eqb a' b'
  | _, _ => false
  end.
Definition chk_reg (x : pcase) : Z :=
  let '(ops, obs) := x in
  match obs with
  | [] | [_] => 3
  | o :: t =>
      if negb (forallb (pouts_eqb o) t) then 1 else
      if pouts_eqb (reg_run default_of reg0 ops) o then 0 else 2
  end.
