(* Corr/C19.v — evaluator of the C19 correspondence run.  Per case (a generator call and the package the
   implementation exported for it, or its rejection):
     0 ok
     1 the implementation violates the property: a valid call rejected, a call on which nothing can be built
       accepted, or the exported module is not the documented topology (ports, unit instances, net partition
       compared with Spec/C19Topology.v)
     2 the property holds on this case but the model (Model/C19Series.v) and the implementation differ
     3 the case is inconsistent (harness defect): unit not well-formed
   The package is read as the VLSIR netlisters read it (Base/Package.v:read_target). *)
Require Import Hdl21Gen.Primitives.
Require Import Hdl21.Base.PyInt Hdl21.Spec.PySlice Hdl21.Model.Slice Hdl21.Model.Resolve Hdl21.Model.Arrays
               Hdl21.Base.Design Hdl21.Base.Package Hdl21.Base.PrimTable Hdl21.Spec.C19Topology Hdl21.Model.C19Series.
Open Scope string_scope.
Open Scope Z_scope.

(* what the unit is: a call of a library primitive, of an external module, or a module (exported name) *)
Inductive ukind := UPrim (nm : name) | UExt (nm : name) | UMod (nm : name).

Record c19_case := {
  k_gen : Z;                        (* 0 Series, 1 MosStack, 2 Wrapper *)
  k_unit : unit;
  k_dirs : list (name * Z);         (* expected VLSIR direction code of every leaf-level port of the unit *)
  k_kind : ukind;
  k_a : option name; k_b : option name;   (* the series ports as named by the call; None = not a str / Signal *)
  k_n : Z;
  k_pkg : option package }.

Definition sbit_eqb (x y : sbit) : bool := String.eqb (fst x) (fst y) && (snd x =? snd y).

Fixpoint sbits_eqb (a b : list sbit) : bool :=
  match a, b with
  | [], [] => true
  | x :: a', y :: b' => sbit_eqb x y && sbits_eqb a' b'
  | _, _ => false
  end.

Definition pref_eqb (x y : pref) : bool :=
  match x, y with
  | PLocal a, PLocal b => String.eqb a b
  | PExt d a, PExt e b => String.eqb d e && String.eqb a b
  | _, _ => false
  end.

Definition same_ports (exp got : list (name * Z)) : bool :=
  (zlen exp =? zlen got) && forallb (fun pw => match assoc (fst pw) got with Some w => w =? snd pw | None => false end) exp.

Definition ref_ports (p : package) (r : pref) : option (list (name * Z)) :=
  match r with
  | PLocal nm =>
      match find_pmod (pk_mods p) nm 0 with
      | Some k => match nth_error (pk_mods p) k with
                  | Some m => Some (map (fun pd => (fst pd, match assoc (fst pd) (pm_sigs m) with Some w => w | None => -1 end)) (pm_ports m))
                  | None => None end
      | None => None
      end
  | PExt d nm =>
      match (match find_ext (pk_exts p) d nm with Some x => Some x | None => find_ext prims_ext d nm end) with
      | Some x => Some (map (fun pwd => (fst (fst pwd), snd (fst pwd))) (px_ports x))
      | None => None
      end
  end.

(* how the package must refer to the unit: physical primitives under hdl21.primitives, ideal ones under
   vlsir.primitives with the exporter's name (regenerated tables), external modules under their (empty) domain *)
Definition expected_ref (k : ukind) : option pref :=
  match k with
  | UPrim nm =>
      match find (fun e : string * string * list (string * Z) => String.eqb (fst (fst e)) nm) primitives with
      | Some (_, ty, _) =>
          if String.eqb ty "PHYSICAL" then Some (PExt "hdl21.primitives" nm)
          else match assoc nm prim_map_export with Some v => Some (PExt "vlsir.primitives" v) | None => None end
      | None => None
      end
  | UExt nm => Some (PExt "" nm)
  | UMod nm => Some (PLocal nm)
  end.

(* a primitive unit must be given with the ports the regenerated primitive table lists *)
Definition kind_ok (k : ukind) (u : unit) : bool :=
  match k with
  | UPrim nm =>
      match find (fun e : string * string * list (string * Z) => String.eqb (fst (fst e)) nm) primitives with
      | Some (_, _, ps) => same_ports ps (unit_io u) && match u_buns u with [] => true | _ => false end
      | None => false
      end
  | _ => true
  end.

(* the nets (signal bits of the generated module) of the module's port bits, then of every unit's port bits *)
Definition obs_ports (pm : pmodule) (io : list (name * Z)) : list sbit :=
  concat (map (fun pw => map (pair (fst pw)) (bits_of (snd pw))) io).

Definition obs_unit (pm : pmodule) (io : list (name * Z)) (i : pinst) : result (list sbit) :=
  cat_results (map (fun pw : name * Z =>
     t <- ofopt EMissing (assoc (fst pw) (pi_conns i)) ;; bs <- read_target (pm_sigs pm) t ;;
     if zlen bs =? snd pw then Ok bs else Error EWidth) io).

Definition obs_units (pm : pmodule) (io : list (name * Z)) : result (list sbit) :=
  cat_results (map (obs_unit pm io) (pm_insts pm)).

(* ports, instances and references of the generated module are those of a stack of n units *)
Definition structure_ok (c : c19_case) (p : package) (pm : pmodule) (n : Z) : bool :=
  let io := unit_io (k_unit c) in
  (zlen (pm_ports pm) =? zlen io) &&
  forallb (fun pw => match assoc (fst pw) (pm_ports pm), assoc (fst pw) (k_dirs c), assoc (fst pw) (pm_sigs pm) with
                     | Some d, Some d', Some w => (d =? d') && (w =? snd pw)
                     | _, _, _ => false end) io &&
  (zlen (pm_insts pm) =? n) &&
  forallb (fun i => match expected_ref (k_kind c) with Some r => pref_eqb (pi_ref i) r | None => false end && (zlen (pi_conns i) =? zlen io) &&
                    match pm_insts pm with
                    | i0 :: _ => String.eqb (params_str (pi_params i)) (params_str (pi_params i0))
                    | [] => false end) (pm_insts pm) &&
  match expected_ref (k_kind c) with
  | Some r => match ref_ports p r with Some ps => same_ports io ps | None => false end
  | None => false
  end.

Definition flatten_bits (l : list (list (list (name * Z)))) : list sbit := concat (map (@concat _) l).

Definition names_of (c : c19_case) : option (name * name) :=
  if k_gen c =? 1 then Some ("d", "s")
  else match k_a c, k_b c with Some a, Some b => Some (a, b) | _, _ => None end.

Definition model_of (c : c19_case) : result module :=
  if k_gen c =? 2 then wrapper_gen (k_unit c)
  else match names_of c with
       | Some (a, b) => series_gen (k_unit c) a b (k_n c)
       | None => Error EBadKind        (* parameter validation: not a SeriesConn *)
       end.

Definition model_bits (c : c19_case) : result (list sbit) :=
  m <- model_of c ;; l <- all_unit_bits m ;; Ok (flatten_bits l).

Definition chk_c19 (c : c19_case) : Z :=
  let u := k_unit c in
  let io := unit_io u in
  if negb (wf_unit u && kind_ok (k_kind c) u) then 3 else
  let wrapper := k_gen c =? 2 in
  let n := if wrapper then 1 else k_n c in
  let valid := wrapper || match names_of c with Some (a, b) => valid_series u a b n | None => false end in
  let must_reject := negb wrapper &&
                     match names_of c with Some (a, b) => must_reject_series u a b n | None => (n <? 1) || (2 <=? n) end in
  let unjudged := negb wrapper && (2 <=? n) && match names_of c with Some (a, b) => String.eqb a b | None => false end in
  let keys := if wrapper || (n =? 1) then spec_wrapper io
              else match names_of c with Some (a, b) => spec_series n io a b | None => [] end in
  match k_pkg c with
  | None =>
      if valid then 1 else
      match model_bits c with Ok _ => 2 | Error _ => 0 end
  | Some p =>
      if must_reject then 1 else
      match last (map Some (pk_mods p)) None with
      | None => 1
      | Some pm =>
          let obs := match obs_units pm io with Ok l => Some (obs_ports pm io ++ l) | Error _ => None end in
          let prop_ok :=
            unjudged ||
            (structure_ok c p pm n &&
             match obs with Some l => same_partition netkey_eqb sbit_eqb keys l | None => false end) in
          if negb prop_ok then 1 else
          match model_bits c, obs with
          | Ok mb, Some l => if sbits_eqb (obs_ports pm io ++ mb) l then 0 else 2
          | _, _ => 2
          end
      end
  end.
