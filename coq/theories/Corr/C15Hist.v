(* Corr/C15Hist.v — evaluator of the C15 history stream: one module table (shared sub-modules are shared OBJECTS on the
   implementation side), a sequence of compilations (PDK, entered module), and the implementation's observed table
   after EVERY compilation, whether it returned or raised.  Codes as in Corr/C15.v:
   0 ok;  11 names/conns/hierarchy/untouched targets changed, 12 a mapped primitive below the entered module is not
   replaced by a satisfying device (after a compilation that returned), 13 sizes, 14 multiplier, 15 port unconnected,
   16 equal parameters gave different calls, 17 export/netlist failed although no physical primitive is left,
   18 raised although satisfiable, 19 a non-descriptive exception escaped;  2 model (Model/C15Store.v) and implementation differ. *)
From Coq Require Import String.
Require Import Hdl21.Base.PyInt Hdl21.Spec.PdkSpec Hdl21.Model.PdkSelect Hdl21.Model.Walker Hdl21.Model.C15Store.
Require Import Hdl21.Corr.C03 Hdl21.Corr.C15.
Open Scope string_scope.
Open Scope list_scope.
Open Scope Z_scope.

(* pdk, entered module, table after the compilation, error class (0 none, 1 descriptive, 2 escaped),
   export + netlists of the entered module (1 ok, 0 failed, 2 not attempted) *)
Inductive hstepc := HStep (k : pdk) (top : nat) (post : jdesign) (err : Z) (nl : Z).
Inductive hcase := HCase (pre : jdesign) (steps : list hstepc).

Definition pdk_eqb (a b : pdk) : bool :=
  match a, b with Sample, Sample | Sky130, Sky130 | Gf180, Gf180 | Asap7, Asap7 => true | _, _ => false end.

(* ---- specification, per compilation *)
(* after a compilation that RAISED: a mapped primitive may also be left as it was; everything else as in chk_inst *)
Definition chk_inst_p (k : pdk) (reachable : bool) (a b : jinst) : Z :=
  let '(n, c, t) := a in let '(n', c', t') := b in
  match t, t' with
  | JPrim p prm, JPrim q prm' =>
      if String.eqb n n' && conns_eqb c c' && prim_eqb p q && pparams_eqb prm prm' then 0 else 11
  | _, _ => chk_inst k reachable a b
  end.

Definition chk_mod_p (k : pdk) (reachable : bool) (a b : jmod) : Z :=
  if negb (String.eqb (fst a) (fst b) && Nat.eqb (length (snd a)) (length (snd b))) then 11
  else first_nz (map (fun ab => chk_inst_p k reachable (fst ab) (snd ab)) (zip (snd a) (snd b))).

Definition chk_copy_p (k : pdk) (top : nat) (pre post : jdesign) : Z :=
  if negb (Nat.eqb (length pre) (length post)) then 11 else
  let rs := reach (S (length pre)) pre [top] [] in
  first_nz (map (fun x => chk_mod_p k (existsb (Nat.eqb (fst x)) rs) (fst (snd x)) (snd (snd x))) (number 0 (zip pre post))).

(* a physical generic primitive is left below the entered module: netlisting is refused, rightly *)
Definition phys_left (top : nat) (d : jdesign) : bool :=
  let rs := reach (S (length d)) d [top] [] in
  existsb (fun x => existsb (Nat.eqb (fst x)) rs &&
    existsb (fun it => match snd it with JPrim (POther _) _ => false | JPrim _ _ => true | _ => false end) (snd (snd x))) (number 0 d).

Definition chk_hstep (prev : jdesign) (st : hstepc) : Z :=
  let '(HStep k top post err nl) := st in
  if err =? 2 then 19
  else if err =? 1 then (if unsat k top prev then chk_copy_p k top prev post else 18)
  else
    let r := chk_copy k top prev post in
    if negb (r =? 0) then r
    else if negb (phys_left top post) && negb (nl =? 1) then 17 else 0.

Fixpoint chk_hsteps (prev : jdesign) (steps : list hstepc) : Z :=
  match steps with
  | [] => 0
  | st :: r => let c := chk_hstep prev st in if negb (c =? 0) then c
               else chk_hsteps (let '(HStep _ _ post _ _) := st in post) r
  end.

(* swapped positions of every compilation: (pdk, (compilation number, key, call id)) *)
Fixpoint keyed_h (n : nat) (prev : jdesign) (steps : list hstepc) : list (pdk * (nat * ckey * Z)) :=
  match steps with
  | [] => []
  | HStep k top post _ _ :: r => map (fun x => (k, x)) (keyed k top n prev post) ++ keyed_h (S n) post r
  end.

(* equal parameters => the same call: within a compilation, and across compilations for the module-scope caches *)
Definition same_call_h (l : list (pdk * (nat * ckey * Z))) : bool :=
  forallb (fun a => forallb (fun b =>
    let '(ka, (ca, keya, ia)) := a in let '(kb, (cb, keyb, ib)) := b in
    if pdk_eqb ka kb && ckey_eqb keya keyb && (global_cache ka || Nat.eqb ca cb) then ia =? ib else true) l) l.

(* ---- the model on the same history *)
Definition to_target (t : jtarget) : starget :=
  match t with
  | JMod j => SMod j
  | JPrim p prm => SPrim p prm
  | JCall id name ports cls fields => SCall {| c_id := Z.to_N id + 1000000; c_spec := ((name, ports, cls), fields) |}
  | JExt x => SExt x
  | JOther => SExt "?"
  end.
Definition to_store (d : jdesign) : store :=
  map (fun m => (fst m, map (fun it => (fst it, to_target (snd it))) (snd m))) d.

Fixpoint hsnaps (ops : list (pdk * nat)) (h : hst) : list (store * option serr) :=
  match ops with
  | [] => []
  | (k, top) :: r => let (h1, e) := hstep k top h in (h_store h1, e) :: hsnaps r h1
  end.

Definition target_agree (m i : starget) : bool :=
  match m, i with
  | SMod a, SMod b => Nat.eqb a b
  | SPrim p prm, SPrim q prm' => prim_eqb p q && pparams_eqb prm prm'
  | SCall a, SCall b => call_agree (Some a) (Some b)
  | SExt a, SExt b => String.eqb a b
  | _, _ => false
  end.
Definition store_agree (m i : store) : bool :=
  all2 (fun a b => String.eqb (fst a) (fst b) &&
                   all2 (fun x y => String.eqb (fst (fst x)) (fst (fst y)) && target_agree (snd x) (snd y)) (snd a) (snd b)) m i.

Definition calls_of (s : store) : list (option call) :=
  flat_map (fun m => map (fun it => match snd it with SCall c => Some c | _ => None end) (snd m)) s.

Definition err_agree (m : option serr) (err : Z) : bool :=
  match m with
  | None => err =? 0
  | Some (SE EEscape) => err =? 2
  | Some (SE _) => err =? 1
  | Some _ => false
  end.

Definition chk_hist (c : hcase) : Z :=
  let '(HCase pre steps) := c in
  let spec := chk_hsteps pre steps in
  if negb (spec =? 0) then spec else
  if negb (same_call_h (keyed_h 0 pre steps)) then 16 else
  let ops := map (fun st => let '(HStep k top _ _ _) := st in (k, top)) steps in
  let snaps := hsnaps ops (h0 (to_store pre)) in
  let posts := map (fun st => let '(HStep _ _ post _ _) := st in to_store post) steps in
  let errs := map (fun st => let '(HStep _ _ _ err _) := st in err) steps in
  if all2 (fun a b => err_agree (snd a) b) snaps errs
     && all2 (fun a b => store_agree (fst a) b) snaps posts
     && same_partition (flat_map (fun a => calls_of (fst a)) snaps) (flat_map calls_of posts)
  then 0 else 2.
