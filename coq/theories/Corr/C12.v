(* Corr/C12.v — evaluators of the C12 correspondence run.
   codes: 0 ok · 1 the implementation violates the property (observables differ between processes)
          2 the runs agree with each other but not with the model (order of connections / chosen name)
          3 the case is not a usable case (fewer than two runs: harness defect) *)
Require Import Hdl21.Base.PyInt Hdl21.Spec.C12Repro Hdl21.Model.C12Order.
From Coq Require Import String Ascii.
Open Scope string_scope.
Open Scope list_scope.
Open Scope Z_scope.

Fixpoint slist_eqb (a b : list string) : bool :=
  match a, b with
  | [], [] => true
  | x :: a', y :: b' => String.eqb x y && slist_eqb a' b'
  | _, _ => false
  end.

Definition all_same (runs : list (list string)) : bool :=
  match runs with [] => true | r :: t => forallb (slist_eqb r) t end.

(* ---- stream: the property itself. One case = the observations of one design in several processes *)
Definition rcase := list obs.
Definition chk_repro (c : rcase) : Z :=
  match c with
  | [] | [_] => 3
  | _ => if reproducible c then 0 else 1
  end.

(* ---- stream: connection order of one instance against the model of the repaired loop *)
Record ocase := OC {
  oc_written : conns;                                  (* the connections in the order written; value = what was connected *)
  oc_groups : list (list key);                         (* back-reference sets: the ports fed by one bundle / reference / anonymous bundle *)
  oc_bports : ptable;                                  (* flattened bundle ports of the instantiated module *)
  oc_flat : list (key * list (string * string));       (* per port: the flattened scope of what feeds it *)
  oc_obs : list (list key)                             (* per process: the port names of the exported instance, in order *)
}.

Definition flat_tbl (t : list (key * list (string * string))) (k : key) : list (string * string) :=
  match tlookup k t with Some l => l | None => [] end.

Fixpoint run_groups (f : flat_fn) (gs : list (list key)) (c : conns) : result conns :=
  match gs with [] => Ok c | g :: t => c' <- run_repaired f g c ;; run_groups f t c' end.

Definition chk_order (x : ocase) : Z :=
  match oc_obs x with
  | [] | [_] => 3
  | o :: _ =>
      if negb (all_same (oc_obs x)) then 1 else
      let f := flat_of (oc_bports x) (flat_tbl (oc_flat x)) in
      match run_groups f (oc_groups x) (oc_written x),
            run_groups f (rev (map (@rev key) (oc_groups x))) (oc_written x) with
      | Ok c1, Ok c2 =>
          let spec := flatten_in_place (fun k => mem k (List.concat (oc_groups x)))
                                       (fun k => match f k with Ok l => l | Error _ => [] end) (oc_written x) in
          if slist_eqb (keys c1) o && slist_eqb (keys c2) o && slist_eqb (keys spec) o then 0 else 2
      | _, _ => 2
      end
  end.

(* ---- stream: names of the implicit signals of reference groups *)
Definition ncase := (list (list pref) * list (list string))%type.

Definition chk_names (x : ncase) : Z :=
  let '(groups, obs) := x in
  match obs with
  | [] | [_] => 3
  | o :: _ =>
      if negb (all_same obs) then 1 else
      if (List.length o =? List.length groups)%nat &&
         forallb (fun g => match which_repaired g with
                           | Ok p => mem (sig_name p) o
                           | Error _ => false end) groups
      then 0 else 2
  end.
