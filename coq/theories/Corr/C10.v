(* Corr/C10.v — evaluators of the C10 correspondence run.  Per case a code:
   0 = the implementation's output satisfies the specification (Spec/BundleSpec.v) and agrees with the model,
   1 = the implementation's output violates the specification on this input,
   2 = specification satisfied, but model (Model/BundleFlat.v) and implementation differ (tie broken),
   3 = the harness's own reading of a definition's FINAL members (after a construction history with re-used names) differs
       from the one Model/C10Build.v computes from the history (chkh, at the end of this file). *)
From Coq Require Import String Ascii.
Require Import Hdl21.Base.PyInt Hdl21.Spec.BundleSpec Hdl21.Model.BundleFlat Hdl21.Model.C10Build Hdl21.Corr.C03.
Require Import Hdl21Gen.C10Tables.
Open Scope string_scope.
Open Scope list_scope.
Open Scope Z_scope.

(* what was read from the exported module: ports in order, the other signals in order, optional member probes *)
Record obs := { o_ports : list (string * Z * dir); o_sigs : list (string * Z); o_probes : option (list (path * string)) }.

(* parent-side connection source as written in the case *)
Inductive canon :=
| CSig (n : string)                       (* a signal of the parent *)
| CInst (k : nat) (via : path)            (* bundle instance number k of the parent (or the sub-bundle at `via` of it) *)
| CAnon (m : list (string * canon)).      (* h.AnonymousBundle of the members m *)

Inductive parent :=
| PNone
| PConn (insts : list (bool * btree))     (* bundle instances of the parent, in the order they were added *)
        (probed : nat)                    (* the instance the probes (if any) refer to *)
        (ns : list string)                (* all other names of the parent module *)
        (src : canon).                    (* what the child's bundle port is connected to *)

Inductive impl :=
| IRej
| IAcc (child : obs) (par : option (obs * list (string * string))).

Definition case := (btree * bool * list string * parent * impl)%type.

(* ---------- reading the observation as a scope (member path -> flattened signal) ---------- *)
Fixpoint find_port (n : string) (l : list (string * Z * dir)) : option fsig :=
  match l with
  | [] => None
  | (m, w, d) :: xs => if String.eqb m n then Some {| fname := n; fwidth := w; fvis := VPort; fdir := d |} else find_port n xs
  end.
Fixpoint find_sig (n : string) (l : list (string * Z)) : option fsig :=
  match l with
  | [] => None
  | (m, w) :: xs => if String.eqb m n then Some {| fname := n; fwidth := w; fvis := VInternal; fdir := DNone |} else find_sig n xs
  end.
Definition lookup_out (o : obs) (n : string) : option fsig :=
  match find_port n (o_ports o) with Some f => Some f | None => find_sig n (o_sigs o) end.

Definition out_names (o : obs) : list string := map (fun x => fst (fst x)) (o_ports o) ++ map fst (o_sigs o).

Fixpoint first_named (b : string) (l : list string) : option string :=
  match l with
  | [] => None
  | n :: xs => match us_suffix b n with Some _ => Some n | None => first_named b xs end
  end.

(* with probes: the probe says which flattened signal carries the member; without: the (unique) signal named base followed by underscores *)
Definition observe (use_probes : bool) (o : obs) (avoid : list string) (t : btree) : option scope :=
  (fix go (ps : list path) : option scope :=
     match ps with
     | [] => Some []
     | p :: rest =>
         let name := match (if use_probes then o_probes o else None) with
                     | Some pr => passoc p pr
                     | None => first_named (base_name (bname t) p) (filter (fun n => negb (smem n avoid)) (out_names o))
                     end in
         match name with
         | None => None
         | Some n => match lookup_out o n, go rest with
                     | Some f, Some sc => Some ((p, f) :: sc)
                     | _, _ => None
                     end
         end
     end) (paths t).

Definition scope_names (sc : scope) : list string := map (fun e => fname (snd e)) sc.
Definition minus (a b : list string) : list string := filter (fun n => negb (smem n b)) a.

(* ---------- equality of model output and observation ---------- *)
Definition fsig_eqb (a b : fsig) : bool :=
  String.eqb (fname a) (fname b) && (fwidth a =? fwidth b) && vis_eqb (fvis a) (fvis b) && dir_eqb (fdir a) (fdir b).
Fixpoint fsigs_eqb (a b : list fsig) : bool :=
  match a, b with
  | [], [] => true
  | x :: a', y :: b' => fsig_eqb x y && fsigs_eqb a' b'
  | _, _ => false
  end.

Definition obs_ports (o : obs) : list fsig :=
  map (fun x => let '(n, w, d) := x in {| fname := n; fwidth := w; fvis := VPort; fdir := d |}) (o_ports o).
Definition obs_sigs (o : obs) (ns : list string) : list fsig :=
  map (fun x => let '(n, w) := x in {| fname := n; fwidth := w; fvis := VInternal; fdir := DNone |})
      (filter (fun x => negb (smem (fst x) ns)) (o_sigs o)).

Definition is_port_sig (f : fsig) : bool := vis_eqb (fvis f) VPort.

(* the model's flattened signals of a module, in creation order, against the exported order (ports / other signals) *)
Definition module_agrees (ns : list string) (insts : list (bool * btree)) (o : obs) : bool :=
  match flatten_module flatname_maxlen ns insts with
  | Error _ => false
  | Ok (out, _) =>
      let all := flat_map (fun x => map snd (snd x)) out in
      fsigs_eqb (filter is_port_sig all) (obs_ports o) &&
      fsigs_eqb (filter (fun f => negb (is_port_sig f)) all) (obs_sigs o ns)
  end.

Definition model_scope_of (ns : list string) (insts : list (bool * btree)) (k : nat) : option scope :=
  match flatten_module flatname_maxlen ns insts, nth_error insts k with
  | Ok (out, _), Some (_, t) =>
      (fix find (l : list (string * scope)) := match l with [] => None | (n, sc) :: xs => if String.eqb n (bname t) then Some sc else find xs end) out
  | _, _ => None
  end.

(* ---------- the parent-side source, by path ---------- *)
Definition names_of (sc : scope) : list (path * string) := map (fun e => (fst e, fname (snd e))) sc.

(* specification side: navigate the written source along a member path *)
Fixpoint cassoc (n : string) (m : list (string * canon)) : option canon :=
  match m with [] => None | (k, c) :: xs => if String.eqb k n then Some c else cassoc n xs end.

Fixpoint cwalk (scopes : list (option scope)) (c : canon) (p : path) : option string :=
  match c with
  | CSig n => match p with [] => Some n | _ => None end
  | CInst k via =>
      match nth_error scopes k with
      | Some (Some sc) => match passoc (via ++ p) sc with Some f => Some (fname f) | None => None end
      | _ => None
      end
  | CAnon m =>
      match p with
      | [] => None
      | n :: rest =>
          (fix look (l : list (string * canon)) : option string :=
             match l with
             | [] => None
             | (k, c') :: xs => if String.eqb k n then cwalk scopes c' rest else look xs
             end) m
      end
  end.

(* model side: the anonymous bundle / instance / reference as flatten_anonymous_bundle and resolve_path see it *)
Fixpoint to_anon (scopes : list (option scope)) (c : canon) : option (anon string) :=
  match c with
  | CSig n => Some (ASig n)
  | CInst k via =>
      match nth_error scopes k with
      | Some (Some sc) => Some (AScope (subscope via (names_of sc)))
      | _ => None
      end
  | CAnon m =>
      match (fix go (l : list (string * canon)) : option (list (string * anon string)) :=
               match l with
               | [] => Some []
               | (k, c') :: xs => match to_anon scopes c', go xs with
                                  | Some a, Some r => Some ((k, a) :: r)
                                  | _, _ => None
                                  end
               end) m with
      | Some r => Some (AAnon r)
      | None => None
      end
  end.

Definition conn_eqb (a b : list (string * string)) : bool :=
  forallb (fun e => match sassoc (fst e) b with Some v => String.eqb v (snd e) | None => false end) a &&
  (length a =? length b)%nat.

(* does the written source offer every member the child's port has?  (otherwise the connection must be rejected) *)
Definition source_complete (scopes : list (option scope)) (src : canon) (t : btree) : bool :=
  forallb (fun p => match cwalk scopes src p with Some _ => true | None => false end) (paths t).

(* does the written source bring along a member the child's port does NOT have?  Such a connection refers to a non-existent
   bundle member: the implementation refuses it (C02), so a rejection is not a C10 violation *)
Definition source_no_extra (scopes : list (option scope)) (src : canon) (t : btree) : bool :=
  match to_anon scopes src with
  | Some a => match flatten_anon a with
              | Ok psc => forallb (fun p => existsb (path_eqb p) (paths t)) (map fst psc)
              | Error _ => true
              end
  | None => true
  end.

Definition sum_paths (insts : list (bool * btree)) : nat := fold_right (fun x a => (length (paths (snd x)) + a)%nat) O insts.

Definition others_names (insts : list (bool * btree)) (k : nat) : list string :=
  map (fun x => bname (snd x)) (firstn k insts ++ skipn (S k) insts).

Definition chk (c : case) : Z :=
  let '(t, port, ns, par, im) := c in
  let model_child := flatten_module flatname_maxlen ns [(port, t)] in
  match im with
  | IRej =>
      (* a well-formed tree whose names fit must flatten; a connection whose source lacks a member must be rejected *)
      match model_child with
      | Error _ => 0
      | Ok _ =>
          match par with
          | PNone => if wf_tree t then 1 else 0
          | PConn insts _ pns src =>
              match flatten_module flatname_maxlen pns insts with
              | Error _ => 0
              | Ok (out, _) =>
                  let scopes := map (fun x => model_scope_of pns insts (fst x)) (combine (seq O (length insts)) insts) in
                  if wf_tree t && forallb (fun x => wf_tree (snd x)) insts && source_complete scopes src t && source_no_extra scopes src t then 1 else 0
              end
          end
      end
  | IAcc co po =>
      match observe true co ns t with
      | None => 1
      | Some csc =>
          if negb (scope_ok port t ns csc && (length (out_names co) - length (filter (fun n => smem n ns) (out_names co)) =? length csc)%nat) then 1 else
          let child_tie := module_agrees ns [(port, t)] co in
          match par, po with
          | PNone, _ => if child_tie then 0 else 2
          | PConn insts probed pns src, Some (pobs, conns) =>
              (* observed scope of every bundle instance of the parent; the probed one through its probes *)
              let scopes := map (fun x => let '(k, (pp, pt)) := x in
                                          observe (Nat.eqb k probed) pobs pns pt)
                                (combine (seq O (length insts)) insts) in
              let own_ok :=
                forallb (fun x => let '(k, (pp, pt)) := x in
                                  match nth_error scopes k with
                                  | Some (Some sc) =>
                                      scope_ok pp pt (pns ++ others_names insts k ++ minus (minus (out_names pobs) pns) (scope_names sc)) sc
                                  | _ => false
                                  end) (combine (seq O (length insts)) insts) &&
                (length (minus (out_names pobs) pns) =? sum_paths insts)%nat in
              let conn_ok :=
                forallb (fun e => let '(p, f) := e in
                                  match cwalk scopes src p, sassoc (fname f) conns with
                                  | Some s, Some s' => String.eqb s s'
                                  | _, _ => false
                                  end) csc && (length conns =? length csc)%nat in
              if negb (own_ok && conn_ok) then 1 else
              let parent_tie := module_agrees pns insts pobs in
              let mscopes := map (fun x => model_scope_of pns insts (fst x)) (combine (seq O (length insts)) insts) in
              let conn_tie :=
                match model_scope_of ns [(port, t)] O, to_anon mscopes src with
                | Some mc, Some a =>
                    match flatten_anon a with
                    | Ok psc => match replace_bundle_conn_checked mc psc with Ok cs => conn_eqb cs conns | Error _ => false end
                    | Error _ => false
                    end
                | _, _ => false
                end in
              if child_tie && parent_tie && conn_tie then 0 else 2
          | PConn _ _ _ _, None => 1
          end
      end
  end.

(* compact constructors for the generated case files *)
Definition L (n : string) (w : Z) (pt : bool) (d : dir) (s de : option role) : leaf :=
  {| lname := n; lwidth := w; lport := pt; ldir := d; lsrc := s; ldest := de |}.
Definition O3 (p : list (string * Z * dir)) (s : list (string * Z)) (pr : option (list (path * string))) : obs :=
  {| o_ports := p; o_sigs := s; o_probes := pr |}.

(* ---------- definitions with a construction history (strengthening round) ----------
   Every definition of the case that was built by a written history comes as (history tree, final tree as the harness read it).
   The trees of the case proper (child, parent instances) are printed from the harness's final members; here Coq recomputes
   the final members from the history with the model of bundle.py:_add / @h.bundle (Model/C10Build.v: resolve) and demands
   that the two agree (3 otherwise) before the flattening check `chk` is applied to them. *)
Definition hcase := (list (htree * btree) * case)%type.

Definition chkh (c : hcase) : Z :=
  let '(hs, c') := c in
  if forallb (fun x => btree_eqb (resolve (fst x)) (snd x)) hs then chk c' else 3.
