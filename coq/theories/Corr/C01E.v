(* Corr/C01E.v — the tie of the pipeline model (Model/C01EElab.v) to the implementation:
   the model's package against the implementation's package for one written design.
   Codes: 0  same nets, same leaf devices, and the two packages are syntactically identical
          7  same nets and leaf devices, packages differ in something the property does not fix
             (order or names of invented objects) - information, not a failure
          1  the implementation's package does not have the nets / leaf devices of the written design (the model's has)
          6  the implementation rejected a valid design (the model accepted it)
          2  the property holds on the implementation's package but the model rejected the design (tie broken)
          4  the model's own package is not well-formed or does not have the nets of the design
             (would contradict C06E_export_wf / C01E_end_to_end: a defect of the checker)
          3  harness inconsistency (invalid design or terminal lists, or a design outside the hypotheses of the
             theorems of Props/C01E.v: frag_ok, xinfo_ok) *)
Require Import Hdl21.Base.PyInt Hdl21.Spec.PySlice Hdl21.Model.Slice Hdl21.Model.Resolve Hdl21.Base.Design
               Hdl21.Spec.Nets Hdl21.Spec.WfDesign Hdl21.Base.Package Hdl21.Base.PrimTable Hdl21.Spec.PkgWf
               Hdl21.Spec.C01ENets Hdl21.Corr.C03 Hdl21.Corr.C01 Hdl21.Model.C01EElab.

Fixpoint list_eqb {A} (eqb : A -> A -> bool) (a b : list A) : bool :=
  match a, b with
  | [], [] => true
  | x :: a', y :: b' => eqb x y && list_eqb eqb a' b'
  | _, _ => false
  end.

Definition nz_eqb (a b : name * Z) : bool := String.eqb (fst a) (fst b) && (snd a =? snd b).
Definition ns_eqb (a b : name * string) : bool := String.eqb (fst a) (fst b) && String.eqb (snd a) (snd b).

Fixpoint ptarget_eqb (a b : ptarget) : bool :=
  match a, b with
  | PSig s, PSig t => String.eqb s t
  | PSlice s t1 b1, PSlice t t2 b2 => String.eqb s t && (t1 =? t2) && (b1 =? b2)
  | PConcat ps, PConcat qs =>
      (fix go (l : list ptarget) (r : list ptarget) : bool :=
         match l, r with
         | [], [] => true
         | x :: l', y :: r' => ptarget_eqb x y && go l' r'
         | _, _ => false
         end) ps qs
  | _, _ => false
  end.

Definition pref_eqb (a b : pref) : bool :=
  match a, b with
  | PLocal x, PLocal y => String.eqb x y
  | PExt d x, PExt e y => String.eqb d e && String.eqb x y
  | _, _ => false
  end.

Definition pinst_eqb (a b : pinst) : bool :=
  String.eqb (pi_name a) (pi_name b) && pref_eqb (pi_ref a) (pi_ref b) &&
  list_eqb ns_eqb (pi_params a) (pi_params b) &&
  list_eqb (fun x y => String.eqb (fst x) (fst y) && ptarget_eqb (snd x) (snd y)) (pi_conns a) (pi_conns b).

(* module order, signal order, names, widths, ports and directions, instances, references, parameters, targets *)
Definition pmodule_eqb (a b : pmodule) : bool :=
  String.eqb (pm_name a) (pm_name b) && list_eqb nz_eqb (pm_sigs a) (pm_sigs b) &&
  list_eqb nz_eqb (pm_ports a) (pm_ports b) && list_eqb pinst_eqb (pm_insts a) (pm_insts b).

Definition pext_eqb (a b : pext) : bool :=
  String.eqb (px_domain a) (px_domain b) && String.eqb (px_name a) (px_name b) &&
  list_eqb (fun x y => nz_eqb (fst x) (fst y) && (snd x =? snd y)) (px_ports a) (px_ports b).

Definition pkg_eqb (a b : package) : bool :=
  list_eqb pext_eqb (pk_exts a) (pk_exts b) && list_eqb pmodule_eqb (pk_mods a) (pk_mods b).

Record c01e_case := { ce_case : c01_case; ce_xinfo : xinfo }.

(* net labels and leaf devices of a package on the package terminals *)
Definition pkg_view (p : package) (top : name) (pterms : list node) : option (list Z * list name) :=
  match design_of_pkg prims_ext p top with
  | Error _ => None
  | Ok pd =>
      match terminals pd with
      | Error _ => None
      | Ok pts =>
          if negb (same_nodes (map fst pts) pterms) then None else
          let dev_of (n : node) := match find (fun x => node_eqb (fst x) n) pts with Some x => snd x | None => "?" end in
          match labels pd (design_fuel pd) pterms with
          | Error _ => None
          | Ok ls => Some (ls, map dev_of pterms)
          end
      end
  end.

Definition spec_view (d : design) (terms : list node) : option (list Z * list name) :=
  match wf_design d, terminals d with
  | Ok _, Ok ts =>
      if negb (same_nodes (map fst ts) terms) then None else
      let dev_of (n : node) := match find (fun x => node_eqb (fst x) n) ts with Some x => snd x | None => "?" end in
      match labels d (design_fuel d) terms with
      | Error _ => None
      | Ok ls => Some (ls, map dev_of terms)
      end
  | _, _ => None
  end.

Definition view_eqb (a b : list Z * list name) : bool := zlist_eqb (fst a) (fst b) && names_eqb (snd a) (snd b).

Definition chk_c01e (c : c01e_case) : Z :=
  let cc := ce_case c in
  let d := cc_design cc in
  match spec_view d (cc_terms cc) with
  | None => 3
  | Some sv =>
      if negb (frag_ok d && xinfo_ok (ce_xinfo c) d) then 3 else
      match elab_export_model (ce_xinfo c) d with
      | Error _ =>
          match cc_pkg cc with
          | None => 6
          | Some pi => match pkg_view pi (cc_top cc) (cc_pterms cc) with
                       | Some iv => if view_eqb iv sv then 2 else 1
                       | None => 1
                       end
          end
      | Ok pm =>
          match wf_pkg prims_ext pm, pkg_view pm (cc_top cc) (cc_pterms cc) with
          | Ok _, Some mv =>
              if negb (view_eqb mv sv) then 4 else
              match cc_pkg cc with
              | None => 6
              | Some pi =>
                  match pkg_view pi (cc_top cc) (cc_pterms cc) with
                  | None => 1
                  | Some iv => if negb (view_eqb iv mv) then 1 else if pkg_eqb pm pi then 0 else 7
                  end
              end
          | _, _ => 4
          end
      end
  end.

(* the model's result, for diagnosis *)
Definition model_pkg (c : c01e_case) : result package := elab_export_model (ce_xinfo c) (cc_design (ce_case c)).
