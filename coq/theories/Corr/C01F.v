(* Corr/C01F.v — the tie of the extended pipeline model (Model/C01FElab.v: references nested in slices / concatenations)
   to the implementation, for one written design.
   Codes: 0  frag_ok2 design; same nets, same leaf devices, the two packages are syntactically identical
          7  frag_ok2 design; same nets and leaf devices, packages differ in something the property does not fix
          8  design outside frag_ok2 (a loop between the sources of reference groups): the implementation's package has
             exactly the nets / leaf devices of the written design (the property holds; the model declines the design)
          1  the implementation's package does not have the nets / leaf devices of the written design
          6  the implementation rejected a valid design
          2  the property holds on the implementation's package but the model rejected a frag_ok2 design (tie broken)
          4  the model's own package is not well-formed or does not have the nets of the design
             (would contradict C01F_end_to_end / C06F_export_wf: a defect of the checker)
          5  frag_ok d = true but the extended model and the C01E model give different packages (would contradict
             C01F_agrees_with_C01E)
          3  harness inconsistency (invalid design or terminal lists, or xinfo_ok false) *)
Require Import Hdl21.Base.PyInt Hdl21.Spec.PySlice Hdl21.Model.Slice Hdl21.Model.Resolve Hdl21.Base.Design
               Hdl21.Spec.Nets Hdl21.Spec.WfDesign Hdl21.Base.Package Hdl21.Base.PrimTable Hdl21.Spec.PkgWf
               Hdl21.Spec.C01ENets Hdl21.Corr.C03 Hdl21.Corr.C01 Hdl21.Model.C01EElab Hdl21.Corr.C01E
               Hdl21.Model.C01FElab Hdl21.Spec.C01FNets.

Definition result_pkg_eqb (a b : result package) : bool :=
  match a, b with
  | Ok p, Ok q => pkg_eqb p q
  | Error _, Error _ => true
  | _, _ => false
  end.

Definition chk_c01f (c : c01e_case) : Z :=
  let cc := ce_case c in
  let d := cc_design cc in
  match spec_view d (cc_terms cc) with
  | None => 3
  | Some sv =>
      if negb (xinfo_ok (ce_xinfo c) d) then 3 else
      if frag_ok d && negb (result_pkg_eqb (elab_export_model (ce_xinfo c) d) (elab_export_model2 (ce_xinfo c) d)) then 5 else
      let impl_ok :=
        match cc_pkg cc with
        | None => 6
        | Some pi => match pkg_view pi (cc_top cc) (cc_pterms cc) with
                     | Some iv => if view_eqb iv sv then 0 else 1
                     | None => 1
                     end
        end in
      match elab_export_model2 (ce_xinfo c) d with
      | Error _ =>
          if negb (frag_ok2 d) then (if impl_ok =? 0 then 8 else impl_ok)
          else (if impl_ok =? 0 then 2 else impl_ok)
      | Ok pm =>
          match wf_pkg prims_ext pm, pkg_view pm (cc_top cc) (cc_pterms cc) with
          | Ok _, Some mv =>
              if negb (view_eqb mv sv) then 4 else
              if negb (impl_ok =? 0) then impl_ok else
              if negb (frag_ok2 d) then 8 else
              match cc_pkg cc with
              | None => 6
              | Some pi => if pkg_eqb pm pi then 0 else 7
              end
          | _, _ => 4
          end
      end
  end.

(* the shape of the design, for the coverage report: (frag_ok, frag_ok2) *)
Definition c01f_shape (c : c01e_case) : Z :=
  let d := cc_design (ce_case c) in
  (if frag_ok d then 1 else 0) + (if frag_ok2 d then 2 else 0).

Definition model2_pkg (c : c01e_case) : result package := elab_export_model2 (ce_xinfo c) (cc_design (ce_case c)).
