(* Corr/C09SetEnc.v — evaluator of the C09 stream "setenc": one case = ONE set value observed in several interpreters
   (other hash seeds, members listed in other orders): the value as that interpreter iterates over it, and the JSON text
   json.dumps wrote for it through hdl21_naming_encoder.
   1 = two observations of the one value carry different texts (the name would depend on the process),
   2 = a text is not the model's `enc` of the value as iterated, 0 = neither. *)
Require Import Hdl21.Base.PyInt Hdl21.Model.C09SetName Hdl21.Corr.C03.
From Coq Require Import String.
Open Scope string_scope.
Open Scope Z_scope.

Record secase := { se_obs : list (sval * string) }.

Definition chk_setenc (c : secase) : Z :=
  match se_obs c with
  | [] => 3
  | (_, t0) :: rest =>
      if negb (forallb (fun o => String.eqb (snd o) t0) rest) then 1 else
      if negb (forallb (fun o => String.eqb (enc (fst o)) (snd o)) (se_obs c)) then 2 else 0
  end.
