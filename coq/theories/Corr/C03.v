(* Corr/C03.v — evaluators of the C03 correspondence run.  Each returns, per case, a code:
   0 = implementation satisfies the property on this input and agrees with the model,
   1 = implementation violates the property (spec) on this input,
   2 = property holds on this input but model and implementation differ (tie broken),
   3 = the Coq specification disagrees with the CPython oracle (spec validation stream). *)
Require Import Hdl21.Base.PyInt Hdl21.Spec.PySlice Hdl21.Model.Slice Hdl21.Model.Resolve.

Fixpoint zlist_eqb (a b : list Z) : bool :=
  match a, b with
  | [], [] => true
  | x :: a', y :: b' => (x =? y) && zlist_eqb a' b'
  | _, _ => false
  end.

Fixpoint bits_eqb (a b : list bit) : bool :=
  match a, b with
  | [], [] => true
  | (i, x) :: a', (j, y) :: b' => N.eqb i j && (x =? y) && bits_eqb a' b'
  | _, _ => false
  end.

Fixpoint number_from {A} (k : Z) (f : A -> Z) (l : list A) : list (Z * Z) :=
  match l with
  | [] => []
  | x :: xs => let c := f x in if c =? 0 then number_from (k + 1) f xs else (k, c) :: number_from (k + 1) f xs
  end.
Definition run_cases {A} (f : A -> Z) (l : list A) : list (Z * Z) := number_from 0 f l.

(* --- stream spec: py_indices against CPython's list(range(w))[a:b:st] --- *)
Definition spec_case := (Z * option Z * option Z * Z * list Z)%type.
Definition chk_spec (c : spec_case) : Z :=
  let '(w, a, b, st, l) := c in if zlist_eqb (py_indices w a b st) l then 0 else 3.

(* --- stream inner: Slice.top/bot/step/width --- *)
Inductive impl_inner := IRej | IAcc (t b s wd : Z).

Definition out_of (w : Z) (o : option Z) : bool :=
  match o with Some x => (x <? - w) || (w <? x) | None => false end.
Definition beyond (w : Z) (ix : index) : bool :=
  match ix with Idx _ => false | Sl a b _ => out_of w a || out_of w b end.

Definition chk_inner (c : Z * index * impl_inner) : Z :=
  let '(w, ix, im) := c in
  let prop_ok :=
    match im, sel w ix with
    | IAcc t b s wd, Ok l =>
        zlist_eqb (inner_bits {| top := t; bot := b; step := s; width := wd |}) l && (wd =? zlen l)
    | IAcc _ _ _ _, Error _ => false
    | IRej, Ok _ => beyond w ix       (* a bound beyond [-w, w] may be rejected instead *)
    | IRej, Error _ => true
    end in
  if negb prop_ok then 1 else
  let model_ok :=
    match im, slice_inner w ix with
    | IAcc t b s wd, Ok r => inner_eqb r {| top := t; bot := b; step := s; width := wd |}
    | IRej, Error _ => true
    | _, _ => false
    end in
  if model_ok then 0 else 2.

(* --- stream nested: width() and the exported connection target after SliceResolver --- *)
Fixpoint has_beyond (x : sx) : bool :=
  match x with
  | XSig _ _ => false
  | XSlice p ix => has_beyond p || match xwidth p with Ok w => beyond w ix | Error _ => false end
  | XConcat ps => existsb has_beyond ps
  end.

Definition nested_case := (sx * option Z * option (list flat))%type.

Definition chk_nested (c : nested_case) : Z :=
  let '(x, iw, ifl) := c in
  let prop_ok :=
    match xbits x with
    | Ok bs =>
        match iw, ifl with
        | Some w, Some fl => (w =? zlen bs) && bits_eqb (flats_bits fl) bs && forallb flat_wf fl
        | None, None => has_beyond x
        | _, _ => false
        end
    | Error _ => match iw, ifl with None, None => true | _, _ => false end
    end in
  if negb prop_ok then 1 else
  let model_ok :=
    match xwidth x, iw with
    | Ok w, Some w' => w =? w'
    | Error _, None => true
    | _, _ => false
    end &&
    match list_flat x, ifl with
    | Ok l, Some fl => bits_eqb (flats_bits l) (flats_bits fl)
    | Error _, None => true
    | _, _ => false
    end in
  if model_ok then 0 else 2.

(* informational: does the structure (not only the bits) of the resolved target agree? *)
Definition flat_eqb (a b : flat) : bool :=
  match a, b with
  | FSig i w, FSig j v => N.eqb i j && (w =? v)
  | FSl i w b t, FSl j v c u => N.eqb i j && (w =? v) && (b =? c) && (t =? u)
  | _, _ => false
  end.
Fixpoint flats_eqb (a b : list flat) : bool :=
  match a, b with
  | [], [] => true
  | x :: a', y :: b' => flat_eqb x y && flats_eqb a' b'
  | _, _ => false
  end.
Definition chk_structure (c : nested_case) : Z :=
  let '(x, _, ifl) := c in
  match list_flat x, ifl with
  | Ok l, Some fl => if flats_eqb l fl then 0 else 4
  | _, _ => 0
  end.
