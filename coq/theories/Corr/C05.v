(* Corr/C05.v — evaluators of the C05 correspondence.
   Per design the harness supplies: the written design and the exported package (as for C01, with the package-side
   instance names of array elements / pair members taken from the naming trace), the naming trace of the elaboration
   (every insertion made by an anchored naming site, with the flatname call that produced the name), the naming sites
   the design contains, and the designer-declared names that must survive.
   Codes: 0 ok;  1 the implementation violates the property: it returned a package whose names are not unique, that lost
   or re-bound a designer name, or whose nets differ from the written design (a captured name shows as merged nets);
   2 the property holds on this input but a naming step differs from the model (tie broken);
   3 harness / specification inconsistency;  4 the implementation raised (allowed by the property; counted). *)
From Coq Require Import String Ascii.
Require Import Hdl21.Spec.BundleSpec Hdl21.Model.BundleFlat Hdl21.Model.C05Naming.
Require Import Hdl21.Base.PyInt Hdl21.Spec.PySlice Hdl21.Model.Slice Hdl21.Model.Resolve Hdl21.Base.Design
               Hdl21.Spec.Nets Hdl21.Spec.WfDesign Hdl21.Base.Package Hdl21.Base.PrimTable Hdl21.Spec.PkgWf
               Hdl21.Corr.C03 Hdl21.Corr.C01.
Require Import Hdl21Gen.C10Tables.
Open Scope string_scope.
Open Scope Z_scope.

Fixpoint slist_eqb (a b : list string) : bool :=
  match a, b with
  | [], [] => true
  | x :: a', y :: b' => String.eqb x y && slist_eqb a' b'
  | _, _ => false
  end.

Definition sopt_eqb (a b : option string) : bool :=
  match a, b with
  | None, None => true
  | Some x, Some y => String.eqb x y
  | _, _ => false
  end.

Definition same_set (a b : list string) : bool :=
  forallb (fun x => smem x b) a && forallb (fun x => smem x a) b &&
  (Z.of_nat (List.length a) =? Z.of_nat (List.length b)).

Definition site_eqb (a b : site) : bool :=
  match a, b with
  | SPortRef i p, SPortRef j q => String.eqb i j && String.eqb p q
  | SNoConn n i p, SNoConn m j q => sopt_eqb n m && String.eqb i j && String.eqb p q
  | SNoConnMember n i p x, SNoConnMember m j q y => sopt_eqb n m && String.eqb i j && String.eqb p q && same_set x y && (Z.of_nat (List.length x) =? Z.of_nat (List.length y))
  | SFlatMember x m, SFlatMember y n => String.eqb x y && String.eqb m n
  | SArrayElem x k, SArrayElem y l => String.eqb x y && N.eqb k l
  | SPairMember x m, SPairMember y n => String.eqb x y && String.eqb m n
  | _, _ => false
  end.

(* one insertion observed while an anchored naming site ran *)
Record c05_event := {
  ev_mod : string;                    (* the Module *)
  ev_site : site;                     (* the site, described from the arguments of the anchored function *)
  ev_hasflat : bool;                  (* a flatname call produced the name *)
  ev_segs : list string;              (* its segments *)
  ev_avoid : option (list string);    (* keys of its `avoid` (None: no avoid passed) *)
  ev_maxlen : Z;
  ev_res : option string;             (* its result (None: it raised) *)
  ev_added : option string;           (* the name under which the object was inserted (None: nothing inserted) *)
  ev_ns : list string;                (* keys of Module.namespace just before the insertion *)
  ev_held : list string }.            (* keys of the per-type containers (ports, signals, instances, instarrays, instbundles,
                                         bundles) just before the insertion: what `_add` looks at when it deletes *)

Definition dummy : obj := {| o_kind := KSig; o_id := 0 |}.
Definition ns_of (ks : list string) : ns := map (fun k => (k, dummy)) ks.

(* the step agrees with the model of the repaired code: the site builds the segments the model says, hands the Module's
   current namespace to flatname, and the name flatname returns (model = implementation) is the name inserted *)
Definition ev_ok (e : c05_event) : bool :=
  (* the segments are compared JOINED: how a site splits the plain name into segments is not observable in any name *)
  ev_hasflat e && String.eqb (join_us (site_segs (ev_site e))) (join_us (ev_segs e)) && (ev_maxlen e =? flatname_maxlen) &&
  match ev_avoid e with
  | None => false
  | Some a =>
      same_set a (ev_ns e) &&
      (* the two views of the Module list the same attributes (Model/C05Module.v:magree, Props/C05M.v:C05M_views_agree) *)
      same_set (ev_held e) (ev_ns e) &&
      match invent (ev_site e) (ns_of (ev_ns e)) with
      | Ok n => sopt_eqb (ev_res e) (Some n) && sopt_eqb (ev_added e) (Some n)
      | Error _ => sopt_eqb (ev_res e) None && sopt_eqb (ev_added e) None
      end
  end.

(* property-level reading of one insertion, independent of the model: the inserted name was not present in the Module
   before - neither in its namespace nor in any of its per-type containers (an attribute held there under the name would be
   deleted or replaced by `_add`, whatever the namespace says) *)
Definition ev_fresh (e : c05_event) : bool :=
  match ev_added e with Some n => negb (smem n (ev_ns e)) && negb (smem n (ev_held e)) | None => true end.

Definition site_key (e : c05_event) : string * site := (ev_mod e, ev_site e).
Definition msite_eqb (a b : string * site) : bool := String.eqb (fst a) (fst b) && site_eqb (snd a) (snd b).

Definition sites_match (expected observed : list (string * site)) : bool :=
  (Z.of_nat (List.length expected) =? Z.of_nat (List.length observed)) &&
  forallb (fun x => existsb (msite_eqb x) observed) expected &&
  forallb (fun x => existsb (msite_eqb x) expected) observed.

Record c05_case := {
  c5_c01 : c01_case;
  c5_events : list c05_event;
  c5_expected : list (string * site);
  (* per reachable module: package module name, designer signals/ports with widths, designer single instances *)
  c5_keep : list (string * list (string * Z) * list string) }.

Definition keep_ok (p : package) (k : string * list (string * Z) * list string) : bool :=
  let '(mn, sigs, insts) := k in
  match find (fun m => String.eqb (pm_name m) mn) (pk_mods p) with
  | None => false
  | Some m =>
      forallb (fun sw => match assoc (fst sw) (pm_sigs m) with Some w => w =? snd sw | None => false end) sigs &&
      forallb (fun i => existsb (fun x => String.eqb (pi_name x) i) (pm_insts m)) insts
  end.

Definition chk_c05 (c : c05_case) : Z :=
  let c1 := chk_c01 (c5_c01 c) in
  let steps := forallb ev_ok (c5_events c) in
  (* an insertion under a name the Module already held is a violation whatever happens afterwards (also when a later
     pass raises, and also when the written design cannot be evaluated) *)
  if negb (forallb ev_fresh (c5_events c)) then 1 else
  if c1 =? 3 then 3 else
  match cc_pkg (c5_c01 c) with
  | None => if steps then 4 else 2
  | Some p =>
      if negb (is_ok (wf_pkg prims_ext p)) then 1
      else if negb (forallb (keep_ok p) (c5_keep c)) then 1
      else if negb (forallb ev_fresh (c5_events c)) then 1
      else if negb (c1 =? 0) then 1
      else if steps && sites_match (c5_expected c) (map site_key (c5_events c)) then 0 else 2
  end.

(* ---- stream `flatname`: the model of ElabPass.flatname against the implementation, called directly ---- *)
Record flat_case := { fc_segs : list string; fc_avoid : option (list string); fc_maxlen : Z; fc_res : option string }.

Definition chk_flat (c : flat_case) : Z :=
  let av := match fc_avoid c with Some a => a | None => [] end in
  match flatname (fc_segs c) av (fc_maxlen c) with
  | Ok n => if sopt_eqb (fc_res c) (Some n) then (if smem n av then 1 else 0) else
            (match fc_res c with Some r => if smem r av then 1 else 2 | None => 2 end)
  | Error _ => match fc_res c with None => 0 | Some r => if smem r av then 1 else 2 end
  end.
