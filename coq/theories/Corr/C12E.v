(* Corr/C12E.v — the tie of the oracle-ordered pipeline model (Model/C12EOrdered.v) for one written design and the package
   the implementation produced for it (the harness has already checked that the processes - different PYTHONHASHSEED, different
   prework - all produced this same package).
   Codes: as Corr/C01F.v:chk_c01f (0 identical package, 7 same nets, 8 outside frag_ok2, 1 / 6 implementation violates the
   specification, 2 tie broken, 3 harness, 5 models disagree), and
          4  also: on a valid frag_ok2 design one of the oracles below changes the model's result, or the result is not the
             reference model's (would contradict C12E_pipeline_order_free / C12E_is_reference: a defect of the checker).
   c12e_shape: bit 0 = in some module the traversal `follow` from some port collects its group in a DIFFERENT ORDER under two
   of the oracles (the oracle reaches the group: the case is not vacuous). *)
From Coq Require Import String.
Require Import Hdl21.Base.PyInt Hdl21.Spec.PySlice Hdl21.Model.Slice Hdl21.Model.Resolve Hdl21.Base.Design
               Hdl21.Spec.Nets Hdl21.Spec.WfDesign Hdl21.Base.Package Hdl21.Base.PrimTable Hdl21.Spec.PkgWf
               Hdl21.Spec.C01ENets Hdl21.Corr.C03 Hdl21.Corr.C01 Hdl21.Model.C01EElab Hdl21.Corr.C01E
               Hdl21.Model.C01FElab Hdl21.Spec.C01FNets Hdl21.Corr.C01F Hdl21.Model.C12EOrdered.

Definition ord_rev : orders := fun _ l => rev l.
Definition rot (l : list key) : list key := match l with [] => [] | x :: t => t ++ [x] end.
Definition ord_rot : orders := fun _ l => rot l.
(* depends on the site: on the size of the group collected so far and on the port being followed *)
Definition ord_mix : orders :=
  fun s l => match s with
             | SFollow _ q g => if Nat.even (Datatypes.length g + String.length (snd q)) then rev l else rot l
             | _ => l
             end.
Definition oracles : list orders := [ord_id; ord_rev; ord_rot; ord_mix].

Definition chk_c12e (c : c01e_case) : Z :=
  let d := cc_design (ce_case c) in
  let xi := ce_xinfo c in
  let valid := match wf_design d with Ok _ => frag_ok2 d && xinfo_ok xi d | Error _ => false end in
  if valid && negb (forallb (fun o => result_pkg_eqb (pipeline_o o xi d) (elab_export_model2 xi d)) oracles) then 4
  else chk_c01f c.

Fixpoint klist_eqb (a b : list key) : bool :=
  match a, b with
  | [], [] => true
  | x :: a', y :: b' => key_eqb x y && klist_eqb a' b'
  | _, _ => false
  end.
Definition okl_eqb (a b : option (list key)) : bool :=
  match a, b with Some x, Some y => klist_eqb x y | None, None => true | _, _ => false end.

Definition module_orders_differ (d : design) (m : module) : bool :=
  match all_keys d m with
  | Ok keys =>
      let fuel := follow_fuel m keys in
      existsb (fun q => existsb (fun o => negb (okl_eqb (follow_o o m fuel q []) (follow_o ord_id m fuel q []))) oracles) keys
  | Error _ => false
  end.

Definition c12e_shape (c : c01e_case) : Z :=
  if existsb (module_orders_differ (cc_design (ce_case c))) (d_mods (cc_design (ce_case c))) then 1 else 0.
