(* Corr/C04E.v — the tie of the bridge (Model/C04EBridge.v) + pipeline model (Model/C01FElab.v) to the implementation, per
   operation history of the C04 streams.  Coq computes, from the OPERATIONS alone, the final mapping (Spec/C04LastWrite.v),
   the model state `run ops`, the design `design_of u (final . ops)`, decides whether the history is inside the hypotheses of
   Props/C04E.v, and then compares the pipeline model's package for the design of the state IN DICT ORDER
   (Model/C04EOrd.v:state_design_ord; its nets on the terminals are checked equal to design_of's) with the package the implementation
   exported after performing the history (Corr/C01F.v:chk_c01f: nets on the terminals, leaf devices, well-formedness of
   the model's package; syntactic identity as information).
   Codes: 0  inside; same nets and leaf devices; packages syntactically identical
          7  inside; same nets and leaf devices; packages differ in something the property does not fix (order / names of
             invented signals: the implementation creates them in the order references were fetched during the history)
          9  outside the fragment (shape_ok / closed_mod_ok / wf_design of the design of the final mapping fail: a connection of
             a module instance on a name that is no port, a kind the tables do not spell)
          8  outside frag_ok2 (loop between group sources); the implementation's package has the nets of the design
          1  the implementation's package does not have the nets / devices of the design of the final mapping
          6  the implementation rejected the complete valid final mapping
          2  tie broken: property holds on the implementation's package, the model differs / rejects
          4  checker inconsistency: state_design u (run ops) <> design_of u (final . ops) (contradicts
             C04E_state_design_is_final), the design in dict order (Model/C04EOrd.v) is invalid or has other nets on the terminals
             than design_of (contradicts C04E_order_free_nets), or the model's package is not well-formed / has not the nets of the design
          5  the C01E and C01F models disagree on a frag_ok design
          3  harness inconsistency (u_ok false, terminal lists, xinfo) *)
From Coq Require Import String.
Require Import Hdl21.Base.PyInt Hdl21.Spec.PySlice Hdl21.Model.Slice Hdl21.Model.Resolve Hdl21.Base.Design
               Hdl21.Spec.Nets Hdl21.Spec.WfDesign Hdl21.Base.Package Hdl21.Base.PrimTable Hdl21.Spec.PkgWf
               Hdl21.Spec.C01ENets Hdl21.Corr.C03 Hdl21.Corr.C01 Hdl21.Model.C01EElab Hdl21.Corr.C01E
               Hdl21.Model.C01FElab Hdl21.Spec.C01FNets Hdl21.Corr.C01F
               Hdl21.Model.C04ConnOps Hdl21.Spec.C04LastWrite Hdl21.Model.C04EBridge Hdl21.Model.C04EPipe Hdl21.Model.C04EOrd.
Open Scope Z_scope.

Record c04e_case := { e_u : universe; e_xi : xinfo; e_ops : list op;
                      e_pkg : option package; e_top : name; e_terms : list node; e_pterms : list node }.

Fixpoint sx_eqb (a b : sx) : bool :=
  match a, b with
  | XSig i w, XSig j v => N.eqb i j && (w =? v)
  | XSlice p ix, XSlice q iy =>
      sx_eqb p q && match ix, iy with
                    | Idx i, Idx j => i =? j
                    | Sl a1 b1 c1, Sl a2 b2 c2 =>
                        let oe (x y : option Z) := match x, y with Some u, Some v => u =? v | None, None => true | _, _ => false end in
                        oe a1 a2 && oe b1 b2 && oe c1 c2
                    | _, _ => false
                    end
  | XConcat ps, XConcat qs =>
      (fix go (l r : list sx) : bool :=
         match l, r with [], [] => true | x :: l', y :: r' => sx_eqb x y && go l' r' | _, _ => false end) ps qs
  | _, _ => false
  end.

Definition inst_eqb (a b : inst) : bool :=
  String.eqb (i_name a) (i_name b) && (i_n a =? i_n b) &&
  list_eqb (fun x y => String.eqb (fst x) (fst y) && sx_eqb (snd x) (snd y)) (i_conns a) (i_conns b).

(* the parents of two designs of one universe: same instances, same connections *)
Definition tops_eqb (a b : module) : bool := list_eqb inst_eqb (m_insts a) (m_insts b).

(* every connected port OF AN INSTANCE OF THE MODULE is a port of the universe.  Instances outside the module (the template of
   `n * Instance`) may hold any connections: Props/C04E.v:C04E_groups_agree_open needs no closedness, design_of ignores them,
   and so does the repaired elaborator.  (A connection of a module instance on a name that is no port makes the REAL design
   invalid, while design_of would not see it: such a history is outside.) *)
Definition closed_mod_ok (u : universe) (s : state) : bool :=
  forallb (fun e => negb (existsb (fun x => ui_id x =? fst (fst e)) (u_insts u)) || mem (fst e) (upids u)) (st_conns s).

Definition in_fragment (c : c04e_case) : bool :=
  let m := fun q => final q (e_ops c) in
  shape_ok (e_u c) m && closed_mod_ok (e_u c) (run (e_ops c)) &&
  match wf_design (design_of (e_u c) m) with Ok _ => true | Error _ => false end.

Definition chk_c04e (c : c04e_case) : Z :=
  let u := e_u c in
  let m := fun q => final q (e_ops c) in
  if negb (u_ok u) then 3 else
  if negb (in_fragment c) then 9 else
  let d := design_of u m in
  if negb (tops_eqb (top_of u (fun q => lookup q (st_conns (run (e_ops c))))) (top_of u m)) then 4 else
  (* the design in the order of the `conns` dicts: same nets on the terminals as the canonical one (C04E_order_free_nets) *)
  let dord := state_design_ord u (run (e_ops c)) in
  match spec_view d (e_terms c), spec_view dord (e_terms c) with
  | Some a, Some b =>
      if negb (view_eqb a b) then 4 else
      chk_c01f {| ce_case := {| cc_design := dord; cc_terms := e_terms c; cc_pkg := e_pkg c; cc_top := e_top c; cc_pterms := e_pterms c |};
                  ce_xinfo := e_xi c |}
  | None, _ => 3
  | Some _, None => 4
  end.

(* why a case is outside: 1 shape_ok, 2 closed_mod_ok, 4 wf_design (bit mask), for the coverage report *)
Definition c04e_why (c : c04e_case) : Z :=
  let m := fun q => final q (e_ops c) in
  (if shape_ok (e_u c) m then 0 else 1) + (if closed_mod_ok (e_u c) (run (e_ops c)) then 0 else 2) +
  (match wf_design (design_of (e_u c) m) with Ok _ => 0 | Error _ => 4 end).

(* the model's result, for diagnosis *)
Definition c04e_model_pkg (c : c04e_case) : result package := pkg_of_state_ord (e_xi c) (e_u c) (run (e_ops c)).
