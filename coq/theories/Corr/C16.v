(* Corr/C16.v — evaluator of the C16 correspondence.  Per case the harness supplies ONLY implementation outputs:
   the package of the elaborated hierarchy m (h.to_proto(m)) and the package of flatten(m) (or the fact that
   flatten raised).  Everything else happens here:
     - both packages are read as the netlisters read them (Base/Package.v) and reduced to leaf-level net
       partitions by Spec/Nets.v (bit level, widths checked); the terminal correspondence
       [i1; i2; leaf] <-> "i1:i2:leaf" is computed here; partitions, leaf devices (kind and parameters) and top ports
       are compared: that is the property itself on the implementation's outputs (code 1 / 6);
     - the hierarchy package is converted to the tree the theorems of Props/C16.v speak about (`hmod_of_pkg`), the
       signal-level spec of Spec/C16Flat.v is validated against the bit-level reading of Spec/Nets.v (code 3);
     - the model `flatten` runs on that tree and its result is compared with the implementation's flattened
       module: accepted/rejected, ports, signals with widths, instances with device and connections (code 2). *)
Require Import Hdl21.Base.PyInt Hdl21.Spec.PySlice Hdl21.Model.Slice Hdl21.Model.Resolve Hdl21.Base.Design
               Hdl21.Spec.Nets Hdl21.Base.Package Hdl21.Base.PrimTable Hdl21.Corr.C03 Hdl21.Corr.C01
               Hdl21.Spec.C16Flat Hdl21.Model.C16Flatten.
From Coq Require Import String.
Open Scope string_scope.
Open Scope list_scope.
Open Scope Z_scope.

Fixpoint find_pmodule (ms : list pmodule) (nm : name) : option pmodule :=
  match ms with
  | [] => None
  | m :: ms' => if String.eqb (pm_name m) nm then Some m else find_pmodule ms' nm
  end.

Definition pconn_hconn (c : name * ptarget) : name * hconn :=
  (fst c, match snd c with PSig s => CSig s | _ => COther end).

Fixpoint hmod_of_pkg (p : package) (fuel : nat) (m : pmodule) : result hmod :=
  match fuel with
  | O => Error EFuel
  | S f =>
      body <- traverse (fun i =>
                let conns := map pconn_hconn (pi_conns i) in
                match pi_ref i with
                | PLocal nm =>
                    m' <- ofopt EMissing (find_pmodule (pk_mods p) nm) ;;
                    M' <- hmod_of_pkg p f m' ;;
                    Ok (ISub (pi_name i) (h_ports M') (h_sigs M') (h_body M') conns)
                | PExt _ _ =>
                    t <- pinst_target prims_ext p i ;;
                    match t with
                    | TDev dev ps => Ok (ILeaf (pi_name i) dev ps conns)
                    | TMod _ => Error EBadKind
                    end
                end) (pm_insts m) ;;
      ports <- traverse (fun pd => w <- ofopt EMissing (assoc (fst pd) (pm_sigs m)) ;; Ok (fst pd, w)) (pm_ports m) ;;
      Ok {| h_ports := ports;
            h_sigs := filter (fun sw => negb (has_key (fst sw) (pm_ports m))) (pm_sigs m);
            h_body := body |}
  end.

Fixpoint all_csig_inst (x : hinst) : bool :=
  match x with
  | ILeaf _ _ dp c => forallb (fun c => match snd c with CSig _ => true | COther => false end) c
                      && forallb (fun pw => has_key (fst pw) c) dp
  | ISub _ _ _ body c => forallb (fun c => match snd c with CSig _ => true | COther => false end) c && forallb all_csig_inst body
  end.
Definition all_csig (t : hmod) : bool := forallb all_csig_inst (h_body t).

(* Spec/Nets terminal (a bit) -> terminal of Spec/C16Flat with its bit index *)
Definition conv (n : node) : option (hnode * Z) :=
  match n with
  | NSig p s k => Some (HSig (map fst p) s, k)
  | NPort p i _ port k => Some (HPort (map fst p) i port, k)
  | NNc _ _ _ => None
  end.

Definition hk_eqb (a b : option (hnode * Z)) : bool :=
  match a, b with
  | Some (x, k), Some (y, l) => hnode_eqb x y && (k =? l)
  | _, _ => false
  end.

Fixpoint first_idx (x : option (hnode * Z)) (l : list (option (hnode * Z))) (k : Z) : Z :=
  match l with
  | [] => -1
  | y :: l' => if hk_eqb x y then k else first_idx x l' (k + 1)
  end.

Definition hlabels (t : hmod) (ts : list node) : list Z :=
  let fuel := (2 * depth t + 3)%nat in
  let reps := map (fun n => match conv n with Some (h, k) => Some (hrep t fuel h, k) | None => None end) ts in
  map (fun r => first_idx r reps 0) reps.

(* the flat terminal of a hierarchical one *)
Definition trn (n : node) : node :=
  match n with
  | NPort p i e port k => NPort [] (flat_name (i :: map fst p)) 0 port k
  | _ => n
  end.

Definition dev_of (all : list (node * name)) (n : node) : name :=
  match find (fun x => node_eqb (fst x) n) all with Some x => snd x | None => "?" end.

Definition port_sig (m : pmodule) : list (name * Z * Z) :=
  map (fun pd => (fst pd, snd pd, match assoc (fst pd) (pm_sigs m) with Some w => w | None => -1 end)) (pm_ports m).

Fixpoint pz_eqb (a b : list (name * Z * Z)) : bool :=
  match a, b with
  | [], [] => true
  | (n, d, w) :: a', (n', d', w') :: b' => String.eqb n n' && (d =? d') && (w =? w') && pz_eqb a' b'
  | _, _ => false
  end.

Definition nz_in (x : name * Z) (l : list (name * Z)) : bool := existsb (fun y => String.eqb (fst x) (fst y) && (snd x =? snd y)) l.
Definition nz_same (a b : list (name * Z)) : bool :=
  (Z.of_nat (Datatypes.length a) =? Z.of_nat (Datatypes.length b)) && forallb (fun x => nz_in x b) a && forallb (fun x => nz_in x a) b.

Definition conn_in (c : name * name) (l : list (name * ptarget)) : bool :=
  existsb (fun y => String.eqb (fst c) (fst y) && match snd y with PSig s => String.eqb (snd c) s | _ => false end) l.

Fixpoint insts_match (p : package) (fs : list finst) (ps : list pinst) : bool :=
  match fs, ps with
  | [], [] => true
  | f :: fs', i :: ps' =>
      String.eqb (fi_name f) (pi_name i)
      && match pinst_target prims_ext p i with Ok (TDev dev _) => String.eqb dev (fi_dev f) | _ => false end
      && (Z.of_nat (Datatypes.length (fi_conns f)) =? Z.of_nat (Datatypes.length (pi_conns i)))
      && forallb (fun c => conn_in c (pi_conns i)) (fi_conns f)
      && insts_match p fs' ps'
  | _, _ => false
  end.

Record c16_case := { c_hpkg : package; c_htop : name; c_fpkg : option package; c_ftop : name }.

(* codes: 0 ok; 1 flatten(m) differs from m (nets / leaves / ports); 6 a design the proved model flattens was rejected;
   2 property holds on this input but model and implementation differ; 3 the hierarchy package is unreadable or
   Spec/C16Flat disagrees with Spec/Nets on it (harness / spec inconsistency) *)
Definition chk_c16 (c : c16_case) : Z :=
  let hp := c_hpkg c in
  match design_of_pkg prims_ext hp (c_htop c), find_pmodule (pk_mods hp) (c_htop c) with
  | Ok dh, Some hm =>
      match Nets.terminals dh, hmod_of_pkg hp (S (Datatypes.length (pk_mods hp))) hm with
      | Ok hts, Ok t =>
          let hnodes := map fst hts in
          match labels dh (design_fuel dh) hnodes with
          | Error _ => 3
          | Ok hls =>
              if all_csig t && negb (zlist_eqb (hlabels t hnodes) hls) then 3 else
              if all_csig t && negb (forallb (fun n => match conv n with Some (h, _) => existsb (hnode_eqb h) (C16Flat.terminals t) | None => false end) hnodes
                                     && forallb (fun h => existsb (fun n => match conv n with Some (h', _) => hnode_eqb h h' | None => false end) hnodes
                                                          || match h with HSig _ _ => true | _ => false end) (C16Flat.terminals t)) then 3 else
              let mr := flatten t in
              match c_fpkg c with
              | None => match mr with Ok _ => 6 | Error _ => 0 end
              | Some fp =>
                  match design_of_pkg prims_ext fp (c_ftop c), find_pmodule (pk_mods fp) (c_ftop c) with
                  | Ok df, Some fm =>
                      match Nets.terminals df with
                      | Error _ => 1
                      | Ok fts =>
                          let fnodes := map trn hnodes in
                          if negb (String.eqb (c_htop c) (c_ftop c))
                             && negb (forallb (fun i => match pi_ref i with PExt _ _ => true | PLocal _ => false end) (pm_insts fm)) then 1 else
                          if negb (same_nodes fnodes (map fst fts)) then 1 else
                          if negb (C01.names_eqb (map (dev_of hts) hnodes) (map (dev_of fts) fnodes)) then 1 else
                          if negb (pz_eqb (port_sig hm) (port_sig fm)) then 1 else
                          match labels df (design_fuel df) fnodes with
                          | Error _ => 1
                          | Ok fls =>
                              if negb (zlist_eqb hls fls) then 1 else
                              match mr with
                              | Error _ => 2
                              | Ok FSame => if String.eqb (c_htop c) (c_ftop c) then 0 else 2
                              | Ok (FNew f) =>
                                  if String.eqb (c_htop c) (c_ftop c) then 2 else
                                  if negb (C01.names_eqb (map fst (f_ports f)) (map fst (pm_ports fm))) then 2 else
                                  if negb (nz_same (f_ports f ++ f_sigs f) (pm_sigs fm)) then 2 else
                                  if insts_match fp (f_insts f) (pm_insts fm) then 0 else 2
                              end
                          end
                      end
                  | _, _ => 1
                  end
              end
          end
      | _, _ => 3
      end
  | _, _ => 3
  end.
