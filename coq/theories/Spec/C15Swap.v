(* Spec/C15Swap.v — "swaps device targets and nothing else" (property C15) as a relation between the design before
   and after a PDK compilation, independent of the walker's algorithm.

   `mrel k P m m'` holds when m' is m with
     - the same module names, the same instances in the same order, the same instance names and the same connections,
     - every instance target that is a sub-module related recursively,
     - every target that is a generic primitive the PDK k does NOT map, an ExternalModuleCall of any origin: identical,
     - every target that is a generic primitive of cache group g with parameters prm: a device call c with P (g, prm) c.
   The parameter P says which call a request may be replaced by (the selection theorems instantiate it). *)
From Coq Require Import String.
Require Import Hdl21.Base.PyInt Hdl21.Spec.PdkSpec Hdl21.Model.PdkSelect Hdl21.Model.Walker.
Open Scope string_scope.
Open Scope list_scope.

Inductive trel (k : pdk) (P : ckey -> call -> Prop) : target -> target -> Prop :=
| TR_mod m m' : mrel k P m m' -> trel k P (TMod m) (TMod m')
| TR_keep p prm : group_of k p = None -> trel k P (TPrim p prm) (TPrim p prm)
| TR_swap p prm g c : group_of k p = Some g -> P (g, prm) c -> trel k P (TPrim p prm) (TCall c)
| TR_call c : trel k P (TCall c) (TCall c)
| TR_ext n : trel k P (TExt n) (TExt n)
with mrel (k : pdk) (P : ckey -> call -> Prop) : module -> module -> Prop :=
| MR name l l' : irel k P l l' -> mrel k P (Mod name l) (Mod name l')
with irel (k : pdk) (P : ckey -> call -> Prop) : ilist -> ilist -> Prop :=
| IR_nil : irel k P INil INil
| IR_cons n c t t' r r' : trel k P t t' -> irel k P r r' -> irel k P (ICons n c t r) (ICons n c t' r').

Scheme trel_mut := Minimality for trel Sort Prop
  with mrel_mut := Minimality for mrel Sort Prop
  with irel_mut := Minimality for irel Sort Prop.
Combined Scheme rel_mutind from trel_mut, mrel_mut, irel_mut.

(* the (request, device call) pairs at the swapped positions of two designs of the same shape, in traversal order *)
Fixpoint swaps_t (k : pdk) (t t' : target) {struct t} : list (ckey * call) :=
  match t, t' with
  | TMod m, TMod m' => swaps_m k m m'
  | TPrim p prm, TCall c => match group_of k p with Some g => [((g, prm), c)] | None => [] end
  | _, _ => []
  end
with swaps_m (k : pdk) (m m' : module) {struct m} : list (ckey * call) :=
  match m, m' with Mod _ l, Mod _ l' => swaps_i k l l' end
with swaps_i (k : pdk) (l l' : ilist) {struct l} : list (ckey * call) :=
  match l, l' with
  | ICons _ _ t r, ICons _ _ t' r' => swaps_t k t t' ++ swaps_i k r r'
  | _, _ => []
  end.

(* no instance of a generic primitive that the PDK maps is left *)
Fixpoint ng_t (k : pdk) (t : target) : bool :=
  match t with
  | TMod m => ng_m k m
  | TPrim p _ => match group_of k p with Some _ => false | None => true end
  | TCall _ | TExt _ => true
  end
with ng_m (k : pdk) (m : module) : bool := match m with Mod _ l => ng_i k l end
with ng_i (k : pdk) (l : ilist) : bool :=
  match l with INil => true | ICons _ _ t r => ng_t k t && ng_i k r end.

(* the instance-level view used by the validity clause: all instances of a design, at any depth, as
   (instance name, connections, target) *)
Fixpoint insts_t (t : target) : list (string * list (string * string) * target) :=
  match t with TMod m => insts_m m | _ => [] end
with insts_m (m : module) : list (string * list (string * string) * target) := match m with Mod _ l => insts_i l end
with insts_i (l : ilist) : list (string * list (string * string) * target) :=
  match l with INil => [] | ICons n c t r => (n, c, t) :: insts_t t ++ insts_i r end.

(* connections name exactly the given ports, each once *)
Definition conns_exact (ports : list string) (conns : list (string * string)) : bool :=
  same_ports ports (map fst conns) && nodupb (map fst conns).
