(* Spec/PkgWf.v — C06: a package is closed and self-consistent. *)
Require Import Hdl21.Base.PyInt Hdl21.Spec.PySlice Hdl21.Model.Slice Hdl21.Model.Resolve Hdl21.Base.Design
               Hdl21.Base.Package Hdl21.Spec.WfDesign.

Definition ext_lookup (prims : list pext) (p : package) (dom nm : name) : option pext :=
  match find_ext (pk_exts p) dom nm with Some x => Some x | None => find_ext prims dom nm end.

(* ports (name, width) of what an instance refers to; local modules must be defined EARLIER in the package *)
Definition ref_ports (prims : list pext) (p : package) (earlier : list pmodule) (r : pref) : result (list (name * Z)) :=
  match r with
  | PLocal nm =>
      k <- ofopt EMissing (find_pmod earlier nm 0) ;;
      m <- ofopt EMissing (nth_error earlier k) ;;
      traverse (fun pd => w <- ofopt EMissing (assoc (fst pd) (pm_sigs m)) ;; Ok (fst pd, w)) (pm_ports m)
  | PExt dom nm =>
      x <- ofopt EMissing (ext_lookup prims p dom nm) ;;
      Ok (map (fun pwd => (fst (fst pwd), snd (fst pwd))) (px_ports x))
  end.

Definition wf_pconn (m : pmodule) (ports : list (name * Z)) (c : name * ptarget) : result unit :=
  w <- ofopt EExtra (assoc (fst c) ports) ;;
  bits <- read_target (pm_sigs m) (snd c) ;;
  check (zlen bits =? w) EWidth.

Definition wf_pinst (prims : list pext) (p : package) (earlier : list pmodule) (m : pmodule) (i : pinst) : result unit :=
  ports <- ref_ports prims p earlier (pi_ref i) ;;
  _ <- check (nodup_names (map fst (pi_conns i))) EExtra ;;
  _ <- all_ok (wf_pconn m ports) (pi_conns i) ;;
  (* each port of the target connected (exactly once, given no duplicates) *)
  all_ok (fun pw => match assoc (fst pw) (pi_conns i) with Some _ => Ok tt | None => Error EMissing end) ports.

Definition wf_pmodule (prims : list pext) (p : package) (earlier : list pmodule) (m : pmodule) : result unit :=
  _ <- check (negb (String.eqb (pm_name m) "")) EName ;;
  _ <- check (negb (existsb (fun m' => String.eqb (pm_name m') (pm_name m)) earlier)) EName ;;
  _ <- check (nodup_names (map fst (pm_sigs m))) EName ;;
  _ <- check (nodup_names (map fst (pm_ports m))) EName ;;
  _ <- check (nodup_names (map pi_name (pm_insts m))) EName ;;
  _ <- check (forallb (fun sw => 1 <=? snd sw) (pm_sigs m)) EWidth ;;
  _ <- check (forallb (fun pd => match assoc (fst pd) (pm_sigs m) with Some _ => true | None => false end) (pm_ports m)) EMissing ;;
  all_ok (wf_pinst prims p earlier m) (pm_insts m).

Fixpoint wf_pmods (prims : list pext) (p : package) (earlier : list pmodule) (ms : list pmodule) : result unit :=
  match ms with
  | [] => Ok tt
  | m :: ms' => _ <- wf_pmodule prims p earlier m ;; wf_pmods prims p (earlier ++ [m]) ms'
  end.

Fixpoint nodup_exts (xs : list pext) : bool :=
  match xs with
  | [] => true
  | x :: xs' => negb (existsb (fun y => String.eqb (px_domain x) (px_domain y) && String.eqb (px_name x) (px_name y)) xs') && nodup_exts xs'
  end.

Definition wf_pkg (prims : list pext) (p : package) : result unit :=
  _ <- check (nodup_exts (pk_exts p)) EName ;;
  _ <- check (forallb (fun x => nodup_names (map (fun pwd => fst (fst pwd)) (px_ports x)) &&
                                forallb (fun pwd => 1 <=? snd (fst pwd)) (px_ports x)) (pk_exts p)) EName ;;
  wf_pmods prims p [] (pk_mods p).
