(* Spec/C06Accept.v — C06, second half of the statement: "from_proto and the vlsirtools spice and spectre
   netlisters accept it".  What the three consumers additionally require of a package that is already wf_pkg:

   * instance parameters: every exported vlsir.Param has a name, names are unique per instance, and its ParamValue
     has a value set (the package printer writes an un-set ParamValue as a string starting with "?").
     from_proto and the netlisters raise a ValueError about the value type (None) otherwise.
   * the netlisters write into ONE flat name space per kind (vlsirtools/netlist/base.py): a Module is named by the
     last dotted segment of its qualified name (non-alphanumerics replaced by `_`), an instantiated ExternalModule by
     its bare name - separately for sub-circuits (spicetype SUBCKT) and for SPICE models (every other spicetype).
     Two Modules with one flat name, or two different instantiated ExternalModules with one name in one of the two
     spaces, are rejected ("doubly defined" / "Conflicting ExternalModule definitions") - a documented limit of the
     netlist languages, not of the package (recorded findings of C06: such packages ARE returned by to_proto).
   * the netlisters demand the parameters that vlsirtools.primitives declares without a default (table regenerated into
     Hdl21Gen.C06VlsirPrims) of every instance of a `vlsir.primitives` element: "Required parameter ... not specified".
     Hdl21's ideal sources declare them Optional, so Vpulse() is exported without them (recorded finding of C06). *)
Require Import Hdl21.Base.PyInt Hdl21.Spec.PySlice Hdl21.Model.Slice Hdl21.Model.Resolve Hdl21.Base.Design
               Hdl21.Base.Package Hdl21.Spec.WfDesign Hdl21.Spec.PkgWf.
Require Import Hdl21Gen.C06VlsirPrims.
From Coq Require Import String Ascii.

(* ---- parameters ---- *)
Definition pvalue_set (v : string) : bool :=
  match v with
  | EmptyString => false
  | String c _ => negb (Ascii.eqb c "?"%char)
  end.

Definition wf_params (ps : list (name * string)) : bool :=
  nodup_names (map fst ps) && forallb (fun kv => negb (String.eqb (fst kv) "") && pvalue_set (snd kv)) ps.

Definition wf_pkg_params (p : package) : bool :=
  forallb (fun m => forallb (fun i => wf_params (pi_params i)) (pm_insts m)) (pk_mods p).

(* ---- the netlisters' flat name spaces ---- *)
Definition is_alnum (c : ascii) : bool :=
  let n := N_of_ascii c in
  ((48 <=? n) && (n <=? 57) || (65 <=? n) && (n <=? 90) || (97 <=? n) && (n <=? 122))%N.

(* last dotted segment: `acc` is the segment read so far *)
Fixpoint last_seg (s acc : string) : string :=
  match s with
  | EmptyString => acc
  | String c s' => if Ascii.eqb c "."%char then last_seg s' EmptyString else last_seg s' (String.append acc (String c EmptyString))
  end.

Fixpoint sanitize (s : string) : string :=
  match s with
  | EmptyString => EmptyString
  | String c s' => String (if is_alnum c || Ascii.eqb c "_"%char then c else "_"%char) (sanitize s')
  end.

Definition flat_name (qualified : string) : string := sanitize (last_seg qualified EmptyString).

Definition flat_mods_ok (p : package) : bool := nodup_names (map (fun m => flat_name (pm_name m)) (pk_mods p)).

(* the declared external modules the instances of the package refer to, in instantiation order *)
Definition ext_refs (p : package) : list pext :=
  flat_map (fun m => flat_map (fun i => match pi_ref i with
                                        | PExt dom nm => match find_ext (pk_exts p) dom nm with Some x => [x] | None => [] end
                                        | PLocal _ => []
                                        end) (pm_insts m)) (pk_mods p).

Definition is_subckt (x : pext) : bool := String.eqb (px_spicetype x) "SUBCKT".

Definition flat_exts_ok (p : package) : bool :=
  let rs := ext_refs p in
  forallb (fun x => forallb (fun y =>
     implb (String.eqb (px_name x) (px_name y) && Bool.eqb (is_subckt x) (is_subckt y))
           (String.eqb (px_domain x) (px_domain y))) rs) rs.

Definition netlist_flat_ok (p : package) : bool := flat_mods_ok p && flat_exts_ok p.

(* ---- required parameters of vlsir.primitives elements ---- *)
Definition prim_params_ok (p : package) : bool :=
  forallb (fun m => forallb (fun i =>
    match pi_ref i with
    | PExt dom nm =>
        if String.eqb dom "vlsir.primitives"
        then match assoc nm vlsir_prim_required with
             | Some req => forallb (fun k => existsb (String.eqb k) (map fst (pi_params i))) req
             | None => true
             end
        else true
    | PLocal _ => true
    end) (pm_insts m)) (pk_mods p).

(* the full executable statement of C06 for one package: closed and self-consistent, parameters included *)
Definition wf_pkg_full (prims : list pext) (p : package) : result unit :=
  _ <- wf_pkg prims p ;; check (wf_pkg_params p) EOther.
