(* Spec/C16Flat.v — what "flatten preserves leaf-level connectivity" means (property C16).
   The fragment flatten works on: an ELABORATED hierarchy (arrays, bundles, port references and
   no-connects are gone) whose instance connections are whole signals (`CSig`) or something else
   (`COther`: a slice or a concatenation - flatten must reject those).  A hierarchy is a tree: an
   instance of a sub-module carries that module's ports, signals and instances (a module that is
   instantiated twice simply occurs twice; flatten walks every occurrence separately).
   Nodes are signals and instance ports located by the path of instance names from the top
   (innermost first).  `hstep` is the sentence "a port of an instance is connected to the signal
   written in its connection; a port signal of a sub-module is the port of the instance it was
   reached through"; two nodes are on one net iff they are related by the equivalence closure of
   `hstep` (FunGraph.conn).  Whole-signal connections relate bit k to bit k, so a net of signals is a
   net of each of its bits (`hstep_bit`).
   The flattened module is read with the very same definitions (it is a hierarchy of depth one). *)
Require Import Hdl21.Base.PyInt Hdl21.Base.Design.
From Coq Require Import String.
Open Scope string_scope.
Open Scope list_scope.
Open Scope Z_scope.

Inductive hconn := CSig (s : name) | COther.

Inductive hinst :=
| ILeaf (nm dev : name) (dports : list (name * Z)) (conns : list (name * hconn))
| ISub (nm : name) (ports sigs : list (name * Z)) (body : list hinst) (conns : list (name * hconn)).

Record hmod := { h_ports : list (name * Z); h_sigs : list (name * Z); h_body : list hinst }.

Definition iname (x : hinst) : name := match x with ILeaf nm _ _ _ => nm | ISub nm _ _ _ _ => nm end.
Definition iconns (x : hinst) : list (name * hconn) := match x with ILeaf _ _ _ c => c | ISub _ _ _ _ c => c end.
Definition sub_mod (x : hinst) : option hmod :=
  match x with
  | ISub _ p s b _ => Some {| h_ports := p; h_sigs := s; h_body := b |}
  | ILeaf _ _ _ _ => None
  end.

Fixpoint find_hinst (l : list hinst) (i : name) : option hinst :=
  match l with
  | [] => None
  | x :: l' => if String.eqb (iname x) i then Some x else find_hinst l' i
  end.

(* the module reached from M through the instance names p (outermost first) *)
Fixpoint mod_down (M : hmod) (p : list name) : option hmod :=
  match p with
  | [] => Some M
  | i :: p' =>
      match find_hinst (h_body M) i with
      | Some x => match sub_mod x with Some M' => mod_down M' p' | None => None end
      | None => None
      end
  end.

Definition hpath := list name.     (* innermost first *)
Definition mod_at (t : hmod) (p : hpath) : option hmod := mod_down t (rev p).
Definition inst_at (t : hmod) (p : hpath) (i : name) : option hinst :=
  match mod_at t p with Some M => find_hinst (h_body M) i | None => None end.

Inductive hnode := HSig (p : hpath) (s : name) | HPort (p : hpath) (i port : name).

Definition has_key {A} (k : name) (l : list (name * A)) : bool := match assoc k l with Some _ => true | None => false end.

Definition hstep (t : hmod) (n : hnode) : hnode :=
  match n with
  | HPort p i port =>
      match inst_at t p i with
      | Some x => match assoc port (iconns x) with Some (CSig s) => HSig p s | _ => n end
      | None => n
      end
  | HSig [] _ => n
  | HSig (i :: p') s =>
      match inst_at t p' i with
      | Some (ISub _ ports _ _ conns) => if has_key s ports && has_key s conns then HPort p' i s else n
      | _ => n
      end
  end.

(* bit level: a whole-signal connection joins bit k with bit k *)
Definition hstep_bit (t : hmod) (nk : hnode * Z) : hnode * Z := (hstep t (fst nk), snd nk).

(* ---- leaf devices and terminals, by plain traversal ---- *)
Record hleaf := { lf_path : hpath (* leaf instance name first *); lf_dev : name; lf_ports : list (name * Z);
                  lf_conns : list (name * hconn) }.

Fixpoint leaves_inst (p : hpath) (x : hinst) : list hleaf :=
  match x with
  | ILeaf nm dev dp c => [{| lf_path := nm :: p; lf_dev := dev; lf_ports := dp; lf_conns := c |}]
  | ISub nm _ _ body _ => flat_map (leaves_inst (nm :: p)) body
  end.

Definition leaves (t : hmod) : list hleaf := flat_map (leaves_inst []) (h_body t).

Definition leaf_terms (l : hleaf) : list hnode :=
  match lf_path l with
  | [] => []
  | i :: p => flat_map (fun c => match snd c with CSig _ => [HPort p i (fst c)] | COther => [] end) (lf_conns l)
  end.

(* terminals: the top module's ports and the connected ports of every leaf device *)
Definition terminals (t : hmod) : list hnode :=
  map (fun pw => HSig [] (fst pw)) (h_ports t) ++ flat_map leaf_terms (leaves t).

(* ---- well-formedness of an elaborated hierarchy (what the Module namespace and elaboration guarantee):
        instance names are unique within a module; the connections of an instance of a sub-module name ports
        of that sub-module ---- *)
Fixpoint nodupb (l : list name) : bool :=
  match l with
  | [] => true
  | x :: l' => negb (existsb (String.eqb x) l') && nodupb l'
  end.

Fixpoint wf_inst (x : hinst) : bool :=
  match x with
  | ILeaf _ _ _ _ => true
  | ISub _ ports _ body conns =>
      forallb (fun c => has_key (fst c) ports) conns && nodupb (map iname body) && forallb wf_inst body
  end.

Definition wf_hier (t : hmod) : bool := nodupb (map iname (h_body t)) && forallb wf_inst (h_body t).

(* ---- the names flatten generates: the path joined with ':' ---- *)
Fixpoint join (l : list name) : name :=
  match l with
  | [] => ""
  | x :: l' => match l' with [] => x | _ => sapp x (sapp ":" (join l')) end
  end.

Definition flat_name (q : hpath) : name := join (rev q).

(* the terminal of the flattened module that corresponds to a terminal of the hierarchy *)
Definition tr (n : hnode) : hnode :=
  match n with
  | HPort p i port => HPort [] (flat_name (i :: p)) port
  | HSig _ _ => n
  end.

(* executable reading used by the correspondence run: the fixed point reached after `fuel` steps *)
Definition hrep (t : hmod) (fuel : nat) (n : hnode) : hnode := Nat.iter fuel (hstep t) n.

Fixpoint hnames_eqb (a b : list name) : bool :=
  match a, b with
  | [], [] => true
  | x :: a', y :: b' => String.eqb x y && hnames_eqb a' b'
  | _, _ => false
  end.

Definition hnode_eqb (a b : hnode) : bool :=
  match a, b with
  | HSig p s, HSig q u => hnames_eqb p q && String.eqb s u
  | HPort p i x, HPort q j y => hnames_eqb p q && String.eqb i j && String.eqb x y
  | _, _ => false
  end.

Fixpoint depth_inst (x : hinst) : nat :=
  match x with
  | ILeaf _ _ _ _ => 0%nat
  | ISub _ _ _ body _ => S (fold_right (fun y a => Nat.max (depth_inst y) a) 0%nat body)
  end.
Definition depth (t : hmod) : nat := fold_right (fun y a => Nat.max (depth_inst y) a) 0%nat (h_body t).

(* a connection flatten does not support (slice, concatenation) somewhere in the hierarchy *)
Definition other_conn (c : name * hconn) : bool := match snd c with COther => true | CSig _ => false end.
Fixpoint has_other (x : hinst) : bool :=
  match x with
  | ILeaf _ _ _ c => existsb other_conn c
  | ISub _ _ _ body c => existsb other_conn c || existsb has_other body
  end.

(* every connection of the hierarchy is a whole signal declared in the module of its instance *)
Definition conn_declared (mp ms : list (name * Z)) (c : name * hconn) : bool :=
  match snd c with CSig s => has_key s ms || has_key s mp | COther => false end.

Fixpoint sup_inst (mp ms : list (name * Z)) (x : hinst) : bool :=
  match x with
  | ILeaf _ _ _ c => forallb (conn_declared mp ms) c
  | ISub _ ports sigs body c => forallb (conn_declared mp ms) c && forallb (sup_inst ports sigs) body
  end.

Definition supported (t : hmod) : bool := forallb (sup_inst (h_ports t) (h_sigs t)) (h_body t).

