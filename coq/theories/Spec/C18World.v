(* Spec/C18World.v — C18 with OBJECT IDENTITY: several containers sharing live Python objects.

   Round 1 (Spec/Namespace.v) quantified over histories in which every edit carries a FRESH object.  Real histories
   re-use objects: the same Signal is added again under the name it already holds (after `sig.vis` was flipped), is
   taken by another Module and taken back, is assigned under two names, wanders between a Module and a Bundle.
   What a container lists is then a SNAPSHOT of the object taken by `_add` (the view it was sorted into, the key);
   what the object itself reports (visibility, `name`, `_parent_module`, `_parent_bundle`) lives on the heap and can
   change behind the container's back.

   A world = containers (each an edit-state of Spec/Namespace.v or Model/Namespace.v: the definition is generic in
   the container state `S` and its step function) + a heap of live objects.  An edit of a container is the
   round-1 edit applied to the snapshot `snap x ob` of the live object; when it reaches the namespace (`bind_name`),
   the object takes the key as its name and the container as its parent (`adopt`). *)
Require Import Hdl21.Base.PyInt Hdl21.Spec.Namespace.
From Coq Require Import String Ascii.
Open Scope string_scope.
Open Scope Z_scope.

(* a container is identified by its class and a number *)
Definition cid := (ctr * Z)%type.
Definition ctr_eqb (a b : ctr) : bool :=
  match a, b with CModule, CModule | CBundle, CBundle => true | _, _ => false end.
Definition cid_eqb (a b : cid) : bool := ctr_eqb (fst a) (fst b) && (snd a =? snd b).

(* a live object: its class with (for a Signal) the CURRENT visibility, its `name`, `_parent_module`, `_parent_bundle` *)
Record obj := Ob { o_kind : vkind; o_name : option name; o_pmod : option Z; o_pbun : option Z }.
Definition heap := Z -> option obj.

Definition parent_of (c : ctr) (o : obj) : option Z :=
  match c with CModule => o_pmod o | CBundle => o_pbun o end.

(* `val.name = key; val._parent_module = module` (resp. `_parent_bundle`) at the end of `_add` *)
Definition adopt (ci : cid) (n : name) (o : obj) : obj :=
  match fst ci with
  | CModule => Ob (o_kind o) (Some n) (Some (snd ci)) (o_pbun o)
  | CBundle => Ob (o_kind o) (Some n) (o_pmod o) (Some (snd ci))
  end.

(* what a container sees of object x when it is handed to it *)
Definition snap (x : Z) (o : obj) : value := V x (o_kind o) (o_name o).

(* HDL objects have an assignable `name`; str / int / function ... values are no objects of this heap's business *)
Definition has_name_attr (k : vkind) : bool :=
  match k with KStr | KOther => false | _ => true end.

Inductive wop :=
| WNew (x : Z) (k : vkind) (nm : option name)    (* x = h.Signal(name=nm) / h.Port(..) / Leaf(..) / ... *)
| WSet (ci : cid) (n : name) (x : Z)             (* setattr(container ci, n, x) *)
| WAdd (ci : cid) (x : Z) (on : option name)     (* container ci .add(x, name=on) *)
| WVis (x : Z) (port : bool)                     (* x.vis = Visibility.PORT / INTERNAL  (the direction stays) *)
| WDir (x : Z) (d : pdir)                        (* x.direction = PortDir.NONE / INPUT / OUTPUT / INOUT  (the visibility stays) *)
| WName (x : Z) (on : option name)               (* x.name = on *)
| WDel (ci : cid) (n : name)                     (* delattr(container ci, n) *)
| WElab (ci : cid).                              (* h.elaborate(container ci) *)

(* the key under which a container edit stores its value WHEN it is accepted (None: it never reaches `_add`) *)
Definition bind_name (o : op) : option name :=
  match o with
  | SetAttr n _ => if is_private n || String.eqb n "name" then None else Some n
  | Add v (Some n) => match v_name v with None => Some n | Some _ => None end
  | Add v None => v_name v
  | Del _ | Elaborate => None
  end.

Definition is_some {A} (o : option A) : bool := match o with Some _ => true | None => false end.

Record world (S : Type) := W { w_st : cid -> S; w_heap : heap }.
Arguments W {S} _ _.
Arguments w_st {S} _ _.
Arguments w_heap {S} _ _.

Definition hupd (h : heap) (x : Z) (o : obj) : heap := fun y => if y =? x then Some o else h y.
Definition cupd {S} (f : cid -> S) (ci : cid) (s : S) : cid -> S := fun cj => if cid_eqb cj ci then s else f cj.

Section Generic.
  Variable S : Type.
  Variable stp : ctr -> S -> op -> option S.       (* one container edit: None = rejected *)

  (* an edit of container ci carrying object x (currently `ob`) *)
  Definition store (w : world S) (ci : cid) (o : op) (x : Z) (ob : obj) : option (world S) :=
    match stp (fst ci) (w_st w ci) o with
    | None => None
    | Some s' =>
        Some (W (cupd (w_st w) ci s')
                (match bind_name o with Some n => hupd (w_heap w) x (adopt ci n ob) | None => w_heap w end))
    end.

  Definition onctr (w : world S) (ci : cid) (o : op) : option (world S) :=
    match stp (fst ci) (w_st w ci) o with
    | None => None
    | Some s' => Some (W (cupd (w_st w) ci s') (w_heap w))
    end.

  (* None = the operation raises; the world is then unchanged (repaired code: fix C18-4) *)
  Definition wstep (w : world S) (o : wop) : option (world S) :=
    match o with
    | WNew x k nm =>
        match w_heap w x with
        | Some _ => None
        | None => Some (W (w_st w) (hupd (w_heap w) x (Ob k nm None None)))
        end
    | WSet ci n x =>
        match w_heap w x with Some ob => store w ci (SetAttr n (snap x ob)) x ob | None => None end
    | WAdd ci x on =>
        match w_heap w x with Some ob => store w ci (Add (snap x ob) on) x ob | None => None end
    | WVis x p =>
        match w_heap w x with
        | Some (Ob (KSignal _ d) nm pm pb) => Some (W (w_st w) (hupd (w_heap w) x (Ob (KSignal p d) nm pm pb)))
        | _ => None
        end
    | WDir x d =>
        match w_heap w x with
        | Some (Ob (KSignal p _) nm pm pb) => Some (W (w_st w) (hupd (w_heap w) x (Ob (KSignal p d) nm pm pb)))
        | _ => None
        end
    | WName x on =>
        match w_heap w x with
        | Some (Ob k _ pm pb) => if has_name_attr k then Some (W (w_st w) (hupd (w_heap w) x (Ob k on pm pb))) else None
        | None => None
        end
    | WDel ci n => onctr w ci (Del n)
    | WElab ci => onctr w ci Elaborate
    end.

  Definition wapply (w : world S) (o : wop) : world S :=
    match wstep w o with Some w' => w' | None => w end.

  Definition wfold (w : world S) (ops : list wop) : world S := fold_left wapply ops w.
End Generic.
Arguments store {S} _ _ _ _ _ _.
Arguments onctr {S} _ _ _ _.
Arguments wstep {S} _ _ _.
Arguments wapply {S} _ _ _.
Arguments wfold {S} _ _ _.

(* ------------------------------------------------------------------ the specification: containers are finite maps *)
Definition astp (c : ctr) (a : astate) (o : op) : option astate :=
  match spec_step c a o with Accepted a' => Some a' | Rejected => None end.

Definition aworld := world astate.
Definition aw_init : aworld := W (fun _ => a_init) (fun _ => None).
Definition wspec_step : aworld -> wop -> option aworld := wstep astp.
Definition wspec_apply : aworld -> wop -> aworld := wapply astp.
Definition wspec_run (ops : list wop) : aworld := wfold astp aw_init ops.

(* ------------------------------------------------------------------ what "in sync" means
   the container's entry (n, v) and the live object agree: the object still is of the kind (visibility) it was
   sorted by, carries the key as its name, and reports the container as its parent *)
Definition opt_name_eqb (a : option name) (b : name) : bool :=
  match a with Some x => String.eqb x b | None => false end.
Definition opt_z_eqb (a : option Z) (b : Z) : bool :=
  match a with Some x => x =? b | None => false end.

Definition dir_eqb (a b : pdir) : bool :=
  match a, b with DNone, DNone | DInput, DInput | DOutput, DOutput | DInout, DInout => true | _, _ => false end.

Definition kind_eqb (a b : vkind) : bool :=
  match a, b with
  | KSignal p d, KSignal q e => Bool.eqb p q && dir_eqb d e
  | KInstance, KInstance | KInstArray, KInstArray | KInstBundle, KInstBundle
  | KBundleInst, KBundleInst | KStr, KStr | KOther, KOther => true
  | _, _ => false
  end.

(* same Python class (a Signal stays a Signal whatever its visibility) *)
Definition same_class (a b : vkind) : bool :=
  match a, b with KSignal _ _, KSignal _ _ => true | _, _ => kind_eqb a b end.

Definition in_syncb (h : heap) (ci : cid) (n : name) (v : value) : bool :=
  match h (v_id v) with
  | Some ob => kind_eqb (o_kind ob) (v_kind v) && opt_name_eqb (o_name ob) n && opt_z_eqb (parent_of (fst ci) ob) (snd ci)
  | None => false
  end.

(* the object an operation mutates or hands to a container *)
Definition touches (o : wop) (x : Z) : bool :=
  match o with
  | WNew y _ _ | WSet _ _ y | WAdd _ y _ | WVis y _ | WDir y _ | WName y _ => y =? x
  | WDel _ _ | WElab _ => false
  end.

(* the (container, key) an operation would bind in heap h, if it is accepted *)
Definition wbind (h : heap) (o : wop) : option (cid * name) :=
  match o with
  | WSet ci n x => match h x with Some ob => option_map (pair ci) (bind_name (SetAttr n (snap x ob))) | None => None end
  | WAdd ci x on => match h x with Some ob => option_map (pair ci) (bind_name (Add (snap x ob) on)) | None => None end
  | _ => None
  end.

Definition binds_here (h : heap) (o : wop) (ci : cid) (n : name) : bool :=
  match wbind h o with Some (cj, m) => cid_eqb cj ci && String.eqb m n | None => false end.
