(* Spec/C13Spec.v — what "parameter values reach the package unchanged" means (property C13), written on the VALUES,
   independently of the exporter's algorithm and of Hdl21's own tables.

   * SI prefixes: the names of vlsir.SIPrefix mean the powers of ten of the SI brochure (hand-written here; the code's
     own tables are the generated ones and are checked against this one).
   * A reader of the package takes the numeric part of a prefixed number to be the integer (int64 variant) or the
     decimal the string denotes (string variant) — `num_dec`; the numeric-string reading is `numeric`, the finite
     numeric strings of Python's decimal module (validated against CPython on every run).
   * `expected kind v` is what must be observable for a value `v` given to a parameter of kind `kind`
     (0/1: Scalar-typed, converted; 2/3/4: stored as given). *)
From Coq Require Import String Ascii.
Require Import Hdl21.Base.PyInt Hdl21.Base.Dec Hdl21.Model.Prefixed Hdl21.Model.C13Params.
Open Scope list_scope.
Open Scope Z_scope.
Notation length := List.length.

Definition si_table : list (string * Z) :=
  [("YOCTO", -24); ("ZEPTO", -21); ("ATTO", -18); ("FEMTO", -15); ("PICO", -12); ("NANO", -9); ("MICRO", -6);
   ("MILLI", -3); ("CENTI", -2); ("DECI", -1); ("UNIT", 0); ("DECA", 1); ("HECTO", 2); ("KILO", 3); ("MEGA", 6);
   ("GIGA", 9); ("TERA", 12); ("PETA", 15); ("EXA", 18); ("ZETTA", 21); ("YOTTA", 24)]%string.
Definition si_exponent (n : string) : option Z := sassoc n si_table.

(* the documented VLSIR element of each ideal primitive, and the documented names of the pulse source's parameters
   (vlsirtools.primitives: vpulse v1 "Initial Value", v2 "Pulse Value", td "Delay Time", tr "Rise Time", tf "Fall Time",
   tpw "Pulse Width", tper "Period"; hdl21.primitives.PulseVoltageSourceParams: delay, v1, v2, period, rise, fall, width) *)
Definition ideal_doc : list (string * string) :=
  [("DcVoltageSource", "vdc"); ("PulseVoltageSource", "vpulse"); ("SineVoltageSource", "vsin"); ("CurrentSource", "isource");
   ("IdealResistor", "resistor"); ("IdealCapacitor", "capacitor"); ("IdealInductor", "inductor");
   ("VoltageControlledVoltageSource", "vcvs"); ("CurrentControlledVoltageSource", "ccvs");
   ("VoltageControlledCurrentSource", "vccs"); ("CurrentControlledCurrentSource", "cccs")]%string.
Definition pulse_doc : list (string * string) :=        (* Hdl21 field -> VLSIR parameter *)
  [("delay", "td"); ("v1", "v1"); ("v2", "v2"); ("period", "tper"); ("rise", "tr"); ("fall", "tf"); ("width", "tpw")]%string.

(* numeric strings and their decimal value *)
Definition numeric (s : str) : option dec := parse_numeric s.

Definition num_dec (n : pnum) : option dec :=
  match n with NInt64 z => Some (of_int z 0) | NString s => numeric s | NDouble _ => None end.

Definition dec_identical (a b : dec) : bool :=
  Bool.eqb (dsign a) (dsign b) && N.eqb (dcoef a) (dcoef b) && (dexp a =? dexp b).

Inductive expect :=
| XOmit                          (* None: the parameter is left out *)
| XLiteral (s : str)             (* a literal with exactly this text *)
| XPrefixed (d : dec) (q : Z)    (* a prefixed number: this prefix, a number of the same value *)
| XValue (d : dec)               (* a prefixed number denoting this value (number * 10^prefix) *)
| XInt (z : Z)
| XDouble (bits : Z)
| XDecText (d : dec)             (* a literal whose text reads back as exactly this Decimal *)
| XFree.                         (* outside the property's quantifier: no requirement *)

Definition scalar_kind (k : Z) : bool := (k =? 0) || (k =? 1).

Definition expected (kind : Z) (v : value) : expect :=
  if scalar_kind kind then
    match v with
    | VNone => if kind =? 1 then XOmit else XFree
    | VStr s => match numeric s with Some d => XValue d | None => XLiteral s end
    | VInt z => XValue (of_int z 0)
    | VDecimal d => XValue d
    | VFloat b r => if float_finite b then match numeric r with Some d => XValue d | None => XFree end else XFree
    | VPrefixed p => XPrefixed (number p) (prefix p)
    | VLit s => XLiteral s
    | VEnum _ | VOther => XFree
    end
  else
    match v with
    | VNone => XOmit
    | VStr s => XLiteral s
    | VEnum (Some s) => XLiteral s
    | VEnum None => XFree
    | VLit s => XLiteral s
    | VPrefixed p => XPrefixed (number p) (prefix p)
    | VDecimal d => XDecText d
    | VInt z => XInt z
    | VFloat b _ => XDouble b
    | VOther => XFree
    end.

(* does the exported value `pv` show what is expected? *)
Definition shows (x : expect) (pv : pvalue) : bool :=
  match x, pv with
  | XLiteral s, PVLiteral t => str_eqb s t
  | XPrefixed d q, PVPrefixed n pre =>
      match num_dec n, si_exponent pre with Some d', Some q' => deqb d' d && (q' =? q) | _, _ => false end
  | XValue d, PVPrefixed n pre =>
      match num_dec n, si_exponent pre with Some d', Some q' => deqb (dscaleb d' q') d | _, _ => false end
  | XInt z, PVInt64 z' => (z =? z') && int64_ok z'
  | XDouble b, PVDouble b' => b =? b'
  | XDecText d, PVLiteral t => match numeric t with Some d' => dec_identical d' d | None => false end
  | _, _ => false
  end.

(* a value the package format cannot hold (may only be refused, never altered): an int beyond 64 bits *)
Definition unrepresentable (x : expect) : bool := match x with XInt z => negb (int64_ok z) | _ => false end.
Definition is_free (x : expect) : bool := match x with XFree => true | _ => false end.
Definition is_omit (x : expect) : bool := match x with XOmit => true | _ => false end.
