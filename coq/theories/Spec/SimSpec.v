(* Spec/SimSpec.v — C17: what "the exported SimInput is complete and faithful" means.
   Abstract simulation inputs (hdl21.sim.data) and abstract vlsir.spice.SimInput messages, the
   "nearest double of a decimal" predicate, and the boolean specification [spec_all] that the
   correspondence run evaluates on the implementation's outputs.  Nothing here follows the
   exporter's algorithm: the specification is a pointwise relation between the attribute list and
   the three output lists. *)
From Coq Require Import String Ascii.
Require Import Hdl21.Base.PyInt.

(* ------------------------------------------------------------------------------------------ *)
(* IEEE-754 binary64 values and "d is the double nearest to m * 10^e" (round-half-even)        *)
(* ------------------------------------------------------------------------------------------ *)
Inductive dbl := DFin (neg : bool) (M E : Z) | DInf (neg : bool) | DNan.   (* DFin: (-1)^neg * M * 2^E *)

Definition scale10 (m e : Z) : Z * Z := if 0 <=? e then (m * 10 ^ e, 1) else (m, 10 ^ (- e)).
Definition scale2 (c k : Z) : Z * Z := if 0 <=? k then (c * 2 ^ k, 1) else (c, 2 ^ (- k)).
(* exact comparison of m*10^e with c*2^k *)
Definition cmp_dec_bin (m e c k : Z) : comparison :=
  let '(a, b) := scale10 m e in let '(p, q) := scale2 c k in (a * q ?= p * b).

Definition canonical (M E : Z) : bool :=
  ((M =? 0) && (E =? -1074)) ||
  ((2 ^ 52 <=? M) && (M <? 2 ^ 53) && (-1074 <=? E) && (E <=? 971)) ||
  ((0 <? M) && (M <? 2 ^ 52) && (E =? -1074)).

(* m >= 0.  M*2^E is the binary64 nearest to m*10^e: the value lies between the midpoints to the
   neighbouring doubles, a midpoint itself only when M is even. *)
Definition near_abs (m e M E : Z) : bool :=
  let hi := cmp_dec_bin m e (2 * M + 1) (E - 1) in
  let lo := if (M =? 2 ^ 52) && (-1074 <? E) then cmp_dec_bin m e (4 * M - 1) (E - 2)
            else cmp_dec_bin m e (2 * M - 1) (E - 1) in
  canonical M E &&
  match hi with Lt => true | Eq => Z.even M | Gt => false end &&
  match lo with Gt => true | Eq => Z.even M | Lt => false end.

Definition nearest_double (m e : Z) (d : dbl) : bool :=
  match d with
  | DFin neg M E => Bool.eqb neg (m <? 0) && near_abs (Z.abs m) e M E
  | DInf neg => Bool.eqb neg (m <? 0) &&
                match cmp_dec_bin (Z.abs m) e (2 ^ 54 - 1) 970 with Lt => false | _ => true end
  | DNan => false
  end.

Definition dbl_eqb (a b : dbl) : bool :=
  match a, b with
  | DFin n M E, DFin n' M' E' => Bool.eqb n n' && (M =? M') && (E =? E')
  | DInf n, DInf n' => Bool.eqb n n'
  | _, _ => false
  end.

(* value equality of two decimals m*10^e *)
Definition dec_eqb (m e m' e' : Z) : bool :=
  if e <=? e' then m =? m' * 10 ^ (e' - e) else m * 10 ^ (e - e') =? m'.

(* ------------------------------------------------------------------------------------------ *)
(* small helpers                                                                               *)
(* ------------------------------------------------------------------------------------------ *)
Definition forall2b {A B} (f : A -> B -> bool) : list A -> list B -> bool :=
  fix go l1 l2 := match l1, l2 with
                  | [], [] => true
                  | a :: l1', b :: l2' => f a b && go l1' l2'
                  | _, _ => false
                  end.
Definition ostr_eqb (a b : option string) : bool :=
  match a, b with Some x, Some y => String.eqb x y | None, None => true | _, _ => false end.
Definition strs_eqb : list string -> list string -> bool := forall2b String.eqb.
Definition mem_str (s : string) (l : list string) : bool := existsb (String.eqb s) l.
Fixpoint nodupb (l : list string) : bool :=
  match l with [] => true | x :: xs => negb (mem_str x xs) && nodupb xs end.
Definition count_str (s : string) (l : list string) : Z := zlen (filter (String.eqb s) l).
Fixpoint join (sep : string) (l : list string) : string :=
  match l with
  | [] => EmptyString
  | [x] => x
  | x :: xs => String.append x (String.append sep (join sep xs))
  end.

(* ------------------------------------------------------------------------------------------ *)
(* abstract hdl21.sim.data                                                                     *)
(* ------------------------------------------------------------------------------------------ *)
(* a Scalar: Prefixed (number = nm*10^ne, prefix = 10^pe) or Literal *)
Inductive num := NPre (nm ne pe : Z) | NLit (s : string).
Inductive sweep := SwLin (a b c : num) | SwLog (a b : num) (n : Z) | SwPts (l : list num).
Inductive svar := VStr (s : string) | VPar (n : option string).       (* a name, or a Param object *)
(* Noise.output: tuple of connectables (None = an item without a name), one connectable, a string, anything else *)
Inductive nout := OTuple (l : list (option string)) | OConn (s : string) | OStr (s : string) | OOther.
Inductive nsrc := SInst (s : string) | SStr (s : string).
Inductive akind := KOp | KDc | KAc | KTran | KNoise | KSweep | KMonte | KCustom.

Inductive analysis :=
| AOp (name : option string)
| ADc (v : svar) (sw : sweep) (name : option string)
| AAc (a b : num) (n : Z) (name : option string)
| ATran (tstop : num) (tstep : option num) (name : option string)
| ANoise (o : nout) (src : nsrc) (a b : num) (n : Z) (name : option string)
| ASweep (inner : list analysis) (v : svar) (sw : sweep) (name : option string)
| AMonte (inner : list analysis) (npts : Z) (name : option string)
| ACustom (cmd : string) (name : option string).

Inductive smode := MNone | MAll | MSelected.
Inductive starg := TMode (m : smode) | TSig (s : string) | TSigs (l : list string)
                 | TName (s : string) | TNames (l : list string).
Inductive meas_an := MStr (s : string) | MAn (k : akind).
Inductive oval := VBool (b : bool) | VNum (x : num).      (* Options.value: bool | Scalar *)
Inductive control :=
| CInclude (path : string)
| CLib (path sec : string)
| CSave (t : starg)
| CMeas (an : meas_an) (expr : string) (name : option string)
| CParam (name : option string) (v : num)
| CLiteral (s : string).
Inductive attr := AtAn (a : analysis) | AtCtrl (c : control) | AtOpt (name : string) (v : oval).

(* module hierarchy below a testbench: identity, exported (qualified) name, instantiated modules *)
Inductive hmod := HMod (id : N) (name : string) (kids : list hmod).
Definition mod_id (m : hmod) : N := match m with HMod i _ _ => i end.
Definition mod_name (m : hmod) : string := match m with HMod _ n _ => n end.
(* testbench: hierarchy; widths of the Signal ports declared on it; widths of its ports once elaborated *)
Record tbdesc := { tb_mod : hmod; tb_pre_ports : list Z; tb_ports : list Z }.
Record sim := { s_tb : tbdesc; s_attrs : list attr }.

(* ------------------------------------------------------------------------------------------ *)
(* abstract vlsir.spice.SimInput                                                               *)
(* ------------------------------------------------------------------------------------------ *)
(* a double field: FDec m e denotes "the double nearest to m*10^e" (what the model produces);
   FDbl d is a concrete double (what the implementation produced) *)
Inductive fnum := FDec (m e : Z) | FDbl (d : dbl).
Inductive osweep := OLin (a b c : fnum) | OLog (a b n : fnum) | OPts (l : list fnum).
Inductive oan :=
| OOp (name : string)
| ODc (name indep : string) (sw : osweep)
| OAc (name : string) (a b : fnum) (n : Z)
| OTran (name : string) (tstop tstep : fnum)
| ONoise (name p n src : string) (a b : fnum) (npts : Z)
| OSweep (name var : string) (sw : osweep) (an : list oan)
| OMonte (name : string) (npts seed : Z) (an : list oan)
| OCustom (name cmd : string).
(* vlsir.ParamValue: prefixed numbers by their exact value m*10^e *)
Inductive pval := PDec (m e : Z) | PLit (s : string) | PInt (z : Z) | PBool (b : bool) | POther.
Inductive octrl :=
| XInclude (path : string)
| XLib (path sec : string)
| XSaveMode (m : smode)
| XSaveSig (s : string)
| XMeas (tp name expr : string)
| XParam (name : string) (v : pval)
| XLiteral (s : string).
Record siminput := { o_top : string; o_pkg : list (N * string);
                     o_opts : list (string * pval); o_an : list oan; o_ctrls : list octrl }.

(* ------------------------------------------------------------------------------------------ *)
(* the specification                                                                           *)
(* ------------------------------------------------------------------------------------------ *)
Definition user_name (n : option string) : option string :=      (* None and "" both mean "unnamed" *)
  match n with Some s => if String.eqb s EmptyString then None else Some s | None => None end.
Definition name_ok (n : option string) (nm : string) : bool :=
  match user_name n with Some s => String.eqb s nm | None => true end.
Definition oname (n : option string) : string := match n with Some s => s | None => EmptyString end.
Definition var_name (v : svar) : string := match v with VStr s => s | VPar n => oname n end.

Definition kind_name (k : akind) : string :=      (* AnalysisType values; cross-checked with the generated table *)
  match k with KOp => "op" | KDc => "dc" | KAc => "ac" | KTran => "tran" | KNoise => "noise"
             | KSweep => "sweep" | KMonte => "monte" | KCustom => "custom" end%string.

Definition ans_of (l : list attr) : list analysis :=
  flat_map (fun a => match a with AtAn x => [x] | _ => [] end) l.
Definition ctrls_of (l : list attr) : list control :=
  flat_map (fun a => match a with AtCtrl x => [x] | _ => [] end) l.
Definition opts_of (l : list attr) : list (string * oval) :=
  flat_map (fun a => match a with AtOpt n v => [(n, v)] | _ => [] end) l.

Definition in_u64 (z : Z) : bool := (0 <=? z) && (z <? 2 ^ 64).
Definition in_i64 (z : Z) : bool := (- 2 ^ 63 <=? z) && (z <? 2 ^ 63).

Section WithFloatRelation.
(* frel m e f : the double field f carries the value m*10^e *)
Variable frel : Z -> Z -> fnum -> bool.

Definition num_ok (x : num) (f : fnum) : bool :=
  match x with NPre nm ne pe => frel nm (ne + pe) f | NLit _ => false end.
Definition onum_ok (x : option num) (f : fnum) : bool :=
  match x with Some y => num_ok y f | None => frel 0 0 f end.
Definition sweep_ok (s : sweep) (o : osweep) : bool :=
  match s, o with
  | SwLin a b c, OLin a' b' c' => num_ok a a' && num_ok b b' && num_ok c c'
  | SwLog a b n, OLog a' b' n' => num_ok a a' && num_ok b b' && frel n 0 n'
  | SwPts l, OPts l' => forall2b num_ok l l'
  | _, _ => false
  end.
Definition nout_ok (o : nout) (p n : string) : bool :=
  match o with
  | OTuple [Some a; Some b] => String.eqb a p && String.eqb b n
  | OConn s | OStr s => String.eqb s p && String.eqb n EmptyString
  | _ => false
  end.
Definition nsrc_name (s : nsrc) : string := match s with SInst x | SStr x => x end.

(* every field of an analysis except an automatically chosen name; inner analyses recursively *)
Fixpoint an_ok (a : analysis) (o : oan) : bool :=
  match a, o with
  | AOp n, OOp nm => name_ok n nm
  | ADc v sw n, ODc nm indep osw => name_ok n nm && String.eqb indep (var_name v) && sweep_ok sw osw
  | AAc a b k n, OAc nm a' b' k' => name_ok n nm && num_ok a a' && num_ok b b' && (k =? k')
  | ATran t ts n, OTran nm t' ts' => name_ok n nm && num_ok t t' && onum_ok ts ts'
  | ANoise out src a b k n, ONoise nm p q s a' b' k' =>
      name_ok n nm && nout_ok out p q && String.eqb s (nsrc_name src) && num_ok a a' && num_ok b b' && (k =? k')
  | ASweep inner v sw n, OSweep nm var osw oans =>
      name_ok n nm && String.eqb var (var_name v) && sweep_ok sw osw && forall2b an_ok inner oans
  | AMonte inner k n, OMonte nm k' _ oans => name_ok n nm && (k =? k') && forall2b an_ok inner oans
  | ACustom cmd n, OCustom nm cmd' => name_ok n nm && String.eqb cmd cmd'
  | _, _ => false
  end.

Definition pval_num_ok (x : num) (p : pval) : bool :=
  match x, p with
  | NPre nm ne pe, PDec m e => dec_eqb nm (ne + pe) m e
  | NLit s, PLit s' => String.eqb s s'
  | _, _ => false
  end.
Definition oval_ok (v : oval) (p : pval) : bool :=
  match v, p with
  | VBool b, PBool b' => Bool.eqb b b'
  | VBool b, PInt z => z =? (if b then 1 else 0)
  | VNum x, _ => pval_num_ok x p
  | _, _ => false
  end.
Definition starg_ok (t : starg) (c : octrl) : bool :=
  match t, c with
  | TMode m, XSaveMode m' => match m, m' with MNone, MNone | MAll, MAll | MSelected, MSelected => true | _, _ => false end
  | TSig s, XSaveSig s' | TName s, XSaveSig s' => String.eqb s s'
  | TSigs l, XSaveSig s' | TNames l, XSaveSig s' => String.eqb (join "," l) s'
  | _, _ => false
  end.
Definition ctrl_ok (c : control) (o : octrl) : bool :=
  match c, o with
  | CInclude p, XInclude p' => String.eqb p p'
  | CLib p s, XLib p' s' => String.eqb p p' && String.eqb s s'
  | CSave t, _ => starg_ok t o
  | CMeas an e n, XMeas tp nm e' =>
      String.eqb tp (match an with MStr s => s | MAn k => kind_name k end) && String.eqb nm (oname n) && String.eqb e e'
  | CParam n v, XParam nm p => String.eqb nm (oname n) && pval_num_ok v p
  | CLiteral s, XLiteral s' => String.eqb s s'
  | _, _ => false
  end.
Definition opt_ok (x : string * oval) (o : string * pval) : bool :=
  String.eqb (fst x) (fst o) && oval_ok (snd x) (snd o).
End WithFloatRelation.

(* the names the exporter had to invent: output names at the unnamed positions, outer before inner *)
Definition oan_name (o : oan) : string :=
  match o with OOp n | ODc n _ _ | OAc n _ _ _ | OTran n _ _ | ONoise n _ _ _ _ _ _ | OSweep n _ _ _
             | OMonte n _ _ _ | OCustom n _ => n end.
Definition an_name (a : analysis) : option string :=
  match a with AOp n | ADc _ _ n | AAc _ _ _ n | ATran _ _ n | ANoise _ _ _ _ _ n | ASweep _ _ _ n
             | AMonte _ _ n | ACustom _ n => n end.
Definition map2cat {A B C} (f : A -> B -> list C) : list A -> list B -> list C :=
  fix go l1 l2 := match l1, l2 with a :: l1', b :: l2' => f a b ++ go l1' l2' | _, _ => [] end.
Fixpoint invented (a : analysis) (o : oan) : list string :=
  (match user_name (an_name a) with None => [oan_name o] | Some _ => [] end) ++
  match a, o with
  | ASweep inner _ _ _, OSweep _ _ _ oans => map2cat invented inner oans
  | AMonte inner _ _, OMonte _ _ _ oans => map2cat invented inner oans
  | _, _ => []
  end.
Fixpoint an_count (a : analysis) : Z :=
  match a with
  | ASweep inner _ _ _ | AMonte inner _ _ => 1 + fold_right (fun x acc => an_count x + acc) 0 inner
  | _ => 1
  end.
Fixpoint oan_count (o : oan) : Z :=
  match o with
  | OSweep _ _ _ l | OMonte _ _ _ l => 1 + fold_right (fun x acc => oan_count x + acc) 0 l
  | _ => 1
  end.

(* testbench interface: exactly one port, of width one *)
Definition one_scalar_port (ports : list Z) : bool := match ports with [w] => w =? 1 | _ => false end.

Definition pkg_names (p : list (N * string)) : list string := map snd p.
Definition tb_rel (t : tbdesc) (o : siminput) : bool :=
  String.eqb (o_top o) (mod_name (tb_mod t)) &&
  (count_str (o_top o) (pkg_names (o_pkg o)) =? 1) &&
  existsb (fun e => N.eqb (fst e) (mod_id (tb_mod t)) && String.eqb (snd e) (o_top o)) (o_pkg o).

(* [rel frel s o]: o is a complete and faithful export of s *)
Definition rel (frel : Z -> Z -> fnum -> bool) (s : sim) (o : siminput) : bool :=
  tb_rel (s_tb s) o &&
  forall2b (an_ok frel) (ans_of (s_attrs s)) (o_an o) &&
  forall2b ctrl_ok (ctrls_of (s_attrs s)) (o_ctrls o) &&
  forall2b opt_ok (opts_of (s_attrs s)) (o_opts o) &&
  nodupb (map2cat invented (ans_of (s_attrs s)) (o_an o)).

(* inputs every exporter must accept: well-formed testbench and values the schema can carry *)
Definition num_fin (x : num) : bool := match x with NPre _ _ _ => true | NLit _ => false end.
Definition sweep_fin (s : sweep) : bool :=
  match s with SwLin a b c => num_fin a && num_fin b && num_fin c | SwLog a b _ => num_fin a && num_fin b
             | SwPts l => forallb num_fin l end.
Fixpoint an_fin (a : analysis) : bool :=
  match a with
  | AOp _ | ACustom _ _ => true
  | ADc _ sw _ => sweep_fin sw
  | AAc a b n _ => num_fin a && num_fin b && in_u64 n
  | ATran t ts _ => num_fin t && match ts with Some x => num_fin x | None => true end
  | ANoise o _ a b n _ => num_fin a && num_fin b && in_u64 n &&
                          match o with OTuple [Some _; Some _] | OConn _ | OStr _ => true | _ => false end
  | ASweep inner _ sw _ => sweep_fin sw && forallb an_fin inner
  | AMonte inner n _ => in_i64 n && forallb an_fin inner
  end.
(* every Prefixed can be carried: an integral number inside 64 bits as int64, any other number - since the repair of
   export_prefixed (integral values beyond 64 bits take the string variant instead of raising) - as its exact decimal text *)
Definition pnum_fin (x : num) : bool :=
  match x with
  | NPre nm ne pe => true
  | NLit _ => true
  end.
(* vlsir.spice.Save.SaveMode has the members NONE and ALL only (Hdl21Gen.C17Tables.vlsir_save_modes): the schema
   cannot carry SaveMode.SELECTED *)
Definition ctrl_fin (c : control) : bool :=
  match c with CParam _ v => pnum_fin v | CSave (TMode MSelected) => false | _ => true end.
Definition attr_fin (a : attr) : bool :=
  match a with AtAn x => an_fin x | AtCtrl c => ctrl_fin c
             | AtOpt _ (VNum x) => pnum_fin x | AtOpt _ (VBool _) => true end.

(* module names below the testbenches: different modules must carry different names *)
Fixpoint flat_mods (m : hmod) : list (N * string) :=
  match m with HMod i n kids => (i, n) :: flat_map flat_mods kids end.
Definition names_consistent (l : list (N * string)) : bool :=
  forallb (fun a => forallb (fun b => Bool.eqb (N.eqb (fst a) (fst b)) (String.eqb (snd a) (snd b))) l) l.

(* representation invariants of the abstract hierarchy (an hmod is the unfolding of a graph of Python Module
   objects): an identity stands for one object, hence carries one name, and no Module instantiates itself *)
Definition ids_functional (l : list (N * string)) : bool :=
  forallb (fun a => forallb (fun b => implb (N.eqb (fst a) (fst b)) (String.eqb (snd a) (snd b))) l) l.
Fixpoint acyclic (m : hmod) : bool :=
  match m with
  | HMod i _ kids => negb (existsb (N.eqb i) (map fst (flat_map flat_mods kids))) && forallb acyclic kids
  end.
Definition hier_wf (l : list sim) : bool :=
  ids_functional (flat_map (fun s => flat_mods (tb_mod (s_tb s))) l) && forallb (fun s => acyclic (tb_mod (s_tb s))) l.

Definition must_accept (s : sim) : bool :=
  one_scalar_port (tb_ports (s_tb s)) && forallb attr_fin (s_attrs s).
Definition must_accept_all (l : list sim) : bool :=
  forallb must_accept l && names_consistent (flat_map (fun s => flat_mods (tb_mod (s_tb s))) l).

(* the whole property on one export call (a Sim or a list of Sims exported together):
   None = the call was rejected *)
Definition spec_all (frel : Z -> Z -> fnum -> bool) (l : list sim) (r : option (list siminput)) : bool :=
  match r with
  | None => negb (must_accept_all l)
  | Some outs => forallb (fun s => one_scalar_port (tb_ports (s_tb s))) l && forall2b (rel frel) l outs
  end.

(* the float relation of the property itself: the nearest double *)
Definition frel_nearest (m e : Z) (f : fnum) : bool :=
  match f with FDec m' e' => dec_eqb m e m' e' | FDbl d => nearest_double m e d end.
