(* Spec/C02BundleWf.v — validity of designs that use Bundles (C02's bundle fault classes).
   The shared design language (Base/Design.v) has no Bundles; this is its C02-only extension:
   Bundle types (flat: named Signals with widths), Bundle-valued ports, Bundle instances,
   references to Bundle members inside connection expressions, anonymous Bundles, and
   Instance Bundles (h.Pair, tied to the built-in two-member Bundle at index 0, h.Diff).
   One named error per fault class; the definition is independent of the elaborator's algorithm. *)
Require Import Hdl21.Base.PyInt Hdl21.Spec.PySlice Hdl21.Model.Slice Hdl21.Model.Resolve Hdl21.Base.Design
               Hdl21.Spec.WfDesign.

Inductive bleaf := BLSig (s : name) | BLMem (b m : name).

Inductive bconn :=
| BCx (e : sx)                         (* a sliceable expression *)
| BCb (b : name)                       (* a Bundle instance of the module, by name *)
| BCanon (ms : list (name * sx)).      (* an anonymous Bundle: member name -> expression *)

Inductive btarget := BTMod (k : nat) | BTDev (ports : list (name * Z)).

Record binst := { bi_name : name; bi_n : Z (* 0 single; n >= 1 array *); bi_pair : bool (* h.Pair *);
                  bi_of : btarget; bi_conns : list (name * bconn) }.

Record bmodule := { bm_name : name; bm_ports : list (name * Z); bm_bports : list (name * nat);
                    bm_sigs : list (name * Z); bm_binsts : list (name * nat);
                    bm_insts : list binst; bm_leaves : list (N * bleaf) }.

Definition bundle_ty := list (name * Z).
Record bdesign := { bd_bundles : list (name * bundle_ty); bd_mods : list bmodule; bd_top : nat }.

Definition bundle_of (d : bdesign) (k : nat) : result bundle_ty :=
  b <- ofopt EMissing (nth_error (bd_bundles d) k) ;; Ok (snd b).

(* the Bundle type of a Bundle instance or Bundle-valued port of the module *)
Definition binst_ty (m : bmodule) (b : name) : option nat :=
  match assoc b (bm_bports m) with Some k => Some k | None => assoc b (bm_binsts m) end.

Definition bsig_width (m : bmodule) (s : name) : option Z :=
  match assoc s (bm_ports m) with Some w => Some w | None => assoc s (bm_sigs m) end.

Definition bwf_leaf (d : bdesign) (m : bmodule) (lw : N * Z) : result unit :=
  lf <- ofopt EOrphan (assocN (fst lw) (bm_leaves m)) ;;
  match lf with
  | BLSig s => w <- ofopt EOrphan (bsig_width m s) ;; check (w =? snd lw) EWidth
  | BLMem b mem => k <- ofopt EOrphan (binst_ty m b) ;; ty <- bundle_of d k ;;
                   w <- ofopt EMissing (assoc mem ty) ;; check (w =? snd lw) EWidth
  end.

(* an expression on a port of width w of an instance (array of n): leaves declared, indices valid,
   width w, or n*w on an array *)
Definition bwf_expr (d : bdesign) (m : bmodule) (n w : Z) (e : sx) : result unit :=
  _ <- all_ok (bwf_leaf d m) (sx_leaves e) ;;
  cw <- xwidth e ;;
  check ((cw =? w) || ((0 <? n) && (cw =? n * w))) EWidth.

(* structural compatibility of the port's Bundle type `a` with the connected Bundle's type `b`: same member names,
   same widths; on an array of n instances a member may also be n times as wide (one section per element),
   exactly as for a plain Signal connection *)
Definition ty_compat (n : Z) (a b : bundle_ty) : bool :=
  (Nat.eqb (Datatypes.length a) (Datatypes.length b)) &&
  forallb (fun mw => match assoc (fst mw) b with
                     | Some w => (w =? snd mw) || ((0 <? n) && (w =? n * snd mw))
                     | None => false end) a.

Definition bwf_anon (d : bdesign) (m : bmodule) (n : Z) (ty : bundle_ty) (ms : list (name * sx)) : result unit :=
  _ <- check (nodup_names (map fst ms)) EExtra ;;
  _ <- all_ok (fun me => match assoc (fst me) ty with Some _ => Ok tt | None => Error EExtra end) ms ;;
  all_ok (fun mw => e <- ofopt EMissing (assoc (fst mw) ms) ;; bwf_expr d m n (snd mw) e) ty.

Definition bwf_conn (d : bdesign) (m : bmodule) (x : binst) (ports : list (name * Z)) (bports : list (name * nat))
                    (c : name * bconn) : result unit :=
  match assoc (fst c) ports, assoc (fst c) bports with
  | Some w, _ =>
      if bi_pair x then
        match snd c with
        | BCx e => bwf_expr d m 0 w e
        | BCb b => k <- ofopt EOrphan (binst_ty m b) ;; _ <- check (Nat.eqb k 0) EBadKind ;; check (w =? 1) EWidth
        | BCanon ms => ty <- bundle_of d 0 ;; bwf_anon d m 0 (map (fun mw => (fst mw, w)) ty) ms
        end
      else
        match snd c with
        | BCx e => bwf_expr d m (bi_n x) w e
        | _ => Error EBadKind
        end
  | None, Some k =>
      ty <- bundle_of d k ;;
      if bi_pair x then Error EBadKind else
      match snd c with
      | BCx _ => Error EBadKind
      | BCb b => k' <- ofopt EOrphan (binst_ty m b) ;; ty' <- bundle_of d k' ;; check (ty_compat (bi_n x) ty ty') EWidth
      | BCanon ms => bwf_anon d m (bi_n x) ty ms
      end
  | None, None => Error EExtra
  end.

Definition btarget_ports (d : bdesign) (t : btarget) : result (list (name * Z) * list (name * nat)) :=
  match t with
  | BTMod k => m <- ofopt EMissing (nth_error (bd_mods d) k) ;; Ok (bm_ports m, bm_bports m)
  | BTDev ps => Ok (ps, [])
  end.

Definition bwf_inst (d : bdesign) (self : nat) (m : bmodule) (x : binst) : result unit :=
  _ <- match bi_of x with BTMod k => check (k <? self)%nat ECycle | BTDev _ => Ok tt end ;;
  pb <- btarget_ports d (bi_of x) ;;
  let '(ports, bports) := pb in
  _ <- check (negb (bi_pair x) || match bports with [] => true | _ => false end) EBadKind ;;
  _ <- check (negb (bi_pair x) || (bi_n x =? 0)) EBadKind ;;
  _ <- check (nodup_names (map fst (bi_conns x))) EExtra ;;
  _ <- all_ok (bwf_conn d m x ports bports) (bi_conns x) ;;
  all_ok (fun p => match assoc p (bi_conns x) with Some _ => Ok tt | None => Error EMissing end)
         (map fst ports ++ map fst bports).

Definition bwf_module (d : bdesign) (self : nat) (m : bmodule) : result unit :=
  _ <- check (negb (String.eqb (bm_name m) "")) EName ;;
  _ <- check (nodup_names (map fst (bm_ports m) ++ map fst (bm_bports m) ++ map fst (bm_sigs m) ++
                           map fst (bm_binsts m) ++ map bi_name (bm_insts m))) EName ;;
  _ <- check (forallb (fun pw => 1 <=? snd pw) (bm_ports m ++ bm_sigs m)) EWidth ;;
  _ <- all_ok (fun bk => _ <- bundle_of d (snd bk) ;; Ok tt) (bm_bports m ++ bm_binsts m) ;;
  all_ok (bwf_inst d self m) (bm_insts m).

Fixpoint bwf_mods (d : bdesign) (k : nat) (ms : list bmodule) : result unit :=
  match ms with
  | [] => Ok tt
  | m :: ms' => _ <- bwf_module d k m ;; bwf_mods d (S k) ms'
  end.

Definition bwf_design (d : bdesign) : result unit :=
  _ <- check (bd_top d <? Datatypes.length (bd_mods d))%nat EMissing ;;
  _ <- check (nodup_names (map bm_name (bd_mods d))) EName ;;
  _ <- check (forallb (fun b => nodup_names (map fst (snd b)) && forallb (fun mw => 1 <=? snd mw) (snd b)) (bd_bundles d)) EName ;;
  bwf_mods d 0 (bd_mods d).
