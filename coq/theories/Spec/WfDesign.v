(* Spec/WfDesign.v — which written designs are valid (C01's hypothesis, C02's fault classes).
   One named error per class of fault of the C02 statement. *)
Require Import Hdl21.Base.PyInt Hdl21.Spec.PySlice Hdl21.Model.Slice Hdl21.Model.Resolve Hdl21.Base.Design.

Fixpoint sx_leaves (x : sx) : list (N * Z) :=
  match x with
  | XSig id w => [(id, w)]
  | XSlice p _ => sx_leaves p
  | XConcat ps => concat (map sx_leaves ps)
  end.

Fixpoint nodup_names (l : list name) : bool :=
  match l with
  | [] => true
  | x :: l' => negb (existsb (String.eqb x) l') && nodup_names l'
  end.

Definition all_ok {A} (f : A -> result unit) (l : list A) : result unit :=
  r <- traverse f l ;; Ok tt.

Definition check (b : bool) (e : err) : result unit := if b then Ok tt else Error e.

(* every leaf of a connection expression denotes a declared object of the right width *)
Definition wf_leaf (d : design) (m : module) (lw : N * Z) : result unit :=
  lf <- ofopt EOrphan (assocN (fst lw) (m_leaves m)) ;;
  match lf with
  | LSig s => w <- ofopt EOrphan (sig_width m s) ;; check (w =? snd lw) EWidth
  | LRef i p => x <- ofopt EMissing (find_inst (m_insts m) i) ;; w <- port_width d x p ;;
                _ <- check (i_n x <=? 0) EBadKind ;; check (w =? snd lw) EWidth
  | LNc _ => Ok tt
  end.

Definition is_nc (m : module) (x : sx) : option N :=
  match x with
  | XSig id _ => match assocN id (m_leaves m) with Some (LNc site) => Some site | _ => None end
  | _ => None
  end.

Definition has_nc_inside (m : module) (x : sx) : bool :=
  existsb (fun lw => match assocN (fst lw) (m_leaves m) with Some (LNc _) => true | _ => false end) (sx_leaves x).

(* all leaves referring to port p of instance i anywhere in the module *)
Definition refs_to (m : module) (i p : name) : Z :=
  zlen (filter (fun lw => match assocN (fst lw) (m_leaves m) with
                          | Some (LRef i' p') => String.eqb i i' && String.eqb p p'
                          | _ => false end)
               (concat (map (fun x => concat (map (fun c => sx_leaves (snd c)) (i_conns x))) (m_insts m)))).

Definition nc_uses (m : module) (site : N) : Z :=
  zlen (filter (fun lw => match assocN (fst lw) (m_leaves m) with Some (LNc s) => N.eqb s site | _ => false end)
               (concat (map (fun x => concat (map (fun c => sx_leaves (snd c)) (i_conns x))) (m_insts m)))).

Definition wf_conn (d : design) (m : module) (x : inst) (ports : list (name * Z)) (c : name * sx) : result unit :=
  w <- ofopt EExtra (assoc (fst c) ports) ;;
  _ <- all_ok (wf_leaf d m) (sx_leaves (snd c)) ;;
  match is_nc m (snd c) with
  | Some site =>
      (* a no-connect (possibly shared by several ports): the port it sits on is referenced nowhere *)
      check (refs_to m (i_name x) (fst c) =? 0) ENoConn
  | None =>
      _ <- check (negb (has_nc_inside m (snd c))) ENoConn ;;
      cw <- xwidth (snd c) ;;
      check ((cw =? w) || ((0 <? i_n x) && (cw =? i_n x * w))) EWidth
  end.

Definition wf_inst (d : design) (self : nat) (m : module) (x : inst) : result unit :=
  _ <- match i_of x with TMod k => check (k <? self)%nat ECycle | TDev _ _ => Ok tt end ;;
  ports <- target_ports d (i_of x) ;;
  _ <- check (nodup_names (map fst (i_conns x))) EExtra ;;
  _ <- all_ok (wf_conn d m x ports) (i_conns x) ;;
  (* every port is connected, or referenced by a live connection *)
  all_ok (fun pw => match assoc (fst pw) (i_conns x) with
                    | Some _ => Ok tt
                    | None => check (0 <? refs_to m (i_name x) (fst pw)) EMissing
                    end) ports.

Definition wf_module (d : design) (self : nat) (m : module) : result unit :=
  _ <- check (negb (String.eqb (m_name m) "")) EName ;;
  _ <- check (nodup_names (map fst (m_ports m) ++ map fst (m_sigs m) ++ map i_name (m_insts m))) EName ;;
  _ <- check (forallb (fun pw => 1 <=? snd pw) (m_ports m ++ m_sigs m)) EWidth ;;
  all_ok (wf_inst d self m) (m_insts m).

Fixpoint wf_mods (d : design) (k : nat) (ms : list module) : result unit :=
  match ms with
  | [] => Ok tt
  | m :: ms' => _ <- wf_module d k m ;; wf_mods d (S k) ms'
  end.

Definition wf_design (d : design) : result unit :=
  _ <- check (d_top d <? Datatypes.length (d_mods d))%nat EMissing ;;
  _ <- check (nodup_names (map m_name (d_mods d))) EName ;;
  wf_mods d 0 (d_mods d).
