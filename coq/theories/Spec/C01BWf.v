(* Spec/C01BWf.v — which written designs of the bundle fragment are valid (the hypothesis of C01 on this fragment).
   Extends Spec/WfDesign.v: a bundle-valued port is connected to something that offers EVERY member path of the port with the
   member's width (bundle instance / sub-bundle reference of the same shape, anonymous bundle, bundle port of a single sibling
   instance) or to a no-connect; a Pair port is connected to a scalar (both elements) or to something with members p and n. *)
Require Import Hdl21.Base.PyInt Hdl21.Spec.PySlice Hdl21.Model.Slice Hdl21.Model.Resolve Hdl21.Base.Design
               Hdl21.Spec.WfDesign Hdl21.Base.C01BDesign.
Require Hdl21.Spec.BundleSpec.

Definition bsig_width (m : bmodule) (s : name) : option Z :=
  match assoc s (bm_ports m) with Some w => Some w | None => assoc s (bm_sigs m) end.

Definition single (x : binst) : bool := (bi_n x <=? 0) && negb (bi_pair x).

Definition wf_bleaf (d : bdesign) (m : bmodule) (lw : N * Z) : result unit :=
  lf <- ofopt EOrphan (assocN (fst lw) (bm_leaves m)) ;;
  match lf with
  | BLSig s => w <- ofopt EOrphan (bsig_width m s) ;; check (w =? snd lw) EWidth
  | BLMem b q => bt <- ofopt EOrphan (find_bundle (bm_bundles m) b) ;;
                 w <- ofopt EOrphan (member_width (snd bt) q) ;; check (w =? snd lw) EWidth
  | BLRef i p => x <- ofopt EMissing (find_binst (bm_insts m) i) ;; w <- btarget_port_width d (bi_of x) p [] ;;
                 _ <- check (single x) EBadKind ;; check (w =? snd lw) EWidth
  | BLNc _ => Ok tt
  end.

Definition bis_nc (m : bmodule) (x : sx) : option N :=
  match x with
  | XSig id _ => match assocN id (bm_leaves m) with Some (BLNc site) => Some site | _ => None end
  | _ => None
  end.

Definition bhas_nc_inside (m : bmodule) (x : sx) : bool :=
  existsb (fun lw => match assocN (fst lw) (bm_leaves m) with Some (BLNc _) => true | _ => false end) (sx_leaves x).

Fixpoint bexpr_sxs (bx : bexpr) : list sx :=
  match bx with
  | BXSx x => [x]
  | BXAnon ms => concat (map (fun nb => bexpr_sxs (snd nb)) ms)
  | _ => []
  end.

Fixpoint bexpr_refs (bx : bexpr) : list (name * name) :=
  match bx with
  | BXRef i p => [(i, p)]
  | BXAnon ms => concat (map (fun nb => bexpr_refs (snd nb)) ms)
  | _ => []
  end.

(* every reference to a port of a sibling instance made anywhere in the module: scalar leaves and bundle-port references *)
Definition module_refs (m : bmodule) : list (name * name) :=
  concat (map (fun x => concat (map (fun c : name * bexpr =>
    concat (map (fun s => concat (map (fun lw : N * Z => match assocN (fst lw) (bm_leaves m) with
                                                      | Some (BLRef i p) => [(i, p)]
                                                      | _ => [] end) (sx_leaves s))) (bexpr_sxs (snd c)))
    ++ bexpr_refs (snd c)) (bi_conns x))) (bm_insts m)).

Definition brefs_to (m : bmodule) (i p : name) : Z :=
  zlen (filter (fun r : name * name => String.eqb i (fst r) && String.eqb p (snd r)) (module_refs m)).

(* a member target offered to a w-wide member of a port of an instance with n elements (n = 0: no per-element wiring) *)
Definition wf_mtarget (d : bdesign) (m : bmodule) (n w : Z) (t : mtarget) : result unit :=
  match t with
  | MTSig b q => bt <- ofopt EOrphan (find_bundle (bm_bundles m) b) ;;
                 w' <- ofopt EMissing (member_width (snd bt) q) ;; check (w' =? w) EWidth
  | MTSx cx => _ <- all_ok (wf_bleaf d m) (sx_leaves cx) ;; _ <- check (negb (bhas_nc_inside m cx)) ENoConn ;;
               cw <- xwidth cx ;; check ((cw =? w) || ((0 <? n) && (cw =? n * w))) EWidth
  | MTRef i p q => x <- ofopt EMissing (find_binst (bm_insts m) i) ;; _ <- check (single x) EBadKind ;;
                   _ <- check (match q with [] => false | _ => true end) EBadKind ;;
                   w' <- btarget_port_width d (bi_of x) p q ;; check (w' =? w) EWidth
  | MTNc => Error ENoConn
  end.

(* the shape (number of member paths) of what a bundle instance / reference / port reference offers *)
Definition shape_count (d : bdesign) (m : bmodule) (bx : bexpr) : result (option Z) :=
  match bx with
  | BXInst b pre => bt <- ofopt EOrphan (find_bundle (bm_bundles m) b) ;; st <- ofopt EMissing (subtree pre (snd bt)) ;;
                    Ok (Some (zlen (BundleSpec.paths st)))
  | BXRef i p => x <- ofopt EMissing (find_binst (bm_insts m) i) ;;
                 match bi_of x with
                 | TMod k => m' <- nth_bmod d k ;;
                             match find_bundle (bm_bundles m') p with
                             | Some (true, t) => Ok (Some (zlen (BundleSpec.paths t)))
                             | _ => Error EMissing
                             end
                 | TDev _ _ => Error EBadKind
                 end
  | _ => Ok None
  end.

Inductive port_kind := PKScalar (w : Z) | PKBundle (t : btree).

Definition port_kind_of (d : bdesign) (t : target) (port : name) : result port_kind :=
  match t with
  | TDev _ ps => w <- ofopt EExtra (assoc port ps) ;; Ok (PKScalar w)
  | TMod k => m <- nth_bmod d k ;;
              match assoc port (bm_ports m) with
              | Some w => Ok (PKScalar w)
              | None => match find_bundle (bm_bundles m) port with
                        | Some (true, t) => Ok (PKBundle t)
                        | _ => Error EExtra
                        end
              end
  end.

Definition wf_bconn (d : bdesign) (m : bmodule) (x : binst) (c : name * bexpr) : result unit :=
  pk <- port_kind_of d (bi_of x) (fst c) ;;
  match pk, snd c with
  | PKScalar w, BXSx cx =>
      _ <- all_ok (wf_bleaf d m) (sx_leaves cx) ;;
      match bis_nc m cx with
      | Some _ => check (brefs_to m (bi_name x) (fst c) =? 0) ENoConn
      | None => _ <- check (negb (bhas_nc_inside m cx)) ENoConn ;; cw <- xwidth cx ;;
                check ((cw =? w) || (negb (bi_pair x) && (0 <? bi_n x) && (cw =? bi_n x * w))) EWidth
      end
  | PKScalar w, bx =>
      (* only a Pair takes a bundle-like on a scalar port: element p / n takes the member p / n *)
      _ <- check (bi_pair x) EBadKind ;;
      _ <- match bx with BXInst _ [] | BXAnon _ => Ok tt | _ => Error EBadKind end ;;
      sc <- shape_count d m bx ;;
      _ <- check (match sc with Some k => k =? 2 | None => true end) EBadKind ;;
      all_ok (fun e => t <- member bx [pair_elem e] ;; wf_mtarget d m 0 w t) [0; 1]
  | PKBundle tp, BXSx _ => Error EBadKind
  | PKBundle tp, BXNc _ => _ <- check (negb (bi_pair x)) EBadKind ;; check (brefs_to m (bi_name x) (fst c) =? 0) ENoConn
  | PKBundle tp, bx =>
      _ <- check (negb (bi_pair x)) EBadKind ;;
      sc <- shape_count d m bx ;;
      _ <- check (match sc with Some k => k =? zlen (BundleSpec.paths tp) | None => true end) EBadKind ;;
      all_ok (fun qw : mpath * Z => t <- member bx (fst qw) ;;
                                   wf_mtarget d m (match t with MTSx _ => bi_n x | _ => 0 end) (snd qw) t) (tree_members tp)
  end.

Definition btarget_port_names (d : bdesign) (t : target) : result (list name) :=
  match t with
  | TDev _ ps => Ok (map fst ps)
  | TMod k => m <- nth_bmod d k ;;
              Ok (map fst (bm_ports m) ++ concat (map (fun pt : bool * btree => if fst pt then [BundleSpec.bname (snd pt)] else []) (bm_bundles m)))
  end.

Definition wf_binst (d : bdesign) (self : nat) (m : bmodule) (x : binst) : result unit :=
  _ <- match bi_of x with TMod k => check (k <? self)%nat ECycle | TDev _ _ => Ok tt end ;;
  _ <- check (negb (bi_pair x) || (bi_n x =? 0)) EBadKind ;;
  ports <- btarget_port_names d (bi_of x) ;;
  _ <- check (nodup_names (map fst (bi_conns x))) EExtra ;;
  _ <- all_ok (wf_bconn d m x) (bi_conns x) ;;
  all_ok (fun p => match bassoc p (bi_conns x) with
                   | Some _ => Ok tt
                   | None => check (0 <? brefs_to m (bi_name x) p) EMissing
                   end) ports.

Fixpoint leaves_ok (t : btree) : bool :=
  match t with
  | BundleSpec.BT _ _ _ _ sigs subs =>
      forallb (fun l => 1 <=? BundleSpec.lwidth l) sigs &&
      (fix go (l : list btree) : bool := match l with [] => true | s :: r => leaves_ok s && go r end) subs
  end.

Definition wf_bmodule (d : bdesign) (self : nat) (m : bmodule) : result unit :=
  _ <- check (negb (String.eqb (bm_name m) "")) EName ;;
  _ <- check (nodup_names (map fst (bm_ports m) ++ map fst (bm_sigs m) ++ map (fun pt => BundleSpec.bname (snd pt)) (bm_bundles m)
                           ++ map bi_name (bm_insts m))) EName ;;
  _ <- check (forallb (fun pw => 1 <=? snd pw) (bm_ports m ++ bm_sigs m)) EWidth ;;
  _ <- check (forallb (fun pt : bool * btree => BundleSpec.wf_tree (snd pt) && leaves_ok (snd pt)) (bm_bundles m)) EName ;;
  all_ok (wf_binst d self m) (bm_insts m).

Fixpoint wf_bmods (d : bdesign) (k : nat) (ms : list bmodule) : result unit :=
  match ms with
  | [] => Ok tt
  | m :: ms' => _ <- wf_bmodule d k m ;; wf_bmods d (S k) ms'
  end.

Definition wf_bdesign (d : bdesign) : result unit :=
  _ <- check (bd_top d <? Datatypes.length (bd_mods d))%nat EMissing ;;
  _ <- check (nodup_names (map bm_name (bd_mods d))) EName ;;
  wf_bmods d 0 (bd_mods d).
