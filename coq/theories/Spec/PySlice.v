(* Spec/PySlice.v — Python sequence indexing, the oracle of C03.
   py_indices w a b st = list(range(w))[a:b:st]   (st <> 0), following CPython's slice.indices.
   Validated against CPython itself on an exhaustive box by every C03 run. *)
Require Import Hdl21.Base.PyInt.

Inductive index := Idx (i : Z) | Sl (start stop step : option Z).

Definition clamp (lo hi x : Z) : Z := Z.max lo (Z.min hi x).
Definition norm_pos (w : Z) (d : Z) (o : option Z) : Z :=
  match o with None => d | Some x => clamp 0 w (if x <? 0 then x + w else x) end.
Definition norm_neg (w : Z) (d : Z) (o : option Z) : Z :=
  match o with None => d | Some x => clamp (-1) (w-1) (if x <? 0 then x + w else x) end.

(* (start, stop) of slice(a, b, st).indices(w) *)
Definition py_start_stop (w : Z) (a b : option Z) (st : Z) : Z * Z :=
  if 0 <? st then (norm_pos w 0 a, norm_pos w w b)
  else (norm_neg w (w-1) a, norm_neg w (-1) b).

(* len(range(lo, hi, st)) *)
Definition py_len (lo hi st : Z) : Z :=
  if 0 <? st then (if lo <? hi then (hi - lo - 1) / st + 1 else 0)
  else (if hi <? lo then (lo - hi - 1) / (- st) + 1 else 0).

Definition py_indices (w : Z) (a b : option Z) (st : Z) : list Z :=
  let '(lo, hi) := py_start_stop w a b st in
  iota (Z.to_nat (py_len lo hi st)) lo st.

Definition step_of (os : option Z) : Z := match os with None => 1 | Some s => s end.

(* The selection the property demands: which parent positions an index selects, or rejection. *)
Definition sel (w : Z) (ix : index) : result (list Z) :=
  match ix with
  | Idx i => if (-w <=? i) && (i <? w) then Ok [i mod w] else Error EOutOfBounds
  | Sl a b os =>
      let st := step_of os in
      if st =? 0 then Error EZeroStep else
      match py_indices w a b st with
      | [] => Error EEmptySlice
      | l => Ok l
      end
  end.

(* every selected index is inside the parent *)
Lemma py_indices_in_range w a b st y : 0 <= w -> st <> 0 -> In y (py_indices w a b st) -> 0 <= y < w.
Proof.
  intros Hw Hst. unfold py_indices, py_start_stop.
  destruct (0 <? st) eqn:Es.
  - intros H. apply iota_in in H. destruct H as [k [Hk ->]].
    unfold py_len in Hk. rewrite Es in Hk.
    set (lo := norm_pos w 0 a) in *. set (hi := norm_pos w w b) in *.
    assert (0 <= lo <= w) by (subst lo; unfold norm_pos, clamp; destruct a as [z|]; [destruct (z <? 0)|]; lia).
    assert (0 <= hi <= w) by (subst hi; unfold norm_pos, clamp; destruct b as [z|]; [destruct (z <? 0)|]; lia).
    destruct (lo <? hi) eqn:E2; [|simpl in Hk; lia].
    rewrite Z2Nat.id in Hk by (assert (st<>0) by lia; lia).
    assert (k * st <= hi - lo - 1) by (assert (st<>0) by lia; nia).
    nia.
  - intros H. apply iota_in in H. destruct H as [k [Hk ->]].
    unfold py_len in Hk. rewrite Es in Hk.
    set (lo := norm_neg w (w-1) a) in *. set (hi := norm_neg w (-1) b) in *.
    assert (-1 <= lo <= w-1) by (subst lo; unfold norm_neg, clamp; destruct a as [z|]; [destruct (z <? 0)|]; lia).
    assert (-1 <= hi <= w-1) by (subst hi; unfold norm_neg, clamp; destruct b as [z|]; [destruct (z <? 0)|]; lia).
    destruct (hi <? lo) eqn:E2; [|simpl in Hk; lia].
    rewrite Z2Nat.id in Hk by (assert (-st<>0) by lia; lia).
    assert (k * (-st) <= lo - hi - 1) by (assert (-st<>0) by lia; nia).
    nia.
Qed.

Lemma sel_in_range w ix l y : 0 <= w -> sel w ix = Ok l -> In y l -> 0 <= y < w.
Proof.
  intros Hw. destruct ix as [i|a b os]; simpl.
  - destruct ((-w <=? i) && (i <? w)) eqn:E; [|discriminate]. intros H; inversion H; subst; clear H.
    intros [<-|[]]. apply Z.mod_pos_bound. lia.
  - destruct (step_of os =? 0) eqn:E0; [discriminate|].
    destruct (py_indices w a b (step_of os)) eqn:El; [discriminate|].
    intros H; inversion H; subst; clear H. rewrite <- El. apply py_indices_in_range; lia.
Qed.

Lemma sel_nonempty w ix l : sel w ix = Ok l -> l <> [].
Proof.
  destruct ix as [i|a b os]; simpl.
  - destruct ((-w <=? i) && (i <? w)); [|discriminate]. intros H; inversion H; discriminate.
  - destruct (step_of os =? 0); [discriminate|]. destruct (py_indices w a b (step_of os)); [discriminate|].
    intros H; inversion H; discriminate.
Qed.
