(* Spec/C12Repro.v — what "reproducible across processes" means (property C12), independent of any algorithm.

   1. Observational part (the property itself): the observables of one design obtained in several processes
      (different PYTHONHASHSEED, different allocation / elaboration history) are all equal.
   2. Order part: everything the exporter writes in an ORDER must be a function of the written design alone.
      For the connection list of an instance the function is `flatten_in_place`: the connections in the order
      the designer wrote them, each bundle-valued connection replaced, where it stands, by its flattened
      connections.  For the name of the implicit signal of a reference group the function is `spec_group_name`:
      the unique unconnected port of the group, else the least (instance name, port name) of the group. *)
Require Import Hdl21.Base.PyInt.
From Coq Require Import String Ascii.
Open Scope string_scope.
Open Scope list_scope.

(* ---- 1. observations of one run: digest of the serialized package, digests of the three netlists
           (or "!<ExceptionClass>" when the step raised) *)
Record obs := Obs { o_pkg : string; o_spice : string; o_spectre : string; o_verilog : string }.

Definition obs_eqb (a b : obs) : bool :=
  String.eqb (o_pkg a) (o_pkg b) && String.eqb (o_spice a) (o_spice b) &&
  String.eqb (o_spectre a) (o_spectre b) && String.eqb (o_verilog a) (o_verilog b).

Definition reproducible (runs : list obs) : bool :=
  match runs with [] => true | r :: t => forallb (obs_eqb r) t end.

(* ---- 2a. ordered connections of an instance *)
Definition key := string.
Definition val := string.
Definition conns := list (key * val).
Definition keys (c : conns) : list key := map fst c.
Definition mem (k : key) (l : list key) : bool := existsb (String.eqb k) l.

(* `isb k`: the connection written for port k is bundle-valued;  `fo k`: its flattened connections *)
Definition flatten_in_place (isb : key -> bool) (fo : key -> conns) (c : conns) : conns :=
  flat_map (fun kv => if isb (fst kv) then fo (fst kv) else [kv]) c.

(* ---- 2b. name of the implicit signal of a port-reference group *)
Record pref := PR { pr_inst : string; pr_port : string; pr_conn : bool }.   (* pr_conn: the port has a connection of its own *)

Definition pref_eqb (a b : pref) : bool := String.eqb (pr_inst a) (pr_inst b) && String.eqb (pr_port a) (pr_port b).

(* lexicographic order on (instance name, port name) = Python's tuple order on ASCII strings *)
Definition pref_leb (a b : pref) : bool :=
  match String.compare (pr_inst a) (pr_inst b) with
  | Lt => true
  | Gt => false
  | Eq => String.leb (pr_port a) (pr_port b)
  end.

(* m is THE namer of group g: as a predicate on the group as a set *)
Definition is_namer (g : list pref) (m : pref) : Prop :=
  In m g /\
  ((pr_conn m = false /\ forall x, In x g -> pr_conn x = false -> x = m) \/
   ((forall x, In x g -> pr_conn x = true) /\ forall x, In x g -> pref_leb m x = true)).

Definition sig_name (p : pref) : string := pr_inst p ++ "_" ++ pr_port p.
