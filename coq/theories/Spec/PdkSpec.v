(* Spec/PdkSpec.v — what "compiling to a PDK" means (property C15), independent of the walkers' algorithm.

   Datatypes shared with the model, the regenerated device tables (the Hdl21Gen.PdkTables files), and the
   specification predicates:  which table entries SATISFY a request (by model name, or by the
   documented type/family/threshold parameters), what the sizes of the device must be (given value,
   else the PDK's default), and when an instance is valid (every device port connected). *)
From Coq Require Import String Ascii.
Require Import Hdl21.Base.PyInt.
Require Import Hdl21Gen.PrimitivePorts Hdl21Gen.PdkTables_sample Hdl21Gen.PdkTables_sky130
               Hdl21Gen.PdkTables_gf180 Hdl21Gen.PdkTables_asap7.
Open Scope string_scope.
Open Scope list_scope.
Open Scope Z_scope.

(* ---------------------------------------------------------------- values *)
(* parameter values, canonicalised: exact rational (Prefixed / int), Literal text, string, None *)
Inductive pv := PNum (n d : Z) | PLit (s : string) | PStr (s : string) | PNone.

Definition pv_eqb (a b : pv) : bool :=
  match a, b with
  | PNum n d, PNum n' d' => (n =? n') && (d =? d')
  | PLit s, PLit t => String.eqb s t
  | PStr s, PStr t => String.eqb s t
  | PNone, PNone => true
  | _, _ => false
  end.

(* same value (rationals compared by cross-multiplication; denominators are positive) *)
Definition pv_same (a b : pv) : bool :=
  match a, b with
  | PNum n d, PNum n' d' => (0 <? d) && (0 <? d') && (n * d' =? n' * d)
  | _, _ => pv_eqb a b
  end.

Lemma pv_eqb_refl a : pv_eqb a a = true.
Proof. destruct a; cbn; rewrite ?Z.eqb_refl, ?String.eqb_refl; reflexivity. Qed.

Lemma pv_eqb_eq a b : pv_eqb a b = true -> a = b.
Proof.
  destruct a, b; cbn; try discriminate; intros H.
  - apply andb_true_iff in H. destruct H as [H1 H2]. apply Z.eqb_eq in H1, H2. congruence.
  - apply String.eqb_eq in H. congruence.
  - apply String.eqb_eq in H. congruence.
  - reflexivity.
Qed.

Definition opt_eqb {A} (f : A -> A -> bool) (a b : option A) : bool :=
  match a, b with Some x, Some y => f x y | None, None => true | _, _ => false end.

(* ---------------------------------------------------------------- generic primitives and their parameters *)
Inductive prim := Mos | PRes | TRes | PCap | TCap | Diode | Bipolar | POther (name : string).

Definition prim_name (p : prim) : string :=
  match p with Mos => "Mos" | PRes => "PhysicalResistor" | TRes => "ThreeTerminalResistor" | PCap => "PhysicalCapacitor"
             | TCap => "ThreeTerminalCapacitor" | Diode => "Diode" | Bipolar => "Bipolar" | POther n => n end.

Fixpoint assoc {B} (k : string) (l : list (string * B)) : option B :=
  match l with [] => None | (k', v) :: r => if String.eqb k k' then Some v else assoc k r end.

(* port names of a generic primitive, from the regenerated table *)
Definition prim_ports (p : prim) : option (list string) := assoc (prim_name p) primitive_ports.

(* the primitive parameter classes, flattened: unused fields are None / "" *)
Record pparams := { pm_model : option string; pm_tp : string; pm_fam : string; pm_vth : string;
                    pm_w : option pv; pm_l : option pv; pm_nf : option pv; pm_mult : option pv }.

Definition pparams_eqb (a b : pparams) : bool :=
  opt_eqb String.eqb (pm_model a) (pm_model b) && String.eqb (pm_tp a) (pm_tp b) && String.eqb (pm_fam a) (pm_fam b)
  && String.eqb (pm_vth a) (pm_vth b) && opt_eqb pv_eqb (pm_w a) (pm_w b) && opt_eqb pv_eqb (pm_l a) (pm_l b)
  && opt_eqb pv_eqb (pm_nf a) (pm_nf b) && opt_eqb pv_eqb (pm_mult a) (pm_mult b).

Lemma opt_eqb_refl {A} (f : A -> A -> bool) (H : forall x, f x x = true) o : opt_eqb f o o = true.
Proof. destruct o; cbn; auto. Qed.

Lemma pparams_eqb_refl a : pparams_eqb a a = true.
Proof.
  unfold pparams_eqb. rewrite !String.eqb_refl, !(opt_eqb_refl pv_eqb pv_eqb_refl), (opt_eqb_refl String.eqb String.eqb_refl).
  reflexivity.
Qed.

(* ---------------------------------------------------------------- PDKs, device tables *)
Inductive pdk := Sample | Sky130 | Gf180 | Asap7.

(* the dictionaries of a walker: one cache per group *)
Inductive group := GMos | GRes | GCap | GDiode | GBjt.

Definition group_eqb (a b : group) : bool :=
  match a, b with GMos, GMos | GRes, GRes | GCap, GCap | GDiode, GDiode | GBjt, GBjt => true | _, _ => false end.
Lemma group_eqb_refl g : group_eqb g g = true. Proof. destruct g; reflexivity. Qed.
Lemma group_eqb_eq a b : group_eqb a b = true -> a = b. Proof. destruct a, b; cbn; congruence. Qed.

(* which primitives a PDK maps (visit_primitive_call) *)
Definition group_of (k : pdk) (p : prim) : option group :=
  match k, p with
  | _, Mos => Some GMos
  | (Sky130 | Gf180), (PRes | TRes) => Some GRes
  | (Sky130 | Gf180), (PCap | TCap) => Some GCap
  | (Sky130 | Gf180), Diode => Some GDiode
  | (Sky130 | Gf180), Bipolar => Some GBjt
  | _, _ => None
  end.

Definition dev := (string * list string * string)%type.           (* device name, ordered ports, parameter class *)
Definition entry := (list string * dev)%type.                    (* key members rendered as strings, device *)
Definition dev_name (d : dev) : string := fst (fst d).
Definition dev_ports (d : dev) : list string := snd (fst d).
Definition dev_class (d : dev) : string := snd d.

Definition table (k : pdk) (g : group) : list entry :=
  match k, g with
  | Sample, GMos => sample_mos_modules
  | Asap7, GMos => asap7_mos_modules
  | Sky130, GMos => sky130_xtors | Sky130, GRes => sky130_ress | Sky130, GCap => sky130_caps
  | Sky130, GDiode => sky130_diodes | Sky130, GBjt => sky130_bjts
  | Gf180, GMos => gf180_xtors | Gf180, GRes => gf180_ress | Gf180, GCap => gf180_caps
  | Gf180, GDiode => gf180_diodes | Gf180, GBjt => gf180_bjts
  | _, _ => []
  end.

Definition mem (s : string) (l : list string) : bool := existsb (String.eqb s) l.

Definition is_enum_str (s : string) : bool := mem s (mos_types ++ mos_families ++ mos_vths ++ bipolar_types).
(* the members of a key that are model names (a str never equals an Enum member in Python) *)
Definition key_names (key : list string) : list string := filter (fun s => negb (is_enum_str s)) key.

Fixpoint strs_eqb (a b : list string) : bool :=
  match a, b with
  | [], [] => true
  | x :: a', y :: b' => String.eqb x y && strs_eqb a' b'
  | _, _ => false
  end.

(* ---------------------------------------------------------------- SPEC: which entries satisfy a request *)
Definition satisfies (k : pdk) (g : group) (prm : pparams) (e : entry) : bool :=
  let key := fst e in
  match k, g with
  | (Sky130 | Gf180), GMos =>
      match pm_model prm with
      | Some m => mem m (key_names key)
      | None => mem (pm_tp prm) key && mem (pm_fam prm) key && mem (pm_vth prm) key
      end
  | (Sky130 | Gf180), _ =>
      match pm_model prm with Some m => strs_eqb key [m] | None => false end
  | Asap7, GMos => strs_eqb key [pm_tp prm; pm_vth prm]
  | Sample, GMos => strs_eqb key [pm_tp prm]
  | _, _ => false
  end.

Definition candidates (k : pdk) (g : group) (prm : pparams) : list entry := filter (satisfies k g prm) (table k g).

(* ---------------------------------------------------------------- SPEC: sizes *)
Definition size2 := ((Z * Z) * (Z * Z))%type.
Definition num_of (q : Z * Z) : pv := PNum (fst q) (snd q).

(* the PDK's default (w, l) of a device, by parameter class *)
Definition default_size (k : pdk) (d : dev) : option (option pv * option pv) :=
  let two (t : list (string * size2)) :=
    match assoc (dev_name d) t with Some (w, l) => Some (Some (num_of w), Some (num_of l)) | None => None end in
  match k with
  | Sample => Some (Some (PNum 1 1000000), Some (PNum 1 1000000))
  | Asap7 => Some (Some PNone, Some PNone)                       (* no defaults: an absent size stays absent *)
  | Sky130 =>
      let c := dev_class d in
      if String.eqb c "MosParams" || String.eqb c "Sky130Mos20VParams" then two sky130_default_xtor_size
      else if String.eqb c "Sky130GenResParams" then two sky130_default_gen_res_size
      else if String.eqb c "Sky130MimParams" || String.eqb c "Sky130VarParams" then two sky130_default_cap_sizes
      else if String.eqb c "Sky130PrecResParams" then
        match assoc (dev_name d) sky130_default_prec_res_L with Some l => Some (None, Some (num_of l)) | None => None end
      else Some (None, None)
  | Gf180 =>
      let c := dev_class d in
      if String.eqb c "MosParams" then two gf180_default_xtor_size
      else if String.eqb c "GF180ResParams" then two gf180_default_res_size
      else if String.eqb c "GF180CapParams" then Some (Some (PNum 1 1), Some (PNum 1 1))
      else if String.eqb c "GF180DiodeParams" then two gf180_default_diode_size
      else Some (None, None)
  end.

(* the device parameter fields that carry width and length, by parameter class *)
Definition size_fields (c : string) : option (string * string) :=
  if String.eqb c "GF180ResParams" then Some ("r_width", "r_length")
  else if String.eqb c "GF180CapParams" then Some ("c_width", "c_length")
  else if String.eqb c "Sky130PrecResParams" then Some ("", "l")
  else if String.eqb c "Sky130DiodeParams" || String.eqb c "GF180DiodeParams" || String.eqb c "Sky130BipolarParams"
          || String.eqb c "GF180BipolarParams" then None
  else Some ("w", "l").

(* Literal sizes: a Literal is the TEXT of an expression that the simulator evaluates.  The walkers of
   Sky130 / GF180 rewrite it for unit scaling; whatever they write must still contain the GIVEN
   expression as one operand: either the text unchanged, or the text enclosed in its own pair of
   parentheses and multiplied by the unit factor, `((t) * 1e6)`; the bare form `(t * 1e6)` keeps t one
   operand only when t is a single token (an identifier or a number: `a + b * 1e6` is not
   `(a + b) * 1e6`).  Proofs/C15LitProofs.v proves that in the parenthesised form the parenthesis
   opened before t is closed right after t, for every t with balanced parentheses. *)
Definition atom_char (c : ascii) : bool :=
  let n := nat_of_ascii c in
  ((48 <=? n) && (n <=? 57) || (65 <=? n) && (n <=? 90) || (97 <=? n) && (n <=? 122) || (n =? 95) || (n =? 46))%nat.
Fixpoint atomic (t : string) : bool :=
  match t with EmptyString => true | String c r => atom_char c && atomic r end.
Definition grouped_scaled (t : string) : string := "((" ++ t ++ ") * 1e6)".
Definition bare_scaled (t : string) : string := "(" ++ t ++ " * 1e6)".
Definition lit_size_ok (t a : string) : bool :=
  String.eqb a t || String.eqb a (grouped_scaled t) || (atomic t && negb (String.eqb t "") && String.eqb a (bare_scaled t)).

(* a given NUMERIC size must reach the device unchanged, an absent one must be the PDK's default;
   a given Literal size must reach the device as one operand (lit_size_ok) *)
Definition one_size_ok (given : option pv) (dflt : option pv) (actual : option pv) : bool :=
  match given with
  | Some (PNum n d) => match actual with Some a => pv_same a (PNum n d) | None => false end
  | Some (PLit t) => match actual with Some (PLit a) => lit_size_ok t a | _ => false end
  | Some _ => true
  | None => match dflt, actual with
            | Some dv, Some a => pv_same a dv
            | Some _, None => false
            | None, _ => true
            end
  end.

Definition sizes_ok (k : pdk) (prm : pparams) (d : dev) (fields : list (string * pv)) : bool :=
  match size_fields (dev_class d), default_size k d with
  | Some (fw, fl), Some (dw, dl) =>
      (if String.eqb fw "" then true else one_size_ok (pm_w prm) dw (assoc fw fields))
      && one_size_ok (pm_l prm) dl (assoc fl fields)
  | Some _, None => false                                      (* no default entry for the device *)
  | None, _ =>
      (* diodes: area and junction perimeter in the PDK's units when both sizes are given; bipolars: no sizes *)
      match pm_w prm, pm_l prm with
      | Some (PNum wn wd), Some (PNum ln ld) =>
          if String.eqb (dev_class d) "Sky130DiodeParams" then
            opt_eqb pv_same (assoc "area" fields) (Some (PNum (wn * ln * 1000000000000) (wd * ld)))
            && opt_eqb pv_same (assoc "pj" fields) (Some (PNum (2 * (wn * ld + ln * wd) * 1000000) (wd * ld)))
          else if String.eqb (dev_class d) "GF180DiodeParams" then
            opt_eqb pv_same (assoc "area" fields) (Some (PNum (wn * ln) (wd * ld)))
            && opt_eqb pv_same (assoc "pj" fields) (Some (PNum (2 * (wn * ld + ln * wd)) (wd * ld)))
          else true
      | _, _ => true
      end
  end.

(* multiplier: the given one, else 1 (field name by parameter class); ASAP7 passes it through *)
Definition mult_field (c : string) : option string :=
  if String.eqb c "MosParams" then Some "mult"          (* Sky130 sets mult, GF180 sets m: see mult_ok *)
  else if String.eqb c "Sky130Mos20VParams" || String.eqb c "SamplePdkMosParams" || String.eqb c "Sky130BipolarParams"
          || String.eqb c "GF180BipolarParams" then Some "m"
  else if String.eqb c "Sky130MimParams" then Some "mf"
  else if String.eqb c "Sky130VarParams" then Some "vm"
  else None.

Definition mult_ok (k : pdk) (prm : pparams) (d : dev) (fields : list (string * pv)) : bool :=
  match k with
  | Asap7 => true
  | _ =>
    let f := match k, mult_field (dev_class d) with
             | Gf180, Some fn => if String.eqb fn "mult" then Some "m" else Some fn
             | _, o => o end in
    match f with
    | None => true
    | Some fn =>
        match pm_mult prm with
        | Some (PNum n dd) => opt_eqb pv_same (assoc fn fields) (Some (PNum n dd))
        | Some _ => true
        | None => opt_eqb pv_same (assoc fn fields) (Some (PNum 1 1))
        end
    end
  end.

(* ---------------------------------------------------------------- SPEC: validity of an instance *)
(* every device port is connected (connections are a map, so "exactly once") *)
Definition ports_connected (ports : list string) (conns : list (string * string)) : bool :=
  forallb (fun p => existsb (fun c => String.eqb (fst c) p) conns) ports.

Fixpoint nodupb (l : list string) : bool :=
  match l with [] => true | x :: r => negb (mem x r) && nodupb r end.

(* same port names (as sets; the device may order them differently) *)
Definition same_ports (a b : list string) : bool := forallb (fun x => mem x b) a && forallb (fun x => mem x a) b.

(* netlist identifier: letters, digits, underscore; not starting with a digit *)
Definition ident_char (c : ascii) : bool :=
  let n := N_of_ascii c in
  ((48 <=? n) && (n <=? 57) || (65 <=? n) && (n <=? 90) || (97 <=? n) && (n <=? 122) || (n =? 95))%N.
Fixpoint all_chars (f : ascii -> bool) (s : string) : bool :=
  match s with EmptyString => true | String c r => f c && all_chars f r end.
Definition ident_ok (s : string) : bool :=
  match s with
  | EmptyString => false
  | String c _ => negb ((48 <=? N_of_ascii c) && (N_of_ascii c <=? 57))%N && all_chars ident_char s
  end.
