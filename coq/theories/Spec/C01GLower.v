(* Spec/C01GLower.v — `lower_m`: the member-wise, PATH-BASED lowering of a bundle design (Spec/C01BLower.v:lower) generalised to a
   naming that depends on the MODULE (`nm : bmodule -> bundle/port name -> member path -> flat name`), because the names the
   implementation gives to flattened signals depend on everything else the module holds (hdl21/elab/passes/base.py:flatname
   avoids the module namespace), so no design-wide naming function exists.

   Differences from `lower` (none of them visible to Spec/Nets.step, which looks connections up by port name):
     - own signals of module m are named by `nm m`, the ports of an instance of module c by `nm c`;
     - the flattened signals / ports of the bundle instances come in the order BundleFlattener creates them (the bundle
       instance added last first: `while module.bundles: popitem()`), after the scalar ones;
     - the connections of an instance stay in the order they were written, a connection to a bundle-valued port being
       replaced IN PLACE by one connection per member of the port (replace_bundle_conn after repair 0e3c50b);
     - Pairs are not lowered here: InstBundleElabPass has replaced them by two instances before (Model/C01GBundlePasses.v:
       ib_design); on a design that still has a Pair `lower_m` treats it as a single instance (theorems ask no_pairs).

   The connection of member path q of a port is, as in `lower`, what Base/C01BDesign.member says member q of the written
   connection is: the flat signal of a bundle instance / sub-bundle reference, the member expression of an anonymous bundle,
   the flat port of the referred sibling instance, or a no-connect leaf.

   Representation: leaves that the lowering invents are first kept symbolically (`PLeaf lf w`), then numbered behind the
   leaves of the written module (`finish_module`), exactly as `lower` numbers them. *)
Require Import Hdl21.Base.PyInt Hdl21.Spec.PySlice Hdl21.Model.Slice Hdl21.Model.Resolve Hdl21.Base.Design
               Hdl21.Spec.Nets Hdl21.Spec.WfDesign Hdl21.Base.C01BDesign Hdl21.Spec.C01BNets Hdl21.Spec.C01BWf Hdl21.Spec.C01BLower.
Require Hdl21.Spec.BundleSpec.

Definition naming := name -> mpath -> name.

(* a connection value before its invented leaves are numbered *)
Inductive pval := PSx (cx : sx) | PLeaf (lf : leaf) (w : Z).

Record xinst := { xi_name : name; xi_n : Z; xi_of : target; xi_conns : list (name * pval) }.

Definition pval_leaves (v : pval) : list leaf := match v with PLeaf lf _ => [lf] | PSx _ => [] end.

Definition xinsts_leaves (xs : list xinst) : list leaf :=
  flat_map (fun x => flat_map (fun c : name * pval => pval_leaves (snd c)) (xi_conns x)) xs.

Definition pval_sx (off : N) (ex : list leaf) (v : pval) : sx :=
  match v with PSx cx => cx | PLeaf lf w => XSig (leaf_id off ex lf) w end.

Definition finish_inst (off : N) (ex : list leaf) (x : xinst) : inst :=
  {| i_name := xi_name x; i_n := xi_n x; i_of := xi_of x;
     i_conns := map (fun c : name * pval => (fst c, pval_sx off ex (snd c))) (xi_conns x) |}.

Definition finish_module (m : bmodule) (own : naming) (ports sigs : list (name * Z)) (xs : list xinst) : module :=
  {| m_name := bm_name m; m_ports := ports; m_sigs := sigs;
     m_insts := map (finish_inst (leaf_off m) (xinsts_leaves xs)) xs;
     m_leaves := map (fun il : N * bleaf => (fst il, lower_leaf own (snd il))) (bm_leaves m)
                 ++ number_leaves_from (leaf_off m) (xinsts_leaves xs) |}.

(* scalar items of a module in the order BundleFlattener leaves them: scalars, then the members of the bundle instances, last added first *)
Definition mod_sports_r (m : bmodule) : list sitem := scalar_items (bm_ports m) ++ bundle_members true (rev (bm_bundles m)).
Definition mod_ssigs_r (m : bmodule) : list sitem := scalar_items (bm_sigs m) ++ bundle_members false (rev (bm_bundles m)).

Definition target_sports_r (d : bdesign) (t : target) : list sitem :=
  match t with
  | TDev _ ps => scalar_items ps
  | TMod k => match nth_error (bd_mods d) k with Some m => mod_sports_r m | None => [] end
  end.

Section LowerM.
Variable nm : bmodule -> naming.

(* the naming of the ports of a target *)
Definition tnm (d : bdesign) (t : target) : naming :=
  match t with
  | TMod k => match nth_error (bd_mods d) k with Some c => nm c | None => fun s _ => s end
  | TDev _ _ => fun s _ => s
  end.

(* the naming of the ports of the sibling instance i of module m *)
Definition inst_nm (d : bdesign) (m : bmodule) (i : name) : naming :=
  match find_binst (bm_insts m) i with Some y => tnm d (bi_of y) | None => fun s _ => s end.

Definition mt_leaf_m (d : bdesign) (m : bmodule) (t : mtarget) : leaf :=
  match t with
  | MTSig b q => LSig (lname (nm m) b q)
  | MTRef i p q => LRef i (lname (inst_nm d m i) p q)
  | MTNc => LNc 0
  | MTSx _ => LNc 0
  end.

Definition mt_pval (d : bdesign) (m : bmodule) (t : result mtarget) (w : Z) : pval :=
  match t with
  | Ok (MTSx cx) => PSx cx
  | Ok t' => PLeaf (mt_leaf_m d m t') w
  | Error _ => PSx (XSig 0%N 0)
  end.

(* the scalar items (member paths with widths) of port `port` of a target, in flattening order *)
Definition port_items (d : bdesign) (t : target) (port : name) : list sitem :=
  filter (fun it : sitem => String.eqb (fst (fst it)) port) (target_sports_r d t).

Definition lower_conn (d : bdesign) (m : bmodule) (x : binst) (c : name * bexpr) : list (name * pval) :=
  map (fun it : sitem => (skey (tnm d (bi_of x)) it, mt_pval d m (member (snd c) (snd (fst it))) (snd it)))
      (port_items d (bi_of x) (fst c)).

Definition lower_xinst (d : bdesign) (m : bmodule) (x : binst) : xinst :=
  {| xi_name := bi_name x; xi_n := bi_n x; xi_of := bi_of x; xi_conns := flat_map (lower_conn d m x) (bi_conns x) |}.

Definition lower_m_module (d : bdesign) (m : bmodule) : module :=
  finish_module m (nm m) (lower_sigs (nm m) (mod_sports_r m)) (lower_sigs (nm m) (mod_ssigs_r m))
                (map (lower_xinst d m) (bm_insts m)).

Definition lower_m (d : bdesign) : design := {| d_mods := map (lower_m_module d) (bd_mods d); d_top := bd_top d |}.

(* the node map: the flat name of a member is the one its module gives it *)
Definition path_nm (d : bdesign) (p : path) : naming :=
  match bmod_at d p with Ok m => nm m | Error _ => fun s _ => s end.
Definition port_nm (d : bdesign) (p : path) (i : name) : naming :=
  match bmod_at d p with Ok m => inst_nm d m i | Error _ => fun s _ => s end.

Definition phi_m (d : bdesign) (n : bnode) : node :=
  match n with
  | NBSig p s mp k => NSig p (lname (path_nm d p) s mp) k
  | NBPort p i e port mp k => NPort p i e (lname (port_nm d p i) port mp) k
  | NBNc p s k => NNc p s k
  end.

(* ---- hypotheses, as boolean checks ---- *)
(* the naming is injective on every module: scalar names and flat member names are pairwise distinct; bundle instances and
   the ports of a leaf device have distinct names *)
Definition module_names_ok_m (m : bmodule) : bool :=
  nodup_names (map (skey (nm m)) (mod_sports_r m ++ mod_ssigs_r m)) &&
  nodup_names (map (fun pt : bool * btree => BundleSpec.bname (snd pt)) (bm_bundles m)).
Definition names_ok_m (d : bdesign) : bool :=
  forallb (fun m => module_names_ok_m m && forallb dev_names_ok (bm_insts m)) (bd_mods d).
End LowerM.

Definition no_pairs (d : bdesign) : bool := forallb (fun m => forallb (fun x => negb (bi_pair x)) (bm_insts m)) (bd_mods d).

(* ---- decidable well-formedness used by the theorems about the model of the bundle passes (Props/C01G.v); all of it follows
   from Spec/C01BWf.v:wf_bdesign except the last item, which Python cannot violate (keyword arguments / dict keys are distinct):
   per module: the names of the module's attributes (ports, signals, bundle instances, instances) are pairwise distinct
   (stated twice: for ports and bundle instances alone, and for all of them); every bundle definition tree is well formed
   (member names distinct at every level); the ports of a leaf device have distinct names; the member names of every
   anonymous bundle are pairwise distinct, at every nesting level ---- *)
Fixpoint bexpr_nodup (bx : bexpr) : bool :=
  match bx with
  | BXAnon ms => BundleSpec.snodup (map fst ms) &&
                 (fix go (l : list (name * bexpr)) : bool := match l with [] => true | (_, sub) :: l' => bexpr_nodup sub && go l' end) ms
  | _ => true
  end.

(* module.namespace: every named attribute of the module *)
Definition mod_names (m : bmodule) : list name :=
  map fst (bm_ports m) ++ map fst (bm_sigs m) ++ map (fun pt : bool * btree => BundleSpec.bname (snd pt)) (bm_bundles m) ++ map bi_name (bm_insts m).

Definition bp_wf_module (m : bmodule) : bool :=
  nodup_names (map fst (bm_ports m) ++ map (fun pt : bool * btree => BundleSpec.bname (snd pt)) (bm_bundles m)) &&
  forallb (fun pt : bool * btree => BundleSpec.wf_tree (snd pt)) (bm_bundles m) &&
  forallb (fun x => dev_names_ok x && forallb (fun c : name * bexpr => bexpr_nodup (snd c)) (bi_conns x)) (bm_insts m) &&
  nodup_names (mod_names m).

Definition bp_wf (d : bdesign) : bool := forallb bp_wf_module (bd_mods d).

(* ---- decidable well-formedness used by the theorem about InstBundleElabPass (Pairs); all of it follows from wf_bdesign:
   attribute names of a module pairwise distinct; a Pair's port is connected to a scalar expression, a bundle INSTANCE
   (not a reference into one) or an anonymous bundle; port references (scalar leaves and bundle-port references, at any depth
   of an anonymous bundle) never point at a Pair ---- *)
Definition pair_shape (bx : bexpr) : bool := match bx with BXSx _ | BXInst _ [] | BXAnon _ => true | _ => false end.

Definition not_pair (m : bmodule) (i : name) : bool :=
  match find_binst (bm_insts m) i with Some y => negb (bi_pair y) | None => true end.

Definition pairs_wf_module (m : bmodule) : bool :=
  nodup_names (mod_names m) &&
  forallb (fun x => negb (bi_pair x) || forallb (fun c : name * bexpr => pair_shape (snd c)) (bi_conns x)) (bm_insts m) &&
  forallb (fun il : N * bleaf => match snd il with BLRef i _ => not_pair m i | _ => true end) (bm_leaves m) &&
  forallb (fun x => forallb (fun c : name * bexpr => forallb (fun r : name * name => not_pair m (fst r)) (bexpr_refs (snd c))) (bi_conns x)) (bm_insts m).

Definition pairs_wf (d : bdesign) : bool := forallb pairs_wf_module (bd_mods d).

(* a path of a node is valid: every element names an instance of a module of the design; the element of a Pair is 0 or 1
   (Spec/C01BLower.v:bnode_ok says the same of the instance of a port node, not of its path) *)
Fixpoint pokb (d : bdesign) (m : bmodule) (q : list pelem) : bool :=
  match q with
  | [] => true
  | (i, e) :: q' =>
      match find_binst (bm_insts m) i with
      | Some x =>
          (negb (bi_pair x) || (e =? 0) || (e =? 1)) &&
          match bi_of x with
          | TMod k => match nth_error (bd_mods d) k with Some m' => pokb d m' q' | None => false end
          | TDev _ _ => false
          end
      | None => false
      end
  end.

Definition node_path_ok (d : bdesign) (n : bnode) : bool :=
  match n with
  | NBSig p _ _ _ | NBPort p _ _ _ _ _ =>
      match nth_error (bd_mods d) (bd_top d) with Some top => pokb d top (rev p) | None => false end
  | NBNc _ _ _ => true
  end.
