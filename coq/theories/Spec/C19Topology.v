(* Spec/C19Topology.v — what property C19 demands of the module a built-in generator returns,
   stated on nets and independent of how generators.py builds it.

   The terminals of the generated module are the bits of its ports and the bits of the ports of its unit
   instances.  The property names the net of every terminal:
     module port p, bit j                         -> the net of module port p, bit j
     unit k, port p (not a series port), bit j    -> the net of module port p, bit j          (parallel)
     unit 0, first series port a                  -> the net of module port a                 (end)
     unit n-1, second series port b               -> the net of module port b                 (end)
     unit k, port b (k < n-1) and unit k+1, port a -> private net "chain k", shared with nothing else
   Two terminals are on one net iff they have the same key; `same_partition` compares that with the nets
   observed in a package.  Series ports of width w >= 1 (the property ranges over unit cells with BUS ports and over
   all ordered pairs of distinct unit ports): the same statement bit by bit - bit j of port b of unit k and bit j of
   port a of unit k+1 are on the private net `KChain k j`, and there are (n-1)*w private nets.  Joining a port to a port
   of another width means nothing: such a pair (n >= 2) is among the inputs on which nothing can be built. *)
Require Import Hdl21.Base.PyInt Hdl21.Base.Design.
From Coq Require String.
Open Scope string_scope.
Open Scope Z_scope.

(* a unit cell as its IO: Signal-valued ports (name, width), Bundle-valued ports (name, members (name, width)) *)
Record unit := { u_sigs : list (name * Z); u_buns : list (name * list (name * Z)) }.

Definition flat_bundle (b : name * list (name * Z)) : list (name * Z) :=
  map (fun mw => (sapp (fst b) (sapp "_" (fst mw)), snd mw)) (snd b).

(* the leaf-level ports of the unit: signal-valued ones, then the flattened members of its bundle-valued ones *)
Definition unit_io (u : unit) : list (name * Z) := u_sigs u ++ concat (map flat_bundle (u_buns u)).

(* the attribute names a module holding clones of the unit's ports has *)
Definition unit_names (u : unit) : list name := map fst (u_sigs u) ++ map fst (u_buns u).

Definition mem (s : name) (l : list name) : bool := existsb (String.eqb s) l.

Inductive netkey := KPort (p : name) (j : Z) | KChain (k j : Z).

Definition netkey_eqb (x y : netkey) : bool :=
  match x, y with
  | KPort p j, KPort q l => String.eqb p q && (j =? l)
  | KChain k j, KChain m l => (k =? m) && (j =? l)
  | _, _ => false
  end.

(* net of bit j of port p of unit k in a series stack of n units over the ordered pair (a, b) *)
Definition series_key (n : Z) (a b : name) (k : Z) (p : name) (j : Z) : netkey :=
  if String.eqb p a then (if k =? 0 then KPort a j else KChain (k - 1) j)
  else if String.eqb p b then (if k =? n - 1 then KPort b j else KChain k j)
  else KPort p j.

Definition wrapper_key (k : Z) (p : name) (j : Z) : netkey := KPort p j.

Definition bits_of (w : Z) : list Z := iota (Z.to_nat w) 0 1.

Definition port_keys (io : list (name * Z)) : list netkey :=
  concat (map (fun pw => map (KPort (fst pw)) (bits_of (snd pw))) io).

Definition unit_keys (key : Z -> name -> Z -> netkey) (n : Z) (io : list (name * Z)) : list netkey :=
  concat (map (fun k => concat (map (fun pw => map (key k (fst pw)) (bits_of (snd pw))) io)) (bits_of n)).

(* the expected partition, as the key of every terminal: module port bits, then unit 0's ports, unit 1's, ... *)
Definition spec_series (n : Z) (io : list (name * Z)) (a b : name) : list netkey :=
  port_keys io ++ unit_keys (series_key n a b) n io.

Definition spec_wrapper (io : list (name * Z)) : list netkey :=
  port_keys io ++ unit_keys wrapper_key 1 io.

(* two labellings of one terminal list describe the same partition *)
Fixpoint agree_with {A B} (ea : A -> A -> bool) (eb : B -> B -> bool) (a : A) (b : B) (la : list A) (lb : list B) : bool :=
  match la, lb with
  | [], [] => true
  | a' :: la', b' :: lb' => Bool.eqb (ea a a') (eb b b') && agree_with ea eb a b la' lb'
  | _, _ => false
  end.

Fixpoint same_partition {A B} (ea : A -> A -> bool) (eb : B -> B -> bool) (la : list A) (lb : list B) : bool :=
  match la, lb with
  | [], [] => true
  | a :: la', b :: lb' => agree_with ea eb a b la' lb' && same_partition ea eb la' lb'
  | _, _ => false
  end.

(* the inputs the property quantifies over: n >= 1; for n >= 2 an ordered pair of distinct signal-valued ports of the
   unit of one width (one bit or a bus) *)
Definition sig_width (u : unit) (c : name) : option Z := assoc c (u_sigs u).

Definition valid_series (u : unit) (a b : name) (n : Z) : bool :=
  (1 <=? n) &&
  ((n =? 1) || (negb (String.eqb a b) &&
                match sig_width u a, sig_width u b with Some wa, Some wb => (1 <=? wa) && (wa =? wb) | _, _ => false end)).

(* inputs on which nothing can be built: n < 1, or (n >= 2) a series port that is not a signal-valued port of the unit,
   or two series ports of different widths *)
Definition must_reject_series (u : unit) (a b : name) (n : Z) : bool :=
  (n <? 1) || ((2 <=? n) && match sig_width u a, sig_width u b with Some wa, Some wb => negb (wa =? wb) | _, _ => true end).
