(* Spec/C01BNets.v — the electrical meaning of a written design of the BUNDLE fragment, defined directly on member paths
   (no flattening, no invented names).

   Nodes carry a member path: `NBSig p s mp k` is bit k of member mp of the bundle instance s (mp = []: the scalar
   signal s) of the module reached by p; `NBPort p i e port mp k` is bit k of member mp of the port `port` of element e
   of instance i.  One-step map `bstep`:
     - a scalar port bit goes to bit k of the expression connected to it (as Spec/Nets.step; a leaf may now be the
       scalar member of a bundle instance);
     - member mp, bit k of a bundle-valued port goes to THE SAME member path, same bit, of what is connected:
         bundle instance b / sub-bundle reference b.pre  ->  member pre ++ mp of b
         anonymous bundle                                 ->  navigate mp through its members; a scalar member
                                                              expression is read like a scalar connection (arrays: broadcast
                                                              if as wide as the member, element e takes bits e*w.. if n*w wide)
         bundle port p' of instance i'                    ->  member mp of that port
         no-connect                                       ->  nothing: the bit is a fixed point (a net of its own,
                                                              per array element)
     - a port of a Pair: connected to a scalar, both elements take it; connected to a bundle-like, element "p"/"n"
       takes the member of that name;
     - the bit of a port signal / port-bundle member of a non-top module goes up to the port bit of the instance it was
       reached through; everything else is a fixed point.
   Two nodes are on one net iff their orbits meet (FunGraph.conn_meet). *)
Require Import Hdl21.Base.PyInt Hdl21.Spec.PySlice Hdl21.Model.Slice Hdl21.Model.Resolve Hdl21.Base.Design
               Hdl21.Spec.Nets Hdl21.Base.C01BDesign.
Require Hdl21.Spec.BundleSpec.

Inductive bnode :=
| NBSig (p : path) (s : name) (mp : mpath) (k : Z)
| NBPort (p : path) (i : name) (e : Z) (port : name) (mp : mpath) (k : Z)
| NBNc (p : path) (site : N) (k : Z).

Definition mpath_eqb (a b : mpath) : bool := BundleSpec.path_eqb a b.

Definition bnode_eqb (a b : bnode) : bool :=
  match a, b with
  | NBSig p s m k, NBSig q t n l => path_eqb p q && String.eqb s t && mpath_eqb m n && (k =? l)
  | NBPort p i e x m k, NBPort q j f y n l =>
      path_eqb p q && String.eqb i j && (e =? f) && String.eqb x y && mpath_eqb m n && (k =? l)
  | NBNc p s k, NBNc q t l => path_eqb p q && N.eqb s t && (k =? l)
  | _, _ => false
  end.

Fixpoint bmod_down (d : bdesign) (m : bmodule) (p : list pelem) : result bmodule :=   (* p outermost first *)
  match p with
  | [] => Ok m
  | (i, _) :: p' =>
      x <- ofopt EMissing (find_binst (bm_insts m) i) ;;
      match bi_of x with
      | TMod k => m' <- nth_bmod d k ;; bmod_down d m' p'
      | TDev _ _ => Error EBadKind
      end
  end.

Definition bmod_at (d : bdesign) (p : path) : result bmodule :=
  top <- nth_bmod d (bd_top d) ;; bmod_down d top (rev p).

(* which bit of the scalar expression cx feeds bit k of a w-wide port (member) of element e of an n-array (n = 0: single) *)
Definition sx_bit (n : Z) (cx : sx) (wr : result Z) (e k : Z) : result (N * Z) :=
  bits <- xbits cx ;; w <- wr ;;
  if (k <? 0) || (w <=? k) then Error EOutOfBounds else
  if zlen bits =? w then pick bits k
  else if (0 <? n) && (zlen bits =? n * w) then pick bits (e * w + k)
  else Error EWidth.

Definition in_width (wr : result Z) (k : Z) : result unit :=
  w <- wr ;; if (k <? 0) || (w <=? k) then Error EOutOfBounds else Ok tt.

(* the node denoted by bit j of leaf id *)
Definition leaf_node (m : bmodule) (p : path) (self : bnode) (id : N) (j : Z) : result bnode :=
  lf <- ofopt EMissing (assocN id (bm_leaves m)) ;;
  match lf with
  | BLSig s => Ok (NBSig p s [] j)
  | BLMem b q => Ok (NBSig p b q j)
  | BLRef i' p' => Ok (NBPort p i' 0 p' [] j)
  | BLNc _ => Ok self          (* a no-connect: the port bit ends on a net of its own *)
  end.

Definition bstep (d : bdesign) (n : bnode) : result bnode :=
  match n with
  | NBPort p i e port mp k =>
      m <- bmod_at d p ;; x <- ofopt EMissing (find_binst (bm_insts m) i) ;;
      match bassoc port (bi_conns x) with
      | None => Ok n
      | Some bx =>
          let wr := btarget_port_width d (bi_of x) port mp in
          let mp' := if bi_pair x && negb (is_sx bx) then pair_elem e :: mp else mp in
          t <- member bx mp' ;;
          match t with
          | MTSx cx => ij <- sx_bit (if bi_pair x then 0 else bi_n x) cx wr e k ;; leaf_node m p n (fst ij) (snd ij)
          | MTSig b q => _ <- in_width wr k ;; Ok (NBSig p b q k)
          | MTRef i' p' q => _ <- in_width wr k ;; Ok (NBPort p i' 0 p' q k)
          | MTNc => _ <- in_width wr k ;; Ok n
          end
      end
  | NBSig p s mp k =>
      match p with
      | [] => Ok n
      | (i, e) :: p' => m <- bmod_at d p ;; if is_bport m s mp then Ok (NBPort p' i e s mp k) else Ok n
      end
  | NBNc _ _ _ => Ok n
  end.

Fixpoint borbit (d : bdesign) (fuel : nat) (n : bnode) : result (list bnode) :=
  match fuel with
  | O => Ok [n]
  | S f => n' <- bstep d n ;; if bnode_eqb n' n then Ok [n] else r <- borbit d f n' ;; Ok (n :: r)
  end.

Definition bmeets (a b : list bnode) : bool := existsb (fun x => existsb (bnode_eqb x) b) a.

Fixpoint bfirst_meet (o : list bnode) (os : list (list bnode)) (k : Z) : Z :=
  match os with
  | [] => -1
  | o' :: os' => if bmeets o o' then k else bfirst_meet o os' (k + 1)
  end.

Definition blabels (d : bdesign) (fuel : nat) (ts : list bnode) : result (list Z) :=
  os <- traverse (borbit d fuel) ts ;; Ok (map (fun o => bfirst_meet o os 0) os).

(* number of scalar connection sites of a bundle expression (for the fuel bound) *)
Fixpoint bexpr_size (bx : bexpr) : nat :=
  match bx with
  | BXAnon ms => S (fold_right (fun nb a => (bexpr_size (snd nb) + a)%nat) O ms)
  | _ => 1%nat
  end.

Definition bdesign_fuel (d : bdesign) : nat :=
  fold_right (fun m acc => (2 + 2 * fold_right (fun x a => (fold_right (fun c b => (4 * bexpr_size (snd c) + b)%nat) O (bi_conns x) + a)%nat) 0%nat (bm_insts m) + acc)%nat)
             4%nat (bd_mods d).

(* ---- terminals: bits of the top module's scalar ports and port-bundle members, and port bits of every leaf device ---- *)
Definition belems (x : binst) : list Z :=
  if bi_pair x then [0; 1] else if bi_n x <=? 0 then [0] else iota (Z.to_nat (bi_n x)) 0 1.

Fixpoint bdev_terms (d : bdesign) (fuel : nat) (m : bmodule) (p : path) : result (list (bnode * name)) :=
  match fuel with
  | O => Error EFuel
  | S f =>
      cat_results (map (fun x =>
        cat_results (map (fun e =>
          match bi_of x with
          | TDev dev ps =>
              Ok (concat (map (fun pw => map (fun k => (NBPort p (bi_name x) e (fst pw) [] k, dev)) (iota (Z.to_nat (snd pw)) 0 1)) ps))
          | TMod k => m' <- nth_bmod d k ;; bdev_terms d f m' ((bi_name x, e) :: p)
          end) (belems x))) (bm_insts m))
  end.

Definition bundle_port_terms (bs : list (bool * btree)) : list (bnode * name) :=
  concat (map (fun pt : bool * btree =>
    if fst pt then
      concat (map (fun qw : mpath * Z => map (fun k => (NBSig [] (BundleSpec.bname (snd pt)) (fst qw) k, "")) (iota (Z.to_nat (snd qw)) 0 1))
                  (tree_members (snd pt)))
    else []) bs).

Definition bterminals (d : bdesign) : result (list (bnode * name)) :=
  top <- nth_bmod d (bd_top d) ;;
  devs <- bdev_terms d (S (Datatypes.length (bd_mods d))) top [] ;;
  Ok (concat (map (fun pw => map (fun k => (NBSig [] (fst pw) [] k, "")) (iota (Z.to_nat (snd pw)) 0 1)) (bm_ports top))
      ++ bundle_port_terms (bm_bundles top) ++ devs).
