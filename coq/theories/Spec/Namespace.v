(* Spec/Namespace.v — what property C18 means, independently of how hdl21 stores attributes.

   A Module / Bundle is, abstractly, a finite map  name -> object  plus an "elaborated" flag.
   An edit either is rejected (map unchanged) or binds one name to the edit's (fresh) object.
   The per-kind views, attribute access, the parent pointer and the exported package are all
   functions of that map: that is the coherence the property asks for (`coherent` below is stated on
   observations in Corr/C18.v and on the concrete model state in Proofs/NamespaceProofs.v). *)
Require Import Hdl21.Base.PyInt.
From Coq Require Import String Ascii.
Require Import Hdl21Gen.Banned.
Open Scope string_scope.
Open Scope Z_scope.

Definition name := string.

Inductive ctr := CModule | CBundle.

(* hdl21.signal.PortDir: the `direction` field of a Signal.  It is DATA of the signal (what the exported port says); it
   is independent of `vis`: h.Port() is port-visible with direction NONE, h.Signal(direction=PortDir.INPUT) or an
   h.Input() whose `vis` was set to INTERNAL is an internal signal that carries a direction. *)
Inductive pdir := DNone | DInput | DOutput | DInout.

(* the kinds of Python values an edit can carry *)
Inductive vkind :=
| KSignal (port : bool) (dir : pdir)   (* hdl21.Signal; port = (vis == Visibility.PORT), dir = direction *)
| KInstance | KInstArray | KInstBundle | KBundleInst
| KStr                       (* a str or None: only meaningful for `name` *)
| KOther.                    (* int, function, Module, Generator, Bundle definition, ... *)

Inductive view := VPorts | VSignals | VInstances | VInstArrays | VInstBundles | VBundles.

(* an object: identity, kind, and the `name` attribute it currently carries *)
Record value := V { v_id : Z; v_kind : vkind; v_name : option name }.

(* which view lists an object of a given kind (None: not storable in this container) *)
Definition view_of (c : ctr) (k : vkind) : option view :=
  match c, k with
  | CModule, KSignal true _ => Some VPorts       (* module.py:_add looks at `val.vis` only, never at `val.direction` *)
  | CModule, KSignal false _ => Some VSignals
  | CModule, KInstance => Some VInstances
  | CModule, KInstArray => Some VInstArrays
  | CModule, KInstBundle => Some VInstBundles
  | CModule, KBundleInst => Some VBundles
  | CBundle, KSignal _ _ => Some VSignals
  | CBundle, KBundleInst => Some VBundles
  | _, _ => None
  end.

Definition is_attr (c : ctr) (k : vkind) : bool :=
  match view_of c k with Some _ => true | None => false end.

Definition mem (n : name) (l : list name) : bool := existsb (String.eqb n) l.

Definition reserved_names (c : ctr) : list name :=
  match c with CModule => module_reserved | CBundle => bundle_reserved end.
Definition banned_names (c : ctr) : list name :=
  match c with CModule => module_banned | CBundle => bundle_banned end.
Definition public_attrs (c : ctr) : list name :=
  match c with CModule => module_public_attrs | CBundle => bundle_public_attrs end.

Definition reserved (c : ctr) (n : name) : bool := mem n (reserved_names c).

(* key.startswith("_") : Python-private names never enter the HDL namespace through assignment *)
Definition is_private (n : name) : bool :=
  match n with String a _ => Ascii.eqb a "_"%char | EmptyString => false end.

Inductive op :=
| SetAttr (n : name) (v : value)          (* c.n = v *)
| Add (v : value) (n : option name)       (* c.add(v, name=n) *)
| Del (n : name)                          (* del c.n *)
| Elaborate.                              (* h.elaborate(c) *)

Definition store_name (v : value) (n : name) : value := V (v_id v) (v_kind v) (Some n).

(* abstract state *)
Record astate := A { a_map : name -> option value; a_elab : bool }.
Definition a_init : astate := A (fun _ => None) false.

Inductive outcome := Rejected | Accepted (a : astate).

Definition spec_insert (c : ctr) (a : astate) (n : name) (v : value) : outcome :=
  if a_elab a then Rejected                       (* additions after elaboration *)
  else if reserved c n then Rejected              (* reserved names *)
  else if negb (is_attr c (v_kind v)) then Rejected   (* non-HDL values *)
  else Accepted (A (fun m => if String.eqb m n then Some (store_name v n) else a_map a m) (a_elab a)).

Definition spec_step (c : ctr) (a : astate) (o : op) : outcome :=
  match o with
  | SetAttr n v =>
      if is_private n then Accepted a             (* a plain Python attribute; the HDL namespace is untouched *)
      else if String.eqb n "name"
      then match v_kind v with KStr => Accepted a | _ => Rejected end
      else spec_insert c a n v
  | Add v on =>
      match on, v_name v with
      | Some n, None | None, Some n => spec_insert c a n v
      | _, _ => Rejected                          (* anonymous, or two conflicting names *)
      end
  | Del _ => Rejected
  | Elaborate => Accepted (A (a_map a) true)
  end.

Definition spec_apply (c : ctr) (a : astate) (o : op) : astate :=
  match spec_step c a o with Accepted a' => a' | Rejected => a end.

Definition spec_run (c : ctr) (ops : list op) : astate := fold_left (spec_apply c) ops a_init.

Definition accepted (r : outcome) : bool := match r with Accepted _ => true | Rejected => false end.

(* class-style definitions: the class body is a list of (key, value) with distinct keys, in order.
   HDL-valued items are assigned in order; other values are forgotten; an HDL value under a reserved
   key is rejected.  (Whether a NON-HDL value under a reserved key is an error is not fixed by the property:
   `class_dontcare`.) *)
Definition class_ops (c : ctr) (items : list (name * value)) : list op :=
  map (fun kv => SetAttr (fst kv) (snd kv)) (filter (fun kv => is_attr c (v_kind (snd kv))) items).

Definition class_dontcare (c : ctr) (items : list (name * value)) : bool :=
  existsb (fun kv => negb (is_attr c (v_kind (snd kv))) && (reserved c (fst kv) || String.eqb (fst kv) "Roles")) items.

Fixpoint spec_run_strict (c : ctr) (a : astate) (ops : list op) : outcome :=
  match ops with
  | [] => Accepted a
  | o :: t => match spec_step c a o with Accepted a' => spec_run_strict c a' t | Rejected => Rejected end
  end.

Definition spec_class (c : ctr) (items : list (name * value)) : outcome :=
  spec_run_strict c a_init (class_ops c items).
