(* Spec/BundleSpec.v — what property C10 means, written over PATHS, independently of the flattening algorithm.

   A bundle instance is a finite tree: every node is an instance (name, flips, role) of a definition whose
   scalar members (leaves) and sub-bundle instances are listed in definition order.  The specification never
   threads a flip state: it navigates from the root along a member path (`walk`), collects the instances it
   passes, and decides the direction from the NUMBER of flips on that path and from the role of the instance
   that directly contains the leaf. *)
From Coq Require Import String Ascii.
Require Import Hdl21.Base.PyInt.
Open Scope string_scope.
Open Scope list_scope.
Open Scope Z_scope.

Inductive dir := DIn | DOut | DInout | DNone.
Inductive vis := VPort | VInternal.
Definition role := string.      (* roles compare by name (hdl21/role.py: Role is a datatype with the field `name`) *)
Definition path := list string.

Record leaf := { lname : string; lwidth : Z;
                 lport : bool;            (* declared as a port: Input/Output/Inout/Port *)
                 ldir : dir;              (* declared direction (DNone for Port() and for plain signals) *)
                 lsrc : option role; ldest : option role }.

(* an instance with its definition inlined; `cflip` = constructor flag flipped=True, `nflip` = number of h.flipped() applied *)
Inductive btree := BT (bname : string) (cflip : bool) (nflip : nat) (brole : option role)
                      (sigs : list leaf) (subs : list btree).

Definition bname (t : btree) := let 'BT n _ _ _ _ _ := t in n.
Definition bcflip (t : btree) := let 'BT _ c _ _ _ _ := t in c.
Definition bnflip (t : btree) := let 'BT _ _ k _ _ _ := t in k.
Definition brole (t : btree) := let 'BT _ _ _ r _ _ := t in r.
Definition bsigs (t : btree) := let 'BT _ _ _ _ s _ := t in s.
Definition bsubs (t : btree) := let 'BT _ _ _ _ _ s := t in s.

(* number of flips written on one instance *)
Definition inst_flips (t : btree) : nat := ((if bcflip t then 1 else 0) + bnflip t)%nat.

Definition dir_eqb (a b : dir) : bool :=
  match a, b with DIn, DIn | DOut, DOut | DInout, DInout | DNone, DNone => true | _, _ => false end.
Definition vis_eqb (a b : vis) : bool :=
  match a, b with VPort, VPort | VInternal, VInternal => true | _, _ => false end.

Fixpoint find_leaf (n : string) (l : list leaf) : option leaf :=
  match l with [] => None | x :: xs => if String.eqb (lname x) n then Some x else find_leaf n xs end.
Fixpoint find_sub (n : string) (l : list btree) : option btree :=
  match l with [] => None | x :: xs => if String.eqb (bname x) n then Some x else find_sub n xs end.

(* navigation: the instances passed (root first) and the leaf reached *)
Fixpoint walk (p : path) (t : btree) : option (list btree * leaf) :=
  match p with
  | [] => None
  | n :: rest =>
      match rest with
      | [] => match find_leaf n (bsigs t) with Some l => Some ([t], l) | None => None end
      | _ :: _ => match find_sub n (bsubs t) with
                  | Some s => match walk rest s with Some (is, l) => Some (t :: is, l) | None => None end
                  | None => None
                  end
      end
  end.

(* all root-to-leaf paths, scalar members first, then the sub-bundles, each in definition order *)
Fixpoint paths (t : btree) : list path :=
  match t with
  | BT _ _ _ _ sigs subs =>
      map (fun l => [lname l]) sigs ++
      (fix go (l : list btree) : list path :=
         match l with [] => [] | s :: rest => map (cons (bname s)) (paths s) ++ go rest end) subs
  end.

Definition flips_on (insts : list btree) : nat := fold_right (fun t a => (inst_flips t + a)%nat) O insts.

Definition swap_dir (d : dir) : dir := match d with DIn => DOut | DOut => DIn | DInout => DInout | DNone => DNone end.

Definition opt_is (o : option role) (r : role) : bool := match o with Some x => String.eqb x r | None => false end.

(* the direction the property prescribes for a leaf reached through `insts` (root first) *)
Definition spec_dir (port : bool) (insts : list btree) (l : leaf) : dir :=
  if negb port then DNone else
  if lport l then (if Nat.even (flips_on insts) then ldir l else swap_dir (ldir l))
  else match brole (last insts (BT "" false O None [] [])) with
       | None => DNone
       | Some r => if opt_is (lsrc l) r then DOut else if opt_is (ldest l) r then DIn else DNone
       end.
Definition spec_vis (port : bool) : vis := if port then VPort else VInternal.

(* names *)
Fixpoint join_us (l : list string) : string :=
  match l with [] => "" | [x] => x | x :: xs => (x ++ "_" ++ join_us xs)%string end.
Fixpoint underscores (k : nat) : string := match k with O => "" | S k => ("_" ++ underscores k)%string end.
Definition base_name (inst : string) (p : path) : string := join_us (inst :: p).

Fixpoint all_us (s : string) : bool :=
  match s with EmptyString => true | String c r => Ascii.eqb c "_"%char && all_us r end.
(* n = b ++ underscores k for some k ?  returns k *)
Fixpoint us_suffix (b n : string) : option nat :=
  match b, n with
  | EmptyString, _ => if all_us n then Some (String.length n) else None
  | String c b', String d n' => if Ascii.eqb c d then us_suffix b' n' else None
  | String _ _, EmptyString => None
  end.

Fixpoint smem (s : string) (l : list string) : bool :=
  match l with [] => false | x :: xs => String.eqb x s || smem s xs end.
Fixpoint snodup (l : list string) : bool :=
  match l with [] => true | x :: xs => negb (smem x xs) && snodup xs end.

Fixpoint path_eqb (a b : path) : bool :=
  match a, b with
  | [], [] => true
  | x :: a', y :: b' => String.eqb x y && path_eqb a' b'
  | _, _ => false
  end.
Fixpoint passoc {A} (p : path) (l : list (path * A)) : option A :=
  match l with [] => None | (q, a) :: xs => if path_eqb q p then Some a else passoc p xs end.

(* a flattened signal as observed / as produced by the model *)
Record fsig := { fname : string; fwidth : Z; fvis : vis; fdir : dir }.
Definition scope := list (path * fsig).

(* well-formed definition tree: at every node the member names (leaves and sub-bundles, one namespace) are distinct *)
Fixpoint wf_tree (t : btree) : bool :=
  match t with
  | BT _ _ _ _ sigs subs =>
      snodup (map lname sigs ++ map bname subs) &&
      (fix go (l : list btree) : bool := match l with [] => true | s :: rest => wf_tree s && go rest end) subs
  end.

(* ---- the property on ONE flattened bundle instance ------------------------------------------------------
   inst  : the instance tree (its root carries the instance name, flips and role)
   port  : instantiated as a port or internally
   taken : every other name of the module namespace at the time of flattening
   sc    : the flattened signals, each with the member path it stands for *)
Definition leaf_ok (port : bool) (t : btree) (taken all_names : list string) (e : path * fsig) : bool :=
  let '(p, f) := e in
  match walk p t with
  | None => false
  | Some (insts, l) =>
      (fwidth f =? lwidth l) && vis_eqb (fvis f) (spec_vis port) && dir_eqb (fdir f) (spec_dir port insts l) &&
      match us_suffix (base_name (bname t) p) (fname f) with
      | None => false
      | Some k =>
          (* the joined name when it is free: every shorter candidate is taken by something else *)
          forallb (fun j => smem (base_name (bname t) p ++ underscores j)%string (taken ++ all_names)) (seq O k)
      end &&
      negb (smem (fname f) taken)
  end.

Definition scope_ok (port : bool) (t : btree) (taken : list string) (sc : scope) : bool :=
  let names := map (fun e => fname (snd e)) sc in
  forallb (fun p => match passoc p sc with Some _ => true | None => false end) (paths t) &&
  (length sc =? length (paths t))%nat &&
  snodup names &&
  forallb (leaf_ok port t taken names) sc.

(* ---- the property on a bundle connection ----------------------------------------------------------------
   child  : flattened ports of the instantiated module's bundle port (by member path)
   parent : what the parent offers, by member path (names of parent-side signals)
   conns  : the connections of the instance after flattening (child port name, parent signal name) *)
Fixpoint sassoc (s : string) (l : list (string * string)) : option string :=
  match l with [] => None | (k, v) :: xs => if String.eqb k s then Some v else sassoc s xs end.

Definition conns_ok (child : scope) (parent : list (path * string)) (conns : list (string * string)) : bool :=
  forallb (fun e => let '(p, f) := e in
                    match passoc p parent, sassoc (fname f) conns with
                    | Some s, Some s' => String.eqb s s'
                    | _, _ => false
                    end) child &&
  (length conns =? length child)%nat.
