(* Spec/C04LastWrite.v — what C04 means, independent of how instance.py keeps its books.

   The connection of a port after a history is decided by the operations ADDRESSED TO THAT PORT
   alone, read left to right: connect / assignment / call with a connectable writes it; replace()
   writes it if the port is connected and is refused otherwise; disconnect() clears it; a refused
   operation changes nothing; a call stops at its first non-connectable argument.  `final q ops`
   is therefore "what the last successful operation on q left there".

   The design handed to the elaborator is exactly this mapping, and the set of ports a connectable
   is attached to is exactly the pre-image of the mapping (`attached`): a connectable that was
   replaced or disconnected is attached to nothing because of it. *)
Require Import Hdl21.Base.PyInt Hdl21.Model.C04ConnOps.

Fixpoint call_port (q : pid) (i : Z) (kvs : list (Z * arg)) (cur : option conn) : option conn :=
  match kvs with
  | [] => cur
  | (p, a) :: t =>
      match norm a with
      | None => cur                                             (* the call raises here; the rest is not run *)
      | Some c => call_port q i t (if pid_eqb (i, p) q then Some c else cur)
      end
  end.

Definition port_step (q : pid) (cur : option conn) (o : op) : option conn :=
  match o with
  | Call i kvs => call_port q i kvs cur
  | SetAttr i p a | Connect i p a =>
      if pid_eqb (i, p) q then match norm a with Some c => Some c | None => cur end else cur
  | Replace i p a =>
      if pid_eqb (i, p) q then match cur, norm a with Some _, Some c => Some c | _, _ => cur end else cur
  | Disconnect i p => if pid_eqb (i, p) q then None else cur
  | GetRef _ _ => cur
  end.

Definition final (q : pid) (ops : list op) : option conn := fold_left (port_step q) ops None.

(* does the operation return normally, given the mapping before it *)
Fixpoint call_accepted (kvs : list (Z * arg)) : bool :=
  match kvs with [] => true | (_, a) :: t => match norm a with Some _ => call_accepted t | None => false end end.

Definition accepted (cur : pid -> option conn) (o : op) : bool :=
  match o with
  | Call _ kvs => call_accepted kvs
  | SetAttr _ _ a | Connect _ _ a => match norm a with Some _ => true | None => false end
  | Replace i p a => match norm a, cur (i, p) with Some _, Some _ => true | _, _ => false end
  | Disconnect i p => match cur (i, p) with Some _ => true | None => false end
  | GetRef _ _ => true
  end.

(* the ports (out of a finite universe) a connectable is attached to under a mapping *)
Definition conn_opt_eqb (a : option conn) (c : conn) : bool :=
  match a with Some x => conn_eqb x c | None => false end.
Definition attached (m : pid -> option conn) (universe : list pid) (c : conn) : list pid :=
  filter (fun q => conn_opt_eqb (m q) c) universe.

(* ports an operation addresses *)
Definition touches (q : pid) (o : op) : bool :=
  match o with
  | Call i kvs => existsb (fun kv => pid_eqb (i, fst kv) q) kvs
  | SetAttr i p _ | Connect i p _ | Replace i p _ | Disconnect i p => pid_eqb (i, p) q
  | GetRef _ _ => false
  end.
