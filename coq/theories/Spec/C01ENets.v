(* Spec/C01ENets.v — the statement side of the end-to-end theorem:
   `same_net d x y`  : the orbits of x and y under Spec/Nets.v:step meet (the relation `labels` decides,
                       Props/C01.v:C01_same_net_decided; by FunGraph.conn_meet the equivalence closure of
                       "bit k of a port ~ bit k of what is connected to it");
   `valid d n`       : n is a bit of a declared signal or of a port of an instance, at a path of the hierarchy
                       whose element indices exist (every terminal of `terminals d` is valid);
   `frag_ok d`       : the fragment the pipeline model covers - a port reference is a whole connection (never inside
                       a slice or concatenation), and the width written on a no-connect leaf is the port's. *)
Require Import Hdl21.Base.PyInt Hdl21.Spec.PySlice Hdl21.Model.Slice Hdl21.Model.Resolve Hdl21.Base.Design
               Hdl21.Spec.Nets Hdl21.Spec.WfDesign Hdl21.Base.Package Hdl21.Base.PrimTable.

Fixpoint iter_step (d : design) (n : nat) (x : node) : result node :=
  match n with O => Ok x | S n' => y <- Nets.step d x ;; iter_step d n' y end.
Definition same_net (d : design) (x y : node) : Prop :=
  exists m n z, iter_step d m x = Ok z /\ iter_step d n y = Ok z.

(* a package is read as the netlisters read it (Base/Package.v:design_of_pkg) *)
Definition same_net_pkg (p : package) (top : name) (x y : node) : Prop :=
  exists pd, design_of_pkg prims_ext p top = Ok pd /\ same_net pd x y.

Definition elem_ok (x : inst) (e : Z) : bool := if i_n x <=? 0 then e =? 0 else (0 <=? e) && (e <? i_n x).

(* mod_down that also checks the element indices *)
Fixpoint vdown (d : design) (m : module) (p : list pelem) : result module :=   (* p outermost first *)
  match p with
  | [] => Ok m
  | (i, e) :: p' =>
      x <- ofopt EMissing (find_inst (m_insts m) i) ;;
      if elem_ok x e then
        match i_of x with
        | TMod k => m' <- nth_mod d k ;; vdown d m' p'
        | TDev _ _ => Error EBadKind
        end
      else Error EOutOfBounds
  end.

Definition vmod_at (d : design) (p : path) : result module :=
  top <- nth_mod d (d_top d) ;; vdown d top (rev p).

Definition valid (d : design) (n : node) : Prop :=
  match n with
  | NSig p s k => exists m w, vmod_at d p = Ok m /\ sig_width m s = Some w /\ 0 <= k < w
  | NPort p i e port k =>
      exists m x w, vmod_at d p = Ok m /\ find_inst (m_insts m) i = Some x /\ elem_ok x e = true /\
                    port_width d x port = Ok w /\ 0 <= k < w
  | NNc _ _ _ => False
  end.

(* the leaf device a terminal belongs to ("" for a bit of a top-level port) *)
Definition dev_at (d : design) (n : node) : result name :=
  match n with
  | NPort p i _ _ _ =>
      m <- vmod_at d p ;; x <- ofopt EMissing (find_inst (m_insts m) i) ;;
      match i_of x with TDev dev _ => Ok dev | TMod _ => Error EBadKind end
  | NSig _ _ _ => Ok ""
  | NNc _ _ _ => Error EBadKind
  end.

(* ---- the modelled fragment ---- *)
Definition leaf_kind (m : module) (lw : N * Z) : option leaf := assocN (fst lw) (m_leaves m).

Definition conn_frag (d : design) (m : module) (x : inst) (c : name * sx) : bool :=
  match snd c with
  | XSig id w =>
      match assocN id (m_leaves m) with
      | Some (LNc _) => match port_width d x (fst c) with Ok pw => w =? pw | Error _ => false end
      | _ => true
      end
  | cx => forallb (fun lw => match leaf_kind m lw with Some (LRef _ _) => false | _ => true end) (sx_leaves cx)
  end.

Definition frag_ok (d : design) : bool :=
  forallb (fun m => forallb (fun x => forallb (conn_frag d m x) (i_conns x)) (m_insts m)) (d_mods d).
