(* Spec/Nets.v — the electrical meaning of a written design (the sentence of C01):
   "bit k of a connection reaches bit k of the port it is connected to".
   Nodes are signal bits, instance-port bits and no-connect bits, located by hierarchical path.
   `step` is the one-step map: a port bit goes to the bit of the expression connected to it
   (signal bit or referred port bit; a port on a no-connect - shared or not, named or not - is a fixed point; array element e of an n-array takes
   bit e*w+k of an n*w-wide connection or bit k of a w-wide one); a port-signal bit of a non-top
   module goes up to the port bit of the instance it was reached through; everything else is a fixed
   point.  Two nodes are on one net iff their orbits under `step` meet (FunGraph.conn_meet: that is
   exactly the equivalence closure of the one-step relation). *)
Require Import Hdl21.Base.PyInt Hdl21.Spec.PySlice Hdl21.Model.Slice Hdl21.Model.Resolve Hdl21.Base.Design.

Definition pelem := (name * Z)%type.      (* instance name, element index (0 for a single instance) *)
Definition path := list pelem.            (* innermost first *)

Inductive node :=
| NSig (p : path) (s : name) (k : Z)
| NPort (p : path) (i : name) (e : Z) (port : name) (k : Z)
| NNc (p : path) (site : N) (k : Z).

Fixpoint path_eqb (a b : path) : bool :=
  match a, b with
  | [], [] => true
  | (i, e) :: a', (j, f) :: b' => String.eqb i j && (e =? f) && path_eqb a' b'
  | _, _ => false
  end.

Definition node_eqb (a b : node) : bool :=
  match a, b with
  | NSig p s k, NSig q t l => path_eqb p q && String.eqb s t && (k =? l)
  | NPort p i e x k, NPort q j f y l => path_eqb p q && String.eqb i j && (e =? f) && String.eqb x y && (k =? l)
  | NNc p s k, NNc q t l => path_eqb p q && N.eqb s t && (k =? l)
  | _, _ => false
  end.

Fixpoint mod_down (d : design) (m : module) (p : list pelem) : result module :=   (* p outermost first *)
  match p with
  | [] => Ok m
  | (i, _) :: p' =>
      x <- ofopt EMissing (find_inst (m_insts m) i) ;;
      match i_of x with
      | TMod k => m' <- nth_mod d k ;; mod_down d m' p'
      | TDev _ _ => Error EBadKind
      end
  end.

Definition mod_at (d : design) (p : path) : result module :=
  top <- nth_mod d (d_top d) ;; mod_down d top (rev p).

(* which bit of its connection feeds bit k of port `port` of element e of instance x; None if unconnected *)
Definition conn_bit (d : design) (x : inst) (e : Z) (port : name) (k : Z) : result (option (N * Z)) :=
  match assoc port (i_conns x) with
  | None => Ok None
  | Some cx =>
      bits <- xbits cx ;; w <- port_width d x port ;;
      if (k <? 0) || (w <=? k) then Error EOutOfBounds else
      if zlen bits =? w then b <- pick bits k ;; Ok (Some b)
      else if (0 <? i_n x) && (zlen bits =? i_n x * w) then b <- pick bits (e * w + k) ;; Ok (Some b)
      else Error EWidth
  end.

Definition step (d : design) (n : node) : result node :=
  match n with
  | NPort p i e port k =>
      m <- mod_at d p ;; x <- ofopt EMissing (find_inst (m_insts m) i) ;;
      ob <- conn_bit d x e port k ;;
      match ob with
      | None => Ok n
      | Some (id, j) =>
          lf <- ofopt EMissing (assocN id (m_leaves m)) ;;
          match lf with
          | LSig s => Ok (NSig p s j)
          | LRef i' p' => Ok (NPort p i' 0 p' j)
          | LNc _ => Ok n      (* a no-connect: the port bit ends on a net of its own *)
          end
      end
  | NSig p s k =>
      match p with
      | [] => Ok n
      | (i, e) :: p' => m <- mod_at d p ;; if is_port m s then Ok (NPort p' i e s k) else Ok n
      end
  | NNc _ _ _ => Ok n
  end.

(* the orbit of a node, cut at its fixed point or after `fuel` steps *)
Fixpoint orbit (d : design) (fuel : nat) (n : node) : result (list node) :=
  match fuel with
  | O => Ok [n]
  | S f => n' <- step d n ;; if node_eqb n' n then Ok [n] else r <- orbit d f n' ;; Ok (n :: r)
  end.

Definition meets (a b : list node) : bool := existsb (fun x => existsb (node_eqb x) b) a.

(* label of terminal i = position of the first terminal whose orbit meets its own *)
Fixpoint first_meet (o : list node) (os : list (list node)) (k : Z) : Z :=
  match os with
  | [] => -1
  | o' :: os' => if meets o o' then k else first_meet o os' (k + 1)
  end.

Definition labels (d : design) (fuel : nat) (ts : list node) : result (list Z) :=
  os <- traverse (orbit d fuel) ts ;; Ok (map (fun o => first_meet o os 0) os).

(* an upper bound on orbit lengths: every connection of every module, twice, plus the depth *)
Definition design_fuel (d : design) : nat :=
  fold_right (fun m acc => (2 + 2 * fold_right (fun x a => (Datatypes.length (i_conns x) * 4 + a)%nat) 0%nat (m_insts m) + acc)%nat)
             4%nat (d_mods d).

(* ---- the terminals of a design: bits of the top module's ports, and port bits of every leaf device ---- *)
Definition bits_of_port (mk : Z -> node) (w : Z) : list node := map mk (iota (Z.to_nat w) 0 1).

Definition elems (x : inst) : list Z := if i_n x <=? 0 then [0] else iota (Z.to_nat (i_n x)) 0 1.

Fixpoint dev_terms (d : design) (fuel : nat) (m : module) (p : path) : result (list (node * name)) :=
  match fuel with
  | O => Error EFuel
  | S f =>
      cat_results (map (fun x =>
        cat_results (map (fun e =>
          match i_of x with
          | TDev dev ps =>
              Ok (concat (map (fun pw => map (fun n => (n, dev)) (bits_of_port (NPort p (i_name x) e (fst pw)) (snd pw))) ps))
          | TMod k => m' <- nth_mod d k ;; dev_terms d f m' ((i_name x, e) :: p)
          end) (elems x))) (m_insts m))
  end.

Definition terminals (d : design) : result (list (node * name)) :=
  top <- nth_mod d (d_top d) ;;
  devs <- dev_terms d (S (Datatypes.length (d_mods d))) top [] ;;
  Ok (concat (map (fun pw => map (fun n => (n, "")) (bits_of_port (NSig [] (fst pw)) (snd pw))) (m_ports top)) ++ devs).
