(* Spec/C01FNets.v — the fragment of the extended end-to-end theorem (Props/C01F.v).

   frag_ok2 d  admits port references INSIDE slices and concatenations, at any depth, as long as the dependency between
               reference groups is ACYCLIC:
                 a group is the set of ports joined by whole-connection references (Model/C01EElab.v:gid); its source is
                 the declared connection of its root, if it has one (src); group G depends on group H when the source of G
                 mentions a port of H.  `acyc fuel q` follows these dependencies from the group of q for at most `fuel`
                 levels; every level enters a group not entered before on that path when the relation is acyclic, and a
                 module has at most |keys| groups, so `acyc (S |keys|) q = true` for every mentioned q says exactly that no
                 dependency path from a mentioned reference returns to a group it left.
               As in frag_ok, the width written on a no-connect leaf is the width of its port.
   frag_ok d = true -> frag_ok2 d = true   (frag_ok_frag_ok2: nothing is lost). *)
From Coq Require Import String.
Require Import Hdl21.Base.PyInt Hdl21.Spec.PySlice Hdl21.Model.Slice Hdl21.Model.Resolve Hdl21.Base.Design
               Hdl21.Spec.Nets Hdl21.Spec.WfDesign Hdl21.Spec.C01ENets Hdl21.Model.C01EElab Hdl21.Model.C01FElab.
Open Scope Z_scope.

Section Acyclic.
Variables (d : design) (m : module) (keys : list key).

(* the declared connection of the group of q, if it has one *)
Definition src (q : key) : option sx :=
  match gid m keys q with
  | Some g => match group_res m keys g with Ok (GSrc cx) => Some cx | _ => None end
  | None => None
  end.

Fixpoint acyc (fuel : nat) (q : key) : bool :=
  match fuel with
  | O => false
  | S f => match src q with None => true | Some cx => forallb (acyc f) (refs_in m cx) end
  end.
End Acyclic.

(* the width written on a no-connect leaf is the port's (the other half of Spec/C01ENets.v:conn_frag) *)
Definition conn_frag2 (d : design) (m : module) (x : inst) (c : name * sx) : bool :=
  match snd c with
  | XSig id w =>
      match assocN id (m_leaves m) with
      | Some (LNc _) => match port_width d x (fst c) with Ok pw => w =? pw | Error _ => false end
      | _ => true
      end
  | _ => true
  end.

Definition acyclic_module (d : design) (m : module) : bool :=
  match all_keys d m with
  | Ok keys => forallb (acyc m keys (ref_fuel keys)) (mentioned2 m)
  | Error _ => true
  end.

Definition frag_ok2 (d : design) : bool :=
  forallb (fun m => forallb (fun x => forallb (conn_frag2 d m x) (i_conns x)) (m_insts m) && acyclic_module d m) (d_mods d).
