(* Spec/C01BLower.v — member-wise flattening of a bundle design into a design of the core fragment (Base/Design.v), by PATH-BASED
   expansion, for an arbitrary naming `fl : bundle/port name -> member path -> flat name`.

     - a bundle instance b with members q1..qn becomes the signals fl b q1 .. fl b qn (ports if b is a port bundle);
     - a connection of a bundle-valued port bp of an instance becomes one connection per member q of bp:
       flat port `fl bp q` of the child  <-  the member q of what was connected (Base/C01BDesign.member):
       the flat signal of a bundle instance / sub-bundle reference, the member expression of an anonymous bundle, the flat
       port of the referred instance, or a no-connect;
     - a Pair becomes an array of two; a bundle-like connection {p, n} becomes the concatenation of its two members;
     - scalar connections are kept (the scalar member b.q inside an expression becomes the flat signal fl b q).

   `phi` maps the nodes of the bundle design to the nodes of the lowered design.  Proofs/C01BLowerProofs.v shows that `phi`
   commutes with the one-step maps (Spec/C01BNets.bstep, Spec/Nets.step), hence preserves nets, whenever the naming is injective
   on each module (`names_ok`: no two members / scalars of a module get the same flat name — what C10_names proves of the
   implementation's naming). *)
Require Import Hdl21.Base.PyInt Hdl21.Spec.PySlice Hdl21.Model.Slice Hdl21.Model.Resolve Hdl21.Base.Design
               Hdl21.Spec.Nets Hdl21.Spec.WfDesign Hdl21.Base.C01BDesign Hdl21.Spec.C01BNets.
Require Hdl21.Spec.BundleSpec.

Definition leaf_eqb (a b : leaf) : bool :=
  match a, b with
  | LSig s, LSig t => String.eqb s t
  | LRef i p, LRef j q => String.eqb i j && String.eqb p q
  | LNc s, LNc t => N.eqb s t
  | _, _ => false
  end.

Fixpoint index_of_leaf (x : leaf) (l : list leaf) : nat :=
  match l with
  | [] => O
  | y :: l' => if leaf_eqb y x then O else S (index_of_leaf x l')
  end.

Fixpoint number_leaves_from (off : N) (l : list leaf) : list (N * leaf) :=
  match l with
  | [] => []
  | x :: l' => (off, x) :: number_leaves_from (off + 1) l'
  end.

Definition sitem := (name * mpath * Z)%type.      (* a scalar item: (signal / bundle name, member path ([] = scalar), width) *)

Section Lower.
Variable fl : name -> mpath -> name.

Definition lname (s : name) (mp : mpath) : name := match mp with [] => s | _ => fl s mp end.
Definition skey (x : sitem) : name := lname (fst (fst x)) (snd (fst x)).

Definition bundle_members (port : bool) (bs : list (bool * btree)) : list sitem :=
  concat (map (fun pt : bool * btree =>
                 if Bool.eqb (fst pt) port
                 then map (fun qw : mpath * Z => (BundleSpec.bname (snd pt), fst qw, snd qw)) (tree_members (snd pt))
                 else []) bs).

Definition scalar_items (l : list (name * Z)) : list sitem := map (fun pw => (fst pw, [], snd pw)) l.

Definition mod_sports (m : bmodule) : list sitem := scalar_items (bm_ports m) ++ bundle_members true (bm_bundles m).
Definition mod_ssigs (m : bmodule) : list sitem := scalar_items (bm_sigs m) ++ bundle_members false (bm_bundles m).

Definition lower_sigs (l : list sitem) : list (name * Z) := map (fun x => (skey x, snd x)) l.

Definition target_sports (d : bdesign) (t : target) : list sitem :=
  match t with
  | TDev _ ps => scalar_items ps
  | TMod k => match nth_error (bd_mods d) k with Some m => mod_sports m | None => [] end
  end.

Definition lower_leaf (l : bleaf) : leaf :=
  match l with BLSig s => LSig s | BLMem b q => LSig (lname b q) | BLRef i p => LRef i p | BLNc s => LNc s end.

Definition mt_leaf (t : mtarget) : option leaf :=
  match t with
  | MTSig b q => Some (LSig (lname b q))
  | MTRef i p q => Some (LRef i (lname p q))
  | MTNc => Some (LNc 0)
  | MTSx _ => None
  end.

(* the member paths of a connection that the lowered connection of item (port, q) reads *)
Definition conn_members (x : binst) (bx : bexpr) (q : mpath) : list mpath :=
  if bi_pair x && negb (is_sx bx) then [pair_elem 0 :: q; pair_elem 1 :: q] else [q].

Definition conn_leaves (x : binst) (bx : bexpr) (q : mpath) : list leaf :=
  concat (map (fun q' => match member bx q' with
                         | Ok t => match mt_leaf t with Some lf => [lf] | None => [] end
                         | Error _ => []
                         end) (conn_members x bx q)).

(* the connected scalar items of the ports of an instance *)
Definition inst_conn_items (d : bdesign) (x : binst) : list (sitem * bexpr) :=
  concat (map (fun it : sitem => match bassoc (fst (fst it)) (bi_conns x) with Some bx => [(it, bx)] | None => [] end)
              (target_sports d (bi_of x))).

Definition extra_leaves (d : bdesign) (m : bmodule) : list leaf :=
  concat (map (fun x => concat (map (fun ib : sitem * bexpr => conn_leaves x (snd ib) (snd (fst (fst ib)))) (inst_conn_items d x)))
              (bm_insts m)).

Definition leaf_off (m : bmodule) : N := 1 + fold_right (fun il a => N.max (fst il) a) 0%N (bm_leaves m).
Definition leaf_id (off : N) (ex : list leaf) (lf : leaf) : N := off + N.of_nat (index_of_leaf lf ex).

Definition mt_sx (off : N) (ex : list leaf) (t : result mtarget) (w : Z) : sx :=
  match t with
  | Ok (MTSx cx) => cx
  | Ok t' => match mt_leaf t' with Some lf => XSig (leaf_id off ex lf) w | None => XSig 0%N 0 end
  | Error _ => XSig 0%N 0
  end.

Definition conn_sx (off : N) (ex : list leaf) (x : binst) (bx : bexpr) (q : mpath) (w : Z) : sx :=
  if bi_pair x && negb (is_sx bx)
  then XConcat [mt_sx off ex (member bx (pair_elem 0 :: q)) w; mt_sx off ex (member bx (pair_elem 1 :: q)) w]
  else mt_sx off ex (member bx q) w.

Definition lower_inst (d : bdesign) (off : N) (ex : list leaf) (x : binst) : inst :=
  {| i_name := bi_name x; i_n := if bi_pair x then 2 else bi_n x; i_of := bi_of x;
     i_conns := map (fun ib : sitem * bexpr => (skey (fst ib), conn_sx off ex x (snd ib) (snd (fst (fst ib))) (snd (fst ib))))
                    (inst_conn_items d x) |}.

Definition lower_module (d : bdesign) (m : bmodule) : module :=
  {| m_name := bm_name m; m_ports := lower_sigs (mod_sports m); m_sigs := lower_sigs (mod_ssigs m);
     m_insts := map (lower_inst d (leaf_off m) (extra_leaves d m)) (bm_insts m);
     m_leaves := map (fun il : N * bleaf => (fst il, lower_leaf (snd il))) (bm_leaves m)
                 ++ number_leaves_from (leaf_off m) (extra_leaves d m) |}.

Definition lower (d : bdesign) : design := {| d_mods := map (lower_module d) (bd_mods d); d_top := bd_top d |}.

Definition phi (n : bnode) : node :=
  match n with
  | NBSig p s mp k => NSig p (lname s mp) k
  | NBPort p i e port mp k => NPort p i e (lname port mp) k
  | NBNc p s k => NNc p s k
  end.

(* ---- hypotheses of the lowering theorem, as boolean checks ---- *)
(* the naming is injective on every module: scalar names and flat member names are pairwise distinct *)
Definition module_names_ok (m : bmodule) : bool :=
  nodup_names (map skey (mod_sports m ++ mod_ssigs m)) &&
  nodup_names (map (fun pt : bool * btree => BundleSpec.bname (snd pt)) (bm_bundles m)).
Definition dev_names_ok (x : binst) : bool :=
  match bi_of x with TDev _ ps => nodup_names (map fst ps) | TMod _ => true end.
Definition names_ok (d : bdesign) : bool :=
  forallb (fun m => module_names_ok m && forallb dev_names_ok (bm_insts m)) (bd_mods d).

(* both members of every bundle-like connection of a Pair are exactly as wide as the port *)
Definition pair_conn_ok (d : bdesign) (x : binst) (ib : sitem * bexpr) : bool :=
  if bi_pair x && negb (is_sx (snd ib)) then
    forallb (fun e => match member (snd ib) (pair_elem e :: snd (fst (fst ib))) with
                      | Ok (MTSx cx) => match xbits cx with Ok bits => zlen bits =? snd (fst ib) | Error _ => false end
                      | Ok _ => 1 <=? snd (fst ib)
                      | Error _ => false
                      end) [0; 1]
  else true.
Definition pairs_ok (d : bdesign) : bool :=
  forallb (fun m => forallb (fun x => forallb (pair_conn_ok d x) (inst_conn_items d x)) (bm_insts m)) (bd_mods d).

(* a node of the design: the signal / member / port it names is declared, the element of a Pair is 0 or 1 *)
Definition bnode_ok (d : bdesign) (n : bnode) : bool :=
  match n with
  | NBSig p s mp k =>
      match bmod_at d p with
      | Ok m => existsb (fun it : sitem => String.eqb (fst (fst it)) s && mpath_eqb (snd (fst it)) mp) (mod_sports m ++ mod_ssigs m)
      | Error _ => false
      end
  | NBPort p i e port mp k =>
      match bmod_at d p with
      | Ok m => match find_binst (bm_insts m) i with
                | Some x => existsb (fun it : sitem => String.eqb (fst (fst it)) port && mpath_eqb (snd (fst it)) mp) (target_sports d (bi_of x))
                            && (negb (bi_pair x) || (e =? 0) || (e =? 1))
                | None => false
                end
      | Error _ => false
      end
  | NBNc _ _ _ => true
  end.
End Lower.
