(* Spec/C13Overlap.v — what the property demands of an object that is an instance of SEVERAL of the classes it names
   (strengthening round).  Written on the facets of the object, independently of the order in which any code asks for them.

   The property text reads one class at a time: "strings, literals and string-valued enums are preserved", "integers,
   floats ... are preserved".  An object with several facets has one READING per facet (Spec/C13Spec.v `expected` of the
   plain value of that facet).
     * All readings agree (a member of `class Corner(str, Enum)`: the string it is and the string its value is are the
       same text): that is what must be observable.
     * The readings differ (a str subclass whose Enum value was set to something else): the text does not say which
       one is meant — no requirement (XFree); the model still has to agree with the code.
     * A facet the exporter documents it refuses (an Enum member whose value is not a string: "Enum-valued parameters
       must also be strings, or fail"; a bool handed to a Scalar, which pydantic does not take for a number) makes
       refusal admissible — but if the object is accepted it must show the agreed reading: refused, never altered.
   Scalar-typed parameters: an object that already is a Prefixed or Literal passes as given; anything else is converted,
   and is read through its str / Decimal / int / float facet (the Enum facet plays no part in the conversion). *)
From Coq Require Import String Ascii.
Require Import Hdl21.Base.PyInt Hdl21.Base.Dec Hdl21.Model.Prefixed Hdl21.Model.C13Params Hdl21.Spec.C13Spec.
Require Import Hdl21.Model.C13Dispatch.
Open Scope list_scope.
Open Scope Z_scope.
Notation length := List.length.

Definition opt_list {A} (o : option A) : list A := match o with Some a => [a] | None => [] end.

(* the facets of an object as plain values (in no significant order) *)
Definition facets (o : pyobj) : list value :=
  (if o_none o then [VNone] else []) ++ opt_list (br_str o) ++ opt_list (br_enum o) ++ opt_list (br_lit o)
  ++ opt_list (br_pre o) ++ opt_list (br_dec o) ++ opt_list (br_int o) ++ opt_list (br_flt o).

(* the facets a Scalar conversion reads *)
Definition conv_facets (o : pyobj) : list value :=
  opt_list (br_str o) ++ opt_list (br_dec o) ++ opt_list (br_int o) ++ opt_list (br_flt o).

Definition dec_same (a b : dec) : bool := dec_identical a b.

(* syntactic equality of expectations *)
Definition expect_eqb (a b : expect) : bool :=
  match a, b with
  | XOmit, XOmit => true
  | XLiteral s, XLiteral t => str_eqb s t
  | XPrefixed d q, XPrefixed d' q' => dec_same d d' && (q =? q')
  | XValue d, XValue d' => dec_same d d'
  | XInt z, XInt z' => z =? z'
  | XDouble b, XDouble b' => b =? b'
  | XDecText d, XDecText d' => dec_same d d'
  | _, _ => false
  end.

(* one expectation out of several readings: the common one, or no requirement *)
Definition agree (l : list expect) : expect :=
  match l with
  | [] => XFree
  | x :: r => if forallb (expect_eqb x) r then x else XFree
  end.

Definition readings (kind : Z) (vs : list value) : list expect :=
  filter (fun x => negb (is_free x)) (map (expected kind) vs).

(* may the object be refused: as given — it is an Enum member whose value is not a string; converted — it is a bool *)
Definition refusable_given (o : pyobj) : bool := match o_enum o with Some None => true | _ => false end.
Definition refusable_conv (o : pyobj) : bool := match o_int o with Some (_, true) => true | _ => false end.

Definition given (o : pyobj) : bool * expect := (refusable_given o, agree (readings 4 (facets o))).

(* (refusal admissible, what must be observable if accepted) *)
Definition expected_obj (kind : Z) (o : pyobj) : bool * expect :=
  if scalar_kind kind then
    if o_none o then (if kind =? 1 then given o else (false, XFree))
    else if has_scalar o then given o
    else (refusable_conv o, agree (readings 0 (conv_facets o)))
  else given o.

Definition obj_wf (o : pyobj) : bool := match o_pre o with Some p => pwf p | None => true end.
