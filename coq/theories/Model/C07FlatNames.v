(* Model/C07FlatNames.v — the NAMES the bundle-flattening pass creates and wires, as a concrete body of the
   pass-manager machine (Model/C07PassMgr.v); strengthening round of property C07.

   Follows hdl21/elab/passes/flatten_bundles.py:
   * BundleFlattener.elaborate_module: `while module.bundles: name, b = module.bundles.popitem(); module.namespace.pop(name);
     replace_bundle_inst(module, b)` — bundles are taken LAST INSERTED FIRST, each leaves the namespace when it is taken;
   * replace_bundle_inst: every member path of the bundle (own signals in definition order, then the members of each
     sub-bundle with its name prepended: `flatten_bundle_inst_helper`) becomes a Signal named
     `flatname([bundle name, path], avoid=module.namespace)` = "bundle_path" with underscores appended until the name is
     not in the namespace (hdl21/elab/passes/base.py:flatname), added to the module (namespace; `ports` when the bundle is
     a port); for a bundle-valued PORT the map path -> Signal is stored in THE_CACHE.flat_bundle_ports[(module, name)];
   * replace_bundle_conn (reached from replace_bundle_inst, replace_anon_bundle_conn and resolve_bundleref): the
     connection `portname` of an instance of child module c is replaced, IN PLACE, by one connection per member, named
     after the flat port Signals found in THE_CACHE.flat_bundle_ports[(c, portname)] — i.e. read from the CHILD's
     flattened io, which in the machine is `v_flat` of the child's view.  The names cannot be re-derived from the child's
     bundle-level io: they depend on every name the child held when it was flattened (`C07_flat_rederive_refuted`).

   Not modelled: flatname's length limit (511 characters: an elaboration FAILURE, properties C05 / C08); the values
   connected (property C10); only the names. *)
Require Import Hdl21.Base.PyInt Hdl21.Model.C07PassMgr.
From Coq Require Import String Ascii.
Local Open Scope nat_scope.
Local Open Scope list_scope.

Record cbundle := CB { cb_name : string; cb_port : bool; cb_paths : list string }.
(* flat_bundle_ports of one module: bundle port name -> (member path -> name of the flat port) *)
Definition flatmap := list (string * list (string * string)).

(* what this model keeps of a module *)
Record cmod := CM {
  c_ns : list string;                     (* module.namespace keys, insertion order *)
  c_ports : list string;                  (* module.ports keys, insertion order *)
  c_bundles : list cbundle;               (* module.bundles, insertion order; member paths joined with "_" *)
  c_insts : list (mid * list string);     (* instances / arrays of design modules: child, connection names in order *)
  c_flat : flatmap                        (* THE_CACHE.flat_bundle_ports entries of this module *)
}.
Definition cm_empty : cmod := CM [] [] [] [] [].

(* bundle-level io: scalar ports and bundle-valued ports; flattened io: ports and the flat_bundle_ports entries *)
Definition cio := (list string * list (string * list string))%type.
Definition cfl := (list string * flatmap)%type.
Definition cbio (c : cmod) : cio := (c_ports c, map (fun b => (cb_name b, cb_paths b)) (filter cb_port (c_bundles c))).
Definition cfio (c : cmod) : cfl := (c_ports c, c_flat c).

Fixpoint smem (x : string) (l : list string) : bool :=
  match l with [] => false | y :: l' => String.eqb x y || smem x l' end.

(* ElabPass.flatname: append "_" until the name is not in `avoid`; fuel exhaustion = None (shown unreachable with
   fuel = number of names to avoid: `flatname_total`) *)
Fixpoint flatname_aux (fuel : nat) (name : string) (avoid : list string) : option string :=
  if smem name avoid
  then match fuel with 0 => None | S f => flatname_aux f (name ++ "_")%string avoid end
  else Some name.
Definition flatname (name : string) (avoid : list string) : option string := flatname_aux (List.length avoid) name avoid.
Definition flatname_or (name : string) (avoid : list string) : string :=
  match flatname name avoid with Some n => n | None => EmptyString end.

Definition rm (x : string) (l : list string) : list string := filter (fun y => negb (String.eqb x y)) l.

(* one member of a popped bundle: namespace, ports, the path -> name map of the bundle so far *)
Definition flat_member (bname : string) (port : bool) (a : list string * list string * list (string * string)) (path : string) :=
  let '(ns, ports, fm) := a in
  let n := flatname_or (bname ++ "_" ++ path)%string ns in
  (ns ++ [n], (if port then ports ++ [n] else ports), fm ++ [(path, n)]).

(* replace_bundle_inst, names only *)
Definition flat_bundle (st : list string * list string * flatmap) (b : cbundle) : list string * list string * flatmap :=
  let '(ns, ports, fl) := st in
  let '(ns', ports', fm) := fold_left (flat_member (cb_name b) (cb_port b)) (cb_paths b) (rm (cb_name b) ns, ports, []) in
  (ns', ports', (if cb_port b then fl ++ [(cb_name b, fm)] else fl)).

Fixpoint assoc {A} (k : string) (l : list (string * A)) : option A :=
  match l with [] => None | (k', a) :: l' => if String.eqb k k' then Some a else assoc k l' end.

(* replace_bundle_conn on every connection of one instance: a connection to a bundle-valued port of the child is
   replaced, in place, by the connections to its flat ports; other connections stay *)
Definition rewire (fl : flatmap) (conns : list string) : list string :=
  flat_map (fun p => match assoc p fl with Some fm => map snd fm | None => [p] end) conns.

Fixpoint find_view (c : mid) (vs : list (view cio cfl)) : option (view cio cfl) :=
  match vs with [] => None | v :: vs' => if v_mid v =? c then Some v else find_view c vs' end.

Definition rewire_inst (vs : list (view cio cfl)) (i : mid * list string) : mid * list string :=
  match find_view (fst i) vs with
  | Some v => match v_flat v with Some f => (fst i, rewire (snd f) (snd i)) | None => i end
  | None => i
  end.

(* BundleFlattener.elaborate_module, names only *)
Definition flatten_body (vs : list (view cio cfl)) (c : cmod) : cmod :=
  let '(ns, ports, fl) := fold_left flat_bundle (rev (c_bundles c)) (c_ns c, c_ports c, []) in
  CM ns ports [] (map (rewire_inst vs) (c_insts c)) fl.

(* the pass list around it: any bodies before (`pre`) and after (`post`) the flattening entry *)
Definition fbody (bf : nat) (pre post : nat -> mid -> list (view cio cfl) -> cmod -> cmod)
  (k : nat) (m : mid) (vs : list (view cio cfl)) (c : cmod) : cmod :=
  if k <? bf then pre k m vs c else if k =? bf then flatten_body vs c else post k m vs c.

(* every flat port a module's flat_bundle_ports entries name is a port of the module *)
Definition flat_ok (f : cfl) : Prop :=
  forall p fm path n, In (p, fm) (snd f) -> In (path, n) fm -> In n (fst f).

(* ---- the variant of the seeded change C07-B: the flat names of a child flattened by an earlier run are re-derived from
   its bundle-level io, `flatname([portname, path])` with nothing to avoid *)
Definition rederive (b : cio) : flatmap :=
  map (fun e => (fst e, map (fun path => (path, (fst e ++ "_" ++ path)%string)) (snd e))) (snd b).
