(* Model/Resolve.v — sliceable expressions, their meaning (spec) and the model of
   hdl21/elab/helpers/width.py:width and hdl21/elab/passes/slices.py
   (_list_bits, _list_sliceable, _list_slice, _resolve_slice, _resolve_concat).
   References (PortRef / BundleRef) are transparent at this stage: the pass reads ref.resolved,
   so a reference leaf is represented by the expression it resolved to. *)
Require Import Hdl21.Base.PyInt Hdl21.Spec.PySlice Hdl21.Model.Slice.

Inductive sx := XSig (id : N) (w : Z) | XSlice (p : sx) (ix : index) | XConcat (ps : list sx).

Definition bit := (N * Z)%type.   (* signal id, bit index; index 0 = least significant *)

Fixpoint cat_results {A} (rs : list (result (list A))) : result (list A) :=
  match rs with
  | [] => Ok []
  | r :: rs' => a <- r ;; b <- cat_results rs' ;; Ok (a ++ b)
  end.

Fixpoint sum_results (rs : list (result Z)) : result Z :=
  match rs with
  | [] => Ok 0
  | r :: rs' => a <- r ;; b <- sum_results rs' ;; Ok (a + b)
  end.

Definition pick {A} (l : list A) (i : Z) : result A :=
  if i <? 0 then Error EOutOfBounds else
  match nth_error l (Z.to_nat i) with Some x => Ok x | None => Error EOutOfBounds end.

Definition select {A} (l : list A) (idxs : list Z) : result (list A) := traverse (pick l) idxs.

Definition sig_bits (id : N) (w : Z) : list bit := map (pair id) (iota (Z.to_nat w) 0 1).

(* ---- specification: which bits, in which order, an expression denotes (C03 statement) ---- *)
Fixpoint xbits (x : sx) : result (list bit) :=
  match x with
  | XSig id w => if w <? 1 then Error EWidth else Ok (sig_bits id w)
  | XSlice p ix => pb <- xbits p ;; idxs <- sel (zlen pb) ix ;; select pb idxs
  | XConcat ps => cat_results (map xbits ps)
  end.

(* ---- model of width() ---- *)
Fixpoint xwidth (x : sx) : result Z :=
  match x with
  | XSig id w => if w <? 1 then Error EWidth else Ok w
  | XSlice p ix => pw <- xwidth p ;; r <- slice_inner pw ix ;; Ok (width r)
  | XConcat ps => sum_results (map xwidth ps)
  end.

(* ---- what the resolver produces: Signals and unit-step Slices of Signals ---- *)
Inductive flat := FSig (id : N) (w : Z) | FSl (id : N) (w : Z) (b t : Z).   (* bits b .. t-1 of a w-bit signal *)

Definition fbits (f : flat) : list bit :=
  match f with
  | FSig id w => sig_bits id w
  | FSl id w b t => map (pair id) (iota (Z.to_nat (t - b)) b 1)
  end.

Definition flat_wf (f : flat) : bool :=
  match f with
  | FSig id w => 1 <=? w
  | FSl id w b t => (0 <=? b) && (b <? t) && (t <=? w)
  end.

Definition flats_bits (l : list flat) : list bit := concat (map fbits l).

(* _list_bits on a Signal: the signal itself if one bit wide, else sig[k] for every k *)
Definition sig_bit_flats (id : N) (w : Z) : list flat :=
  if w =? 1 then [FSig id 1] else map (fun k => FSl id w k (k + 1)) (iota (Z.to_nat w) 0 1).

Fixpoint list_bits (x : sx) : result (list flat) :=
  match x with
  | XSig id w => if w <? 1 then Error EWidth else Ok (sig_bit_flats id w)
  | XSlice p ix =>
      pw <- xwidth p ;; r <- slice_inner pw ix ;;
      pb <- list_bits p ;; select pb (inner_bits r)
  | XConcat ps => cat_results (map list_bits ps)
  end.

Definition is_sig (x : sx) : option (N * Z) := match x with XSig id w => Some (id, w) | _ => None end.

(* _list_sliceable / _list_slice *)
Fixpoint list_flat (x : sx) : result (list flat) :=
  match x with
  | XSig id w => if w <? 1 then Error EWidth else Ok [FSig id w]
  | XSlice p ix =>
      pw <- xwidth p ;; r <- slice_inner pw ix ;;
      if (step r =? 1) && (width r =? pw) then list_flat p
      else match is_sig p with
           | Some (id, w) =>
               if step r =? 1 then Ok [FSl id w (bot r) (top r)]
               else pb <- list_bits p ;; select pb (inner_bits r)
           | None => pb <- list_bits p ;; select pb (inner_bits r)
           end
  | XConcat ps => cat_results (map list_flat ps)
  end.

(* _resolve_sliceable: a Signal stays; a Slice becomes its single element or a Concat; a Concat a Concat *)
Inductive resolved := RSingle (f : flat) | RConcat (fs : list flat).

Definition resolve (x : sx) : result resolved :=
  match x with
  | XSig id w => if w <? 1 then Error EWidth else Ok (RSingle (FSig id w))
  | XSlice _ _ => l <- list_flat x ;;
      match l with [] => Error EOther | [f] => Ok (RSingle f) | _ => Ok (RConcat l) end
  | XConcat ps => match ps with [] => Error EOther | _ => l <- list_flat x ;; Ok (RConcat l) end
  end.

Definition resolved_flats (r : resolved) : list flat := match r with RSingle f => [f] | RConcat fs => fs end.
