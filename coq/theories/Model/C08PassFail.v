(* Model/C08PassFail.v — the pass manager of hdl21/elab (base.py:ElabPass.elaborate_module_base, elab.py:Elaborator.elaborate,
   proto/exporting.py:ProtoExporter.export_module) as a state machine in which ANY pass body may fail.

   Modules are abstract identities (nat).  What survives a call is
     done / pend  : the class-level caches, one per pass CLASS (keyed by the pass identity pid),
     failed       : Module._elab_failure, the error recorded on a module by a failed rewriting pass (repair C08-1),
     elab         : Module._elaborated (set by a marking pass),
     half         : GHOST — the modules in which the body of a rewriting pass was interrupted (half-rewritten).
   The design (who instantiates whom) and the failure oracle are inputs of every call, not part of the state: a designer's
   edit between two calls is a different `kids` / oracle on the next call.  The pass bodies are abstract: a body either
   completes or raises, decided by the oracle  f : pass identity -> module -> option (error identity).

   An error identity c : Z stands for (exception class, message); c < 0 are the exceptions that are NOT `Exception`s
   (KeyboardInterrupt, SystemExit, a test framework's outcomes, ...), which an `except Exception` clause does not see.

   `policy` selects the bookkeeping:
     repaired  = the code after fixes C08-1, C08-3, C08-4: `pending.remove` in a `finally`, the failure of a pass body recorded
                 on the module for every BaseException, and every pass sweeps the whole hierarchy below the tops (a module
                 that the pass completed earlier hides nothing that was attached to it since);
     no_sweep  = the same without the sweep (the code after C08-1 + C08-3): each pass starts from the tops only;
     record_exc_only  = the record made by `except Exception` (the code after C08-1 alone): an exception outside
                 `Exception` interrupts a rewriting pass without leaving a record;
     cleanup_exc_only = `pending.remove` in an `except Exception` clause instead of `finally` (what a seeded change did to
                 the generator cache, here for the passes): such an exception leaves the modules pending;
     naive     = exception-safe pending only (the "obvious" repair);  pinned = nothing (the pinned tree, literally).
   The theorems of Props/C08.v are about `repaired`; the others are refuted there. *)
Require Import Hdl21.Base.PyInt.
Open Scope list_scope.

Inductive cerr :=
| CE (code : Z)        (* the exception of a pass body, identified by (class, message) *)
| CCycle (m : nat)     (* "Invalid self referencing/ circular dependency in `m`" *)
| CNoMod (m : nat)     (* "Error elaborating undefined Instance-target" *)
| CFuel.               (* recursion bound of the model exhausted; unreachable with fuel > number of modules *)

Record pass := { pid : nat; prw : bool; pmk : bool }.   (* class identity, REWRITES_MODULES, sets _elaborated *)

Record pst := {
  done : list (nat * nat);     (* (pass class, module) in CLASS_LEVEL_CACHE.done *)
  pend : list (nat * nat);     (* (pass class, module) in CLASS_LEVEL_CACHE.pending *)
  failed : list (nat * Z);     (* module -> recorded error *)
  elab : list nat;
  half : list nat
}.

Record policy := {
  cleanup : bool;        (* pending.remove also when the visit ends with an exception ... *)
  cleanup_base : bool;   (* ... also with one that is no `Exception` (finally, not `except Exception`) *)
  sticky : bool;         (* the failure of a pass body is recorded on the module ... *)
  sticky_base : bool;    (* ... also one that is no `Exception` *)
  sweep : bool           (* every pass visits all modules below the tops, not only what it reaches through unfinished ones *)
}.
Definition repaired := {| cleanup := true; cleanup_base := true; sticky := true; sticky_base := true; sweep := true |}.
Definition no_sweep := {| cleanup := true; cleanup_base := true; sticky := true; sticky_base := true; sweep := false |}.
Definition record_exc_only := {| cleanup := true; cleanup_base := true; sticky := true; sticky_base := false; sweep := true |}.
Definition cleanup_exc_only := {| cleanup := true; cleanup_base := false; sticky := true; sticky_base := true; sweep := true |}.
Definition pinned := {| cleanup := false; cleanup_base := false; sticky := false; sticky_base := false; sweep := false |}.
Definition naive := {| cleanup := true; cleanup_base := true; sticky := false; sticky_base := false; sweep := false |}.

Definition code_base (c : Z) : bool := c <? 0.
Definition cerr_base (e : cerr) : bool := match e with CE c => code_base c | _ => false end.
Definition records (pol : policy) (c : Z) : bool := sticky pol && (sticky_base pol || negb (code_base c)).
Definition cleans (pol : policy) (e : cerr) : bool := cleanup pol && (cleanup_base pol || negb (cerr_base e)).

Definition init : pst := {| done := []; pend := []; failed := []; elab := []; half := [] |}.

Definition eqpm (x y : nat * nat) : bool := Nat.eqb (fst x) (fst y) && Nat.eqb (snd x) (snd y).
Definition memp (x : nat * nat) (l : list (nat * nat)) : bool := existsb (eqpm x) l.
Definition remp (x : nat * nat) (l : list (nat * nat)) : list (nat * nat) := filter (fun y => negb (eqpm x y)) l.
Definition memn (x : nat) (l : list nat) : bool := existsb (Nat.eqb x) l.

Fixpoint rec_of (m : nat) (l : list (nat * Z)) : option Z :=
  match l with
  | [] => None
  | (m', c) :: l' => if Nat.eqb m m' then Some c else rec_of m l'
  end.

Definition add_pend (x : nat * nat) (s : pst) : pst :=
  {| done := done s; pend := x :: pend s; failed := failed s; elab := elab s; half := half s |}.
Definition unpend (x : nat * nat) (s : pst) : pst :=
  {| done := done s; pend := remp x (pend s); failed := failed s; elab := elab s; half := half s |}.
Definition set_done (x : nat * nat) (mk : bool) (s : pst) : pst :=
  {| done := x :: done s; pend := pend s; failed := failed s;
     elab := if mk then snd x :: elab s else elab s; half := half s |}.
(* the body of a rewriting pass raised inside module m *)
Definition interrupted (pol : policy) (m : nat) (c : Z) (s : pst) : pst :=
  {| done := done s; pend := pend s; failed := if records pol c then (m, c) :: failed s else failed s;
     elab := elab s; half := m :: half s |}.

(* children in visit order, stopping at the first failure *)
Fixpoint fold_visit (v : pst -> nat -> pst * option cerr) (s : pst) (ms : list nat) : pst * option cerr :=
  match ms with
  | [] => (s, None)
  | m :: ms' => match v s m with
                | (s1, None) => fold_visit v s1 ms'
                | r => r
                end
  end.

(* the modules below `tops`, each once, in depth-first order (ElabPass.modules_below): `seen` is kept latest first *)
Fixpoint reach_step (kids : nat -> option (list nat)) (fuel : nat) (seen : list nat) (m : nat) : list nat :=
  match fuel with
  | O => seen
  | S k => if memn m seen then seen else
           match kids m with
           | None => m :: seen
           | Some cs => fold_left (reach_step kids k) cs (m :: seen)
           end
  end.

Section Call.
Variable pol : policy.
Variable kids : nat -> option (list nat).     (* module -> targets of its instances / arrays / instance bundles, in visit order *)
Variable f : nat -> nat -> option Z.           (* failure oracle *)

(* ElabPass.elaborate_module_base, branch by branch *)
Fixpoint visit (p : pass) (fuel : nat) (s : pst) (m : nat) : pst * option cerr :=
  match fuel with
  | O => (s, Some CFuel)
  | S k =>
      match (if sticky pol then rec_of m (failed s) else None) with
      | Some c => (s, Some (CE c))                                       (* raise module._elab_failure *)
      | None =>
          if memp (pid p, m) (done s) then (s, None) else                (* already done by this pass class *)
          if memp (pid p, m) (pend s) then (s, Some (CCycle m)) else     (* circular dependency *)
          match kids m with
          | None => (s, Some (CNoMod m))
          | Some cs =>
              match fold_visit (visit p k) (add_pend (pid p, m) s) cs with
              | (s2, Some e) =>                                          (* a child raised: `finally` *)
                  (if cleans pol e then unpend (pid p, m) s2 else s2, Some e)
              | (s2, None) =>
                  match f (pid p) m with
                  | Some c =>                                            (* the body raised *)
                      let s3 := if prw p then interrupted pol m c s2 else s2 in
                      (if cleans pol (CE c) then unpend (pid p, m) s3 else s3, Some (CE c))
                  | None => (set_done (pid p, m) (pmk p) (unpend (pid p, m) s2), None)
                  end
              end
          end
      end
  end.

(* Elaborator.elaborate over an explicit list of modules to start from: each pass over all of them, in order *)
Fixpoint run_passes_on (fuel : nat) (ps : list pass) (ms : list nat) (s : pst) : pst * option cerr :=
  match ps with
  | [] => (s, None)
  | p :: ps' => match fold_visit (visit p fuel) s ms with
                | (s1, None) => run_passes_on fuel ps' ms s1
                | r => r
                end
  end.

(* ElabPass.elaborate_tops: the tops, then (fix C08-4) every module below them *)
Definition below (fuel : nat) (tops : list nat) : list nat := rev (fold_left (reach_step kids fuel) tops []).
Definition starts (fuel : nat) (tops : list nat) : list nat := if sweep pol then tops ++ below fuel tops else tops.
Definition run_passes (fuel : nat) (ps : list pass) (tops : list nat) (s : pst) : pst * option cerr :=
  run_passes_on fuel ps (starts fuel tops) s.

(* ProtoExporter.export_module: per-call memo `acc`, record check, children first, then the module itself *)
Fixpoint fold_x (v : list nat -> nat -> list nat * option cerr) (acc : list nat) (ms : list nat) : list nat * option cerr :=
  match ms with
  | [] => (acc, None)
  | m :: ms' => match v acc m with
                | (a1, None) => fold_x v a1 ms'
                | r => r
                end
  end.

Fixpoint xvisit (s : pst) (fuel : nat) (acc : list nat) (m : nat) : list nat * option cerr :=
  match fuel with
  | O => (acc, Some CFuel)
  | S k =>
      if memn m acc then (acc, None) else
      match (if sticky pol then rec_of m (failed s) else None) with
      | Some c => (acc, Some (CE c))
      | None =>
          match kids m with
          | None => (acc, Some (CNoMod m))
          | Some cs => match fold_x (xvisit s k) acc cs with
                       | (a1, None) => (a1 ++ [m], None)
                       | r => r
                       end
          end
      end
  end.

(* to_proto: elaborate, then export; the exported modules in package order *)
Definition export (fuel : nat) (ps : list pass) (tops : list nat) (s : pst) : pst * option cerr * list nat :=
  match run_passes fuel ps tops s with
  | (s1, Some e) => (s1, Some e, [])
  | (s1, None) => match fold_x (xvisit s1 fuel) [] tops with
                  | (a, None) => (s1, None, a)
                  | (_, Some e) => (s1, Some e, [])
                  end
  end.
End Call.

(* ------------------------------------------------------------------ histories: calls in one interpreter *)
Record call := {
  c_kids : list (nat * list nat);
  c_passes : list pass;
  c_tops : list nat;
  c_fail : list (nat * nat * Z);
  c_export : bool
}.

Fixpoint assoc_kids (l : list (nat * list nat)) (m : nat) : option (list nat) :=
  match l with
  | [] => None
  | (m', cs) :: l' => if Nat.eqb m m' then Some cs else assoc_kids l' m
  end.

Fixpoint assoc_fail (l : list (nat * nat * Z)) (p m : nat) : option Z :=
  match l with
  | [] => None
  | (p', m', c) :: l' => if Nat.eqb p p' && Nat.eqb m m' then Some c else assoc_fail l' p m
  end.

Definition call_fuel (c : call) : nat := S (length (c_kids c)).

Definition do_call (pol : policy) (s : pst) (c : call) : pst * option cerr * list nat :=
  if c_export c
  then export pol (assoc_kids (c_kids c)) (assoc_fail (c_fail c)) (call_fuel c) (c_passes c) (c_tops c) s
  else (run_passes pol (assoc_kids (c_kids c)) (assoc_fail (c_fail c)) (call_fuel c) (c_passes c) (c_tops c) s, []).

Fixpoint run_hist (pol : policy) (s : pst) (cs : list call) : pst :=
  match cs with
  | [] => s
  | c :: cs' => run_hist pol (fst (fst (do_call pol s c))) cs'
  end.

(* modules reachable from `tops` (the design of a call), by bounded closure *)
Definition reach (c : call) : list nat :=
  fold_left (reach_step (assoc_kids (c_kids c)) (call_fuel c)) (c_tops c) [].
