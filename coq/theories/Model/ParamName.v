(* Model/ParamName.v — parameter values, call normalisation and the unique-name suffix.

   Follows (repaired tree):
     hdl21/call.py:param_call      keywords -> paramclass instance (pydantic validates/coerces each field),
                                   or the instance handed in as-is
     hdl21/params.py:_unique_name  all-scalar test over the DECLARED dtypes, plain-string test over the values,
                                   `k=v` joined by single spaces, the `len(name) < N` rule (N is read from the
                                   source: Hdl21Gen.Limits.readable_name_limit), otherwise md5 of the JSON text.

   Values are the values a paramclass instance can hold after pydantic validation:
     None, int, float (carried as the text of Python's repr, which is injective on non-NaN floats and is
     what str() prints), str, bool, enum member (index in the class), reference to a Module / Generator /
     ExternalModule object (identity), nested paramclass instance (its field values in order). *)
Require Import Hdl21.Base.PyInt.
From Coq Require Import String Ascii DecimalString DecimalZ.
Require Import Hdl21Gen.Limits.
Open Scope string_scope.
Open Scope Z_scope.

Inductive dtype :=
| DInt | DFloat | DStr | DBool
| DOpt (d : dtype)
| DEnum (n : N)                 (* an Enum class with n members *)
| DRef                          (* Module / Generator / ExternalModule valued field *)
| DRec (ds : list dtype).       (* nested paramclass: dtypes of its fields *)

Inductive pval :=
| VNone | VInt (z : Z) | VFloat (r : string) | VStr (s : string) | VBool (b : bool)
| VEnum (i : N) | VRef (i : N) | VRec (vs : list pval).

(* ---------- decimal text of an int: str(int) ---------- *)
Definition dec (z : Z) : string := NilEmpty.string_of_int (Z.to_int z).

(* ---------- characters ---------- *)
Fixpoint has_char (c : ascii) (s : string) : bool :=
  match s with EmptyString => false | String a s' => Ascii.eqb a c || has_char c s' end.

Fixpoint all_chars (p : ascii -> bool) (s : string) : bool :=
  match s with EmptyString => true | String a s' => p a && all_chars p s' end.

(* the alphabet of repr(float): digits, sign, point, exponent, "inf", "nan" *)
Definition float_char (a : ascii) : bool := has_char a "0123456789+-.einfa".
(* a float is carried as repr text.  Negative zero is excluded: it compares equal to 0.0 but prints
   differently (see notes/C09.md, finding C09:negzero) *)
Definition float_ok (r : string) : bool :=
  all_chars float_char r && negb (String.eqb r "") && negb (String.eqb r "-0.0") && negb (String.eqb r "nan").

(* ---------- well-typed (validated) values ---------- *)
Fixpoint typed (d : dtype) (v : pval) {struct d} : bool :=
  match d, v with
  | DInt, VInt _ => true
  | DFloat, VFloat r => float_ok r
  | DStr, VStr _ => true
  | DBool, VBool _ => true
  | DOpt _, VNone => true
  | DOpt d', _ => typed d' v
  | DEnum n, VEnum i => N.ltb i n
  | DRef, VRef _ => true
  | DRec ds, VRec vs =>
      (fix go (ds : list dtype) (vs : list pval) {struct ds} : bool :=
         match ds, vs with
         | [], [] => true
         | d' :: ds', v' :: vs' => typed d' v' && go ds' vs'
         | _, _ => false
         end) ds vs
  | _, _ => false
  end.

Fixpoint typed_all (ds : list dtype) (vs : list pval) : bool :=
  match ds, vs with
  | [], [] => true
  | d :: ds', v :: vs' => typed d v && typed_all ds' vs'
  | _, _ => false
  end.

(* ---------- boolean equality of values (Python == on validated field values) ---------- *)
Fixpoint pval_eqb (a b : pval) {struct a} : bool :=
  match a, b with
  | VNone, VNone => true
  | VInt x, VInt y => x =? y
  | VFloat x, VFloat y => String.eqb x y
  | VStr x, VStr y => String.eqb x y
  | VBool x, VBool y => Bool.eqb x y
  | VEnum x, VEnum y => N.eqb x y
  | VRef x, VRef y => N.eqb x y
  | VRec xs, VRec ys =>
      (fix go (xs ys : list pval) {struct xs} : bool :=
         match xs, ys with
         | [], [] => true
         | x :: xs', y :: ys' => pval_eqb x y && go xs' ys'
         | _, _ => false
         end) xs ys
  | _, _ => false
  end.

Fixpoint pvals_eqb (xs ys : list pval) : bool :=
  match xs, ys with
  | [], [] => true
  | x :: xs', y :: ys' => pval_eqb x y && pvals_eqb xs' ys'
  | _, _ => false
  end.

(* ---------- call normalisation: what pydantic stores for a value written by the caller ---------- *)
(* int -> float is modelled on |z| < 10^15, where repr(float(z)) is the decimal text followed by ".0" *)
Definition float_of_int_limit : Z := 1000000000000000.

Fixpoint norm (d : dtype) (v : pval) {struct d} : result pval :=
  match d, v with
  | DInt, VInt z => Ok (VInt z)
  | DInt, VBool b => Ok (VInt (if b then 1 else 0))
  | DFloat, VFloat r => if float_ok r then Ok (VFloat r) else Error EBadKind
  | DFloat, VInt z => if (Z.abs z <? float_of_int_limit) && float_ok (dec z ++ ".0")
                      then Ok (VFloat (dec z ++ ".0")) else Error EBadKind
  | DFloat, VBool b => Ok (VFloat (if b then "1.0" else "0.0"))
  | DStr, VStr s => Ok (VStr s)
  | DBool, VBool b => Ok (VBool b)
  | DOpt _, VNone => Ok VNone
  | DOpt d', _ => norm d' v
  | DEnum n, VEnum i => if N.ltb i n then Ok (VEnum i) else Error EBadKind
  | DRef, VRef i => Ok (VRef i)
  | DRec ds, VRec vs =>
      r <- (fix go (ds : list dtype) (vs : list pval) {struct ds} : result (list pval) :=
              match ds, vs with
              | [], [] => Ok []
              | d' :: ds', v' :: vs' => x <- norm d' v' ;; xs <- go ds' vs' ;; Ok (x :: xs)
              | _, _ => Error EBadKind
              end) ds vs ;;
      Ok (VRec r)
  | _, _ => Error EBadKind
  end.

(* a declared field: name, dtype, default value (as written in the Param declaration) *)
Record field := { f_name : string; f_dtype : dtype; f_default : option pval }.

(* keyword call / paramclass constructor: an omitted argument takes the (validated) default *)
Fixpoint norm_args (fs : list field) (args : list (option pval)) : result (list pval) :=
  match fs, args with
  | [], [] => Ok []
  | f :: fs', a :: args' =>
      x <- match a, f_default f with
           | Some v, _ => norm (f_dtype f) v
           | None, Some dv => norm (f_dtype f) dv
           | None, None => Error EMissing
           end ;;
      xs <- norm_args fs' args' ;; Ok (x :: xs)
  | _, _ => Error EExtra
  end.

(* ---------- _unique_name ---------- *)
Definition scalar_dtype (d : dtype) : bool :=
  match d with
  | DInt | DFloat | DStr | DOpt DInt | DOpt DFloat | DOpt DStr => true
  | _ => false
  end.

(* str(value) for the scalar values *)
Definition render (v : pval) : string :=
  match v with
  | VNone => "None"
  | VInt z => dec z
  | VFloat r => r
  | VStr s => s
  | _ => ""
  end.

(* the repair: a string holding a separator, or reading like None, is not rendered readably *)
Definition plain (v : pval) : bool :=
  match v with
  | VStr s => negb (has_char " " s || has_char "=" s || String.eqb s "None")
  | _ => true
  end.

Fixpoint readable (ks : list string) (vs : list pval) : string :=
  match ks, vs with
  | k :: ks', v :: vs' =>
      match ks' with
      | [] => k ++ "=" ++ render v
      | _ => k ++ "=" ++ render v ++ " " ++ readable ks' vs'
      end
  | _, _ => ""
  end.

Inductive uname := Readable (s : string) | Hashed.

Definition strlen (s : string) : Z := Z.of_nat (String.length s).

Definition unique_name (fs : list field) (vs : list pval) : result uname :=
  if negb (typed_all (map f_dtype fs) vs) then Error EBadKind else
  if forallb scalar_dtype (map f_dtype fs) && forallb plain vs then
    let name := readable (map f_name fs) vs in
    if strlen name <? readable_name_limit then Ok (Readable name) else Ok Hashed
  else Ok Hashed.
