(* Model/ParamName.v — parameter values, call normalisation and the unique-name suffix.

   Follows (repaired tree):
     hdl21/call.py:param_call      keywords -> paramclass instance (pydantic validates/coerces each field),
                                   or the instance handed in as-is
     hdl21/params.py:_unique_name  all-scalar test over the DECLARED dtypes, plain-string test over the values,
                                   `k=v` joined by single spaces, the `len(name) < N` rule (N is read from the
                                   source: Hdl21Gen.Limits.readable_name_limit), otherwise md5 of the JSON text.

   Values are the values a paramclass instance can hold after pydantic validation:
     None, int, float (carried as the text of Python's repr, which is injective on non-NaN floats and is
     what str() prints), str, bool, enum member (index in the class), reference to a Module / Generator /
     ExternalModule / PrimitiveCall / ExternalModuleCall object (identity, or == for the two kinds of call),
     nested paramclass instance (its field values in order), and the number-like values of h.Scalar,
     h.Prefixed and Decimal fields.

   THREE LEVELS of a value.  (1) as the caller writes it (an int for a float field, a str / int / float / Decimal
   for an h.Scalar field, ...); (2) as the validated paramclass instance holds it: `validate` (pydantic; for a
   Scalar field hdl21/scalar.py:to_scalar) - a Prefixed is held AS WRITTEN, number : Decimal (sign, coefficient,
   exponent) and prefix, `VPrefW`; (3) the cache key: `canon` maps a level-2 value to the canonical
   representative of its ==-class - for a Prefixed the normal form (c, e), c not divisible by ten, of its exact
   value number * 10^prefix, which is what Prefixed.__hash__ hashes (Model/Prefixed.v: phash) and what the
   repaired params.py:hdl21_naming_encoder writes (`_value_name`).  `inst_eqb` is == on level-2 values
   (Prefixed.__eq__ = Model/Prefixed.v: pcmp OEq); Proofs/ParamNameProofs.v shows that the model's key equality
   (Leibniz on level 3) is the implementation's dict lookup on level 2 (hash equal and ==), and is == itself
   whenever no Prefixed number has more than EPSILON = 20 decimal places. *)
Require Import Hdl21.Base.PyInt.
From Coq Require Import String Ascii DecimalString DecimalZ.
Require Import Hdl21Gen.Limits.
(* qualified use only (Dec.dec, Prefixed.pcmp, ...): both files define names that are also used here *)
Require Hdl21.Base.Dec Hdl21.Model.Prefixed Hdl21Gen.PrefixTable.
Open Scope string_scope.
Open Scope Z_scope.

Inductive dtype :=
| DInt | DFloat | DStr | DBool
| DOpt (d : dtype)
| DEnum (n : N)                 (* an Enum class with n members *)
| DRef                          (* Module / Generator / ExternalModule / PrimitiveCall / ExternalModuleCall valued field; also a
                                   frozenset of strings: an abstract leaf compared by identity or by ==, for which the encoder
                                   writes a text that is a function of the VALUE (repair C09-5: a set by its sorted members) *)
| DRec (ds : list dtype)        (* nested paramclass: dtypes of its fields *)
| DScalar                       (* h.Scalar = Union[Prefixed, Literal] with the to_scalar conversions *)
| DPref                         (* h.Prefixed *)
| DDec                          (* decimal.Decimal *)
| DMut                          (* a field of a MUTABLE container type (List[..] / Dict[..] / Set[..]): the validated instance holds
                                   a list / dict / set, which has no hash *)
| DObj.                         (* a field of arbitrary type (Callable / a user class / Instance): holds objects that have
                                   NO JSON form - functions, lambdas, objects of user types, Instances *)

Inductive pval :=
| VNone | VInt (z : Z) | VFloat (r : string) | VStr (s : string) | VBool (b : bool)
| VEnum (i : N) | VRef (i : N) | VRec (vs : list pval)
| VLit (s : string)                     (* h.Literal(text) *)
| VPrefW (d : Dec.dec) (q : Z)          (* levels 1, 2: Prefixed(number = d, prefix = the member of value q), as written *)
| VDecW (d : Dec.dec)                   (* levels 1, 2: a Decimal as written *)
| VPref (c e : Z)                       (* level 3: the prefixed numbers of value c * 10^e *)
| VDec (c e : Z)                        (* level 3: the decimals of value c * 10^e *)
| VMut (i : N)                          (* levels 1, 2 only: the i-th UNHASHABLE value (a list, dict or set; compared by value: equal
                                           containers built separately are one i).  It is never a cache key: `canon` refuses it,
                                           as hash(call) raises TypeError at the cache lookup of generator.run *)
| VObj (i : N).                         (* the i-th object without a JSON form (== and hash: identity, or the user type's own
                                           value equality: equal objects built separately are one i) *)

(* ---------- decimal text of an int: str(int) ---------- *)
Definition dec (z : Z) : string := NilEmpty.string_of_int (Z.to_int z).

(* ---------- characters ---------- *)
Fixpoint has_char (c : ascii) (s : string) : bool :=
  match s with EmptyString => false | String a s' => Ascii.eqb a c || has_char c s' end.

Fixpoint all_chars (p : ascii -> bool) (s : string) : bool :=
  match s with EmptyString => true | String a s' => p a && all_chars p s' end.

(* the alphabet of repr(float): digits, sign, point, exponent, "inf", "nan" *)
Definition float_char (a : ascii) : bool := has_char a "0123456789+-.einfa".
(* a float is carried as repr text.  NaN is excluded: it is not equal to itself, so it cannot be a cache key; the repaired
   generator.run refuses a call holding it before anything else (repair C09-6), as `validate` does here.  Negative zero compares equal to 0.0
   but prints differently: a validated instance may hold either (float_held), the cache key is the repr of 0.0 for both
   (fzero: -0.0 == 0.0 and hash(-0.0) == hash(0.0); the repaired params.py:_named_value names both as 0.0), so that
   cache-key floats (float_ok) are never "-0.0" *)
Definition float_held (r : string) : bool :=
  all_chars float_char r && negb (String.eqb r "") && negb (String.eqb r "nan").
Definition float_ok (r : string) : bool :=
  all_chars float_char r && negb (String.eqb r "") && negb (String.eqb r "-0.0") && negb (String.eqb r "nan").
Definition fzero (r : string) : string := if String.eqb r "-0.0" then "0.0" else r.

(* ---------- number-like values ---------- *)
(* the normal form of a value: (0, 0) for zero, otherwise the coefficient is not divisible by ten *)
Definition canon_ok (c e : Z) : bool := if c =? 0 then e =? 0 else negb (c mod 10 =? 0).

(* params.py:_value_name(num) = Dec.dnorm: strip the trailing zeros of the coefficient, zero is (0, 0).
   (dnorm's fuel never runs out: Dec.dnorm_total) *)
Definition canon_dec (d : Dec.dec) : result (Z * Z) :=
  match Dec.dnorm d with Some ce => Ok ce | None => Error EFuel end.
(* hdl21_naming_encoder: _value_name(obj.scale(Prefix.UNIT).number) - the same normal form that Prefixed.__hash__ hashes *)
Definition canon_pref (d : Dec.dec) (q : Z) : result (Z * Z) :=
  x <- Prefixed.unit_number (Prefixed.mkP d q) ;; canon_dec x.

(* ---------- Decimal(str): value.strip().replace("_", "") must match  [-+]? (digits [. digits*] | . digits) ([eE] [-+]? digits)?
   (the special values Inf / NaN are rejected later by pydantic's finite-number check, so that not matching and
   matching a special value have the same outcome).  Only printable ASCII strings occur in cases, where the only
   white space is ' '. ---------- *)
Definition digit_of (a : ascii) : option Z :=
  let n := Z.of_nat (nat_of_ascii a) in if (48 <=? n) && (n <=? 57) then Some (n - 48) else None.

Fixpoint take_digits (s : string) (acc n : Z) : Z * Z * string :=
  match s with
  | String a s' => match digit_of a with Some k => take_digits s' (acc * 10 + k) (n + 1) | None => (acc, n, s) end
  | EmptyString => (acc, n, s)
  end.

Definition take_sign (s : string) : bool * string :=
  match s with
  | String a s' => if Ascii.eqb a "-" then (true, s') else if Ascii.eqb a "+" then (false, s') else (false, s)
  | EmptyString => (false, s)
  end.

Fixpoint lstrip (s : string) : string :=
  match s with String a s' => if Ascii.eqb a " " then lstrip s' else s | EmptyString => s end.
Fixpoint rstrip (s : string) : string :=
  match s with
  | EmptyString => EmptyString
  | String a s' => let t := rstrip s' in
                   if Ascii.eqb a " " && match t with EmptyString => true | _ => false end then EmptyString else String a t
  end.
Fixpoint remove_us (s : string) : string :=
  match s with String a s' => if Ascii.eqb a "_" then remove_us s' else String a (remove_us s') | EmptyString => s end.

(* exponents beyond this bound are not modelled (decimal's own limit is near 10^18) *)
Definition exp_limit : Z := 1000000000000000.

Inductive parsed := PNum (d : Dec.dec) | PNone | PUnmodelled.

Definition parse_plain (s : string) : parsed :=
  let '(neg, s1) := take_sign s in
  let '(ip, ni, s2) := take_digits s1 0 0 in
  let '(c, nf, s3) := match s2 with
                      | String a s2' => if Ascii.eqb a "." then take_digits s2' ip 0 else (ip, 0, s2)
                      | EmptyString => (ip, 0, s2)
                      end in
  if ni + nf =? 0 then PNone else
  match s3 with
  | EmptyString => PNum (Dec.mkDec neg (Z.to_N c) (- nf))
  | String a s4 =>
      if Ascii.eqb a "e" || Ascii.eqb a "E" then
        let '(eneg, s5) := take_sign s4 in
        let '(ev, ne, s6) := take_digits s5 0 0 in
        if (ne =? 0) || negb (String.eqb s6 "") then PNone
        else if exp_limit <=? ev then PUnmodelled
        else PNum (Dec.mkDec neg (Z.to_N c) ((if eneg then - ev else ev) - nf))
      else PNone
  end.

Definition parse_pystr (s : string) : parsed := parse_plain (remove_us (rstrip (lstrip s))).

(* Decimal(str(x)) of a float x carried as its repr text: 'inf' / 'nan' do not parse (pydantic: finite numbers only) *)
Definition dec_of_float (r : string) : result Dec.dec :=
  match parse_plain r with PNum d => Ok d | PNone => Error EBadKind | PUnmodelled => Error EOther end.

(* ---------- level 2: the field values of a validated paramclass instance ---------- *)
Fixpoint valid (d : dtype) (v : pval) {struct d} : bool :=
  match d, v with
  | DInt, VInt _ => true
  | DFloat, VFloat r => float_held r
  | DStr, VStr _ => true
  | DBool, VBool _ => true
  | DOpt _, VNone => true
  | DOpt d', _ => valid d' v
  | DEnum n, VEnum i => N.ltb i n
  | DRef, VRef _ => true
  | DRec ds, VRec vs =>
      (fix go (ds : list dtype) (vs : list pval) {struct ds} : bool :=
         match ds, vs with
         | [], [] => true
         | d' :: ds', v' :: vs' => valid d' v' && go ds' vs'
         | _, _ => false
         end) ds vs
  | DScalar, VPrefW _ q => Prefixed.is_prefix q
  | DScalar, VLit _ => true
  | DPref, VPrefW _ q => Prefixed.is_prefix q
  | DDec, VDecW _ => true
  | DObj, VObj _ => true
  | DMut, VMut _ => true
  | _, _ => false
  end.

Fixpoint valid_all (ds : list dtype) (vs : list pval) : bool :=
  match ds, vs with
  | [], [] => true
  | d :: ds', v :: vs' => valid d v && valid_all ds' vs'
  | _, _ => false
  end.

(* ---------- level 3: cache keys ---------- *)
Fixpoint typed (d : dtype) (v : pval) {struct d} : bool :=
  match d, v with
  | DInt, VInt _ => true
  | DFloat, VFloat r => float_ok r
  | DStr, VStr _ => true
  | DBool, VBool _ => true
  | DOpt _, VNone => true
  | DOpt d', _ => typed d' v
  | DEnum n, VEnum i => N.ltb i n
  | DRef, VRef _ => true
  | DRec ds, VRec vs =>
      (fix go (ds : list dtype) (vs : list pval) {struct ds} : bool :=
         match ds, vs with
         | [], [] => true
         | d' :: ds', v' :: vs' => typed d' v' && go ds' vs'
         | _, _ => false
         end) ds vs
  | DScalar, VPref c e => canon_ok c e
  | DScalar, VLit _ => true
  | DPref, VPref c e => canon_ok c e
  | DDec, VDec c e => canon_ok c e
  | DObj, VObj _ => true
  | _, _ => false
  end.

Fixpoint typed_all (ds : list dtype) (vs : list pval) : bool :=
  match ds, vs with
  | [], [] => true
  | d :: ds', v :: vs' => typed d v && typed_all ds' vs'
  | _, _ => false
  end.

(* ---------- structural equality of values (on level 3: the equality of cache keys) ---------- *)
Definition dec_eqb (a b : Dec.dec) : bool :=
  Bool.eqb (Dec.dsign a) (Dec.dsign b) && N.eqb (Dec.dcoef a) (Dec.dcoef b) && (Dec.dexp a =? Dec.dexp b).

Fixpoint pval_eqb (a b : pval) {struct a} : bool :=
  match a, b with
  | VNone, VNone => true
  | VInt x, VInt y => x =? y
  | VFloat x, VFloat y => String.eqb x y
  | VStr x, VStr y => String.eqb x y
  | VBool x, VBool y => Bool.eqb x y
  | VEnum x, VEnum y => N.eqb x y
  | VRef x, VRef y => N.eqb x y
  | VRec xs, VRec ys =>
      (fix go (xs ys : list pval) {struct xs} : bool :=
         match xs, ys with
         | [], [] => true
         | x :: xs', y :: ys' => pval_eqb x y && go xs' ys'
         | _, _ => false
         end) xs ys
  | VLit x, VLit y => String.eqb x y
  | VPrefW x q, VPrefW y r => dec_eqb x y && (q =? r)
  | VDecW x, VDecW y => dec_eqb x y
  | VPref c e, VPref c' e' => (c =? c') && (e =? e')
  | VDec c e, VDec c' e' => (c =? c') && (e =? e')
  | VObj x, VObj y => N.eqb x y
  | VMut x, VMut y => N.eqb x y
  | _, _ => false
  end.

Fixpoint pvals_eqb (xs ys : list pval) : bool :=
  match xs, ys with
  | [], [] => true
  | x :: xs', y :: ys' => pval_eqb x y && pvals_eqb xs' ys'
  | _, _ => false
  end.

(* ---------- comparing level-2 values field by field: the number-like leaves by a given test, paramclass instances
   recursively (the dataclass __eq__ / __hash__ of a paramclass instance go through the fields in order), everything
   else as on level 3 (floats: == is equality of the repr texts except for -0.0 == 0.0; nan is excluded).
   A Prefixed against a Literal is not modelled (Prefixed.__eq__ raises): false. ---------- *)
Section Lift.
Variable RP : Dec.dec -> Z -> Dec.dec -> Z -> bool.
Variable RD : Dec.dec -> Dec.dec -> bool.
Variable RF : string -> string -> bool.
Fixpoint lift_eqb (a b : pval) {struct a} : bool :=
  match a, b with
  | VPrefW x q, VPrefW y r => RP x q y r
  | VDecW x, VDecW y => RD x y
  | VFloat x, VFloat y => RF x y
  | VRec xs, VRec ys =>
      (fix go (xs ys : list pval) {struct xs} : bool :=
         match xs, ys with
         | [], [] => true
         | x :: xs', y :: ys' => lift_eqb x y && go xs' ys'
         | _, _ => false
         end) xs ys
  | VPref _ _, _ | VDec _ _, _ => false
  | _, _ => pval_eqb a b
  end.
Fixpoint lifts_eqb (xs ys : list pval) : bool :=
  match xs, ys with
  | [], [] => true
  | x :: xs', y :: ys' => lift_eqb x y && lifts_eqb xs' ys'
  | _, _ => false
  end.
End Lift.

(* == : Prefixed.__eq__ is Model/Prefixed.v: pcmp OEq (both numbers at the smaller prefix, rounded to EPSILON places);
   Decimal.__eq__ compares values *)
Definition pref_eq (x : Dec.dec) (q : Z) (y : Dec.dec) (r : Z) : bool :=
  Prefixed.pcmp Prefixed.OEq (Prefixed.mkP x q) (Prefixed.mkP y r).
Definition float_eq (r s : string) : bool := String.eqb (fzero r) (fzero s).
Definition inst_eqb : pval -> pval -> bool := lift_eqb pref_eq Dec.deqb float_eq.
Definition insts_eqb : list pval -> list pval -> bool := lifts_eqb pref_eq Dec.deqb float_eq.

(* hash(a) == hash(b) for an idealised (collision-free) hash of what CPython hashes: the VALUE of a Prefixed
   (Prefixed.__hash__ = hash(self.scale(UNIT).number), Model/Prefixed.v: phash - the normal form of the number scaled to
   UNIT, which is canon_pref) or of a Decimal, the value itself otherwise *)
Definition res_eqb (a b : result (Z * Z)) : bool :=
  match a, b with Ok h1, Ok h2 => (fst h1 =? fst h2) && (snd h1 =? snd h2) | _, _ => false end.
Definition pref_hash_eq (x : Dec.dec) (q : Z) (y : Dec.dec) (r : Z) : bool := res_eqb (canon_pref x q) (canon_pref y r).
Definition dec_hash_eq (x y : Dec.dec) : bool := res_eqb (canon_dec x) (canon_dec y).
Definition hash_eqb : pval -> pval -> bool := lift_eqb pref_hash_eq dec_hash_eq float_eq.
Definition hashes_eqb : list pval -> list pval -> bool := lifts_eqb pref_hash_eq dec_hash_eq float_eq.

(* the dict lookup of the generator cache finds an entry when the hashes agree and the keys compare equal *)
Definition lookup_hit (a b : list pval) : bool := hashes_eqb a b && insts_eqb a b.

(* no Prefixed number has more than EPSILON decimal places: there == is equality of the exact values *)
Fixpoint fine (v : pval) : bool :=
  match v with
  | VPrefW d _ => - PrefixTable.EPSILON <=? Dec.dexp d
  | VRec vs => (fix go (vs : list pval) : bool := match vs with [] => true | x :: vs' => fine x && go vs' end) vs
  | _ => true
  end.
Fixpoint fine_all (vs : list pval) : bool := match vs with [] => true | x :: vs' => fine x && fine_all vs' end.

(* ---------- level 1 -> 2: what pydantic stores for a value written by the caller ---------- *)
(* int -> float is modelled on |z| < 10^15, where repr(float(z)) is the decimal text followed by ".0" *)
Definition float_of_int_limit : Z := 1000000000000000.

(* scalar.py:to_scalar / pydantic's Decimal validator *)
Definition to_number (strings_fall_back : bool) (v : pval) : result (option Dec.dec) :=
  match v with
  | VInt z => Ok (Some (Dec.of_int z 0))
  | VFloat r => d <- dec_of_float r ;; Ok (Some d)
  | VDecW d => Ok (Some d)
  | VStr s => match parse_pystr s with
              | PNum d => Ok (Some d)
              | PNone => if strings_fall_back then Ok None else Error EBadKind
              | PUnmodelled => Error EOther
              end
  | _ => Error EBadKind
  end.

Fixpoint validate (d : dtype) (v : pval) {struct d} : result pval :=
  match d, v with
  | DInt, VInt z => Ok (VInt z)
  | DInt, VBool b => Ok (VInt (if b then 1 else 0))
  | DFloat, VFloat r => if float_held r then Ok (VFloat r) else Error EBadKind
  | DFloat, VInt z => if (Z.abs z <? float_of_int_limit) && float_ok (dec z ++ ".0")
                      then Ok (VFloat (dec z ++ ".0")) else Error EBadKind
  | DFloat, VBool b => Ok (VFloat (if b then "1.0" else "0.0"))
  | DStr, VStr s => Ok (VStr s)
  | DBool, VBool b => Ok (VBool b)
  | DOpt _, VNone => Ok VNone
  | DOpt d', _ => validate d' v
  | DEnum n, VEnum i => if N.ltb i n then Ok (VEnum i) else Error EBadKind
  | DRef, VRef i => Ok (VRef i)
  | DRec ds, VRec vs =>
      r <- (fix go (ds : list dtype) (vs : list pval) {struct ds} : result (list pval) :=
              match ds, vs with
              | [], [] => Ok []
              | d' :: ds', v' :: vs' => x <- validate d' v' ;; xs <- go ds' vs' ;; Ok (x :: xs)
              | _, _ => Error EBadKind
              end) ds vs ;;
      Ok (VRec r)
  | DScalar, VPrefW x q => if Prefixed.is_prefix q then Ok (VPrefW x q) else Error EBadKind
  | DScalar, VLit s => Ok (VLit s)
  | DScalar, _ =>                                   (* str, int, float, Decimal: Prefixed(number=v), a str falls back to Literal *)
      o <- to_number true v ;; u <- Prefixed.unit_prefix ;;
      match o, v with
      | Some x, _ => Ok (VPrefW x u)
      | None, VStr s => Ok (VLit s)
      | None, _ => Error EBadKind
      end
  | DPref, VPrefW x q => if Prefixed.is_prefix q then Ok (VPrefW x q) else Error EBadKind
  | DDec, _ => o <- to_number false v ;; match o with Some x => Ok (VDecW x) | None => Error EBadKind end
  | DMut, VMut i => Ok (VMut i)                     (* List / Dict / Set: pydantic keeps the container *)
  | DObj, VObj i => Ok (VObj i)                     (* arbitrary types: an isinstance check, the object is kept as it is *)
  | _, _ => Error EBadKind
  end.

(* ---------- level 2 -> 3 ---------- *)
Fixpoint canon (v : pval) {struct v} : result pval :=
  match v with
  | VPrefW d q => ce <- canon_pref d q ;; Ok (VPref (fst ce) (snd ce))
  | VDecW d => ce <- canon_dec d ;; Ok (VDec (fst ce) (snd ce))
  | VRec vs =>
      r <- (fix go (vs : list pval) : result (list pval) :=
              match vs with
              | [] => Ok []
              | x :: vs' => y <- canon x ;; ys <- go vs' ;; Ok (y :: ys)
              end) vs ;;
      Ok (VRec r)
  | VFloat r => Ok (VFloat (fzero r))
  | VPref _ _ | VDec _ _ => Error EBadKind          (* not a level-2 value *)
  | VMut _ => Error EBadKind                        (* unhashable: hash(GeneratorCall) raises TypeError, the call has no cache key *)
  | _ => Ok v
  end.

Fixpoint canon_all (vs : list pval) : result (list pval) :=
  match vs with
  | [] => Ok []
  | x :: vs' => y <- canon x ;; ys <- canon_all vs' ;; Ok (y :: ys)
  end.

(* call normalisation: written value -> cache-key value *)
Definition norm (d : dtype) (v : pval) : result pval := x <- validate d v ;; canon x.

(* a declared field: name, dtype, default value (as written in the Param declaration) *)
Record field := { f_name : string; f_dtype : dtype; f_default : option pval }.

(* keyword call / paramclass constructor: an omitted argument takes the (validated) default *)
Fixpoint norm_args (fs : list field) (args : list (option pval)) : result (list pval) :=
  match fs, args with
  | [], [] => Ok []
  | f :: fs', a :: args' =>
      x <- match a, f_default f with
           | Some v, _ => norm (f_dtype f) v
           | None, Some dv => norm (f_dtype f) dv
           | None, None => Error EMissing
           end ;;
      xs <- norm_args fs' args' ;; Ok (x :: xs)
  | _, _ => Error EExtra
  end.

(* the validated instance itself (level 2): norm_args = validate_args then canon_all (ParamNameProofs: norm_args_split) *)
Fixpoint validate_args (fs : list field) (args : list (option pval)) : result (list pval) :=
  match fs, args with
  | [], [] => Ok []
  | f :: fs', a :: args' =>
      x <- match a, f_default f with
           | Some v, _ => validate (f_dtype f) v
           | None, Some dv => validate (f_dtype f) dv
           | None, None => Error EMissing
           end ;;
      xs <- validate_args fs' args' ;; Ok (x :: xs)
  | _, _ => Error EExtra
  end.

(* ---------- _unique_name ---------- *)
Definition scalar_dtype (d : dtype) : bool :=
  match d with
  | DInt | DFloat | DStr | DOpt DInt | DOpt DFloat | DOpt DStr => true
  | _ => false
  end.

(* str(value) for the scalar values *)
Definition render (v : pval) : string :=
  match v with
  | VNone => "None"
  | VInt z => dec z
  | VFloat r => r
  | VStr s => s
  | _ => ""
  end.

(* the repair: a string holding a separator, or reading like None, is not rendered readably *)
Definition plain (v : pval) : bool :=
  match v with
  | VStr s => negb (has_char " " s || has_char "=" s || String.eqb s "None")
  | _ => true
  end.

Fixpoint readable (ks : list string) (vs : list pval) : string :=
  match ks, vs with
  | k :: ks', v :: vs' =>
      match ks' with
      | [] => k ++ "=" ++ render v
      | _ => k ++ "=" ++ render v ++ " " ++ readable ks' vs'
      end
  | _, _ => ""
  end.

Inductive uname := Readable (s : string) | Hashed.

Definition strlen (s : string) : Z := Z.of_nat (String.length s).

Definition unique_name (fs : list field) (vs : list pval) : result uname :=
  if negb (typed_all (map f_dtype fs) vs) then Error EBadKind else
  if forallb scalar_dtype (map f_dtype fs) && forallb plain vs then
    let name := readable (map f_name fs) vs in
    if strlen name <? readable_name_limit then Ok (Readable name) else Ok Hashed
  else Ok Hashed.

(* ---------- the hashed form: the JSON value that json.dumps(params, indent=4, default=hdl21_naming_encoder)
   serialises (the text is then md5-hashed; serialisation and digest are not modelled, see Proofs/NamingProofs.v).
   hdl21_naming_encoder: a paramclass instance (dataclass) -> dict of its fields; Module / Generator / ExternalModule ->
   qualified name and PrimitiveCall / ExternalModuleCall -> name plus parameter suffix (JRef i: the text written for
   the i-th referenced object); Enum member -> its value (JEnum i: the JSON of the value of member i);
   Literal (dataclass) -> {"text": s}; and, REPAIRED, Prefixed -> {"prefixed": _value_name(number scaled to UNIT)},
   Decimal -> {"decimal": _value_name(d)}.  The keys of a NESTED paramclass are its field names, which are fixed by
   the class: modelled by position. ---------- *)
Inductive jv :=
| JNull | JInt (z : Z) | JFloat (r : string) | JStr (s : string) | JBool (b : bool)
| JEnum (i : N) | JRef (i : N) | JObj (kvs : list (string * jv))
| JNoForm (i : N).     (* NOT a JSON value: the leaf at which hdl21_naming_encoder RAISES (TypeError from pydantic's encoder,
                          RuntimeError for an Instance) - kept as a leaf so that `encode` is total; `unique_name_f` below
                          refuses every parameter set whose tree contains it *)

(* params.py:_value_name : f"{'-' if sign else ''}{coef}e{exp}" on the normal form *)
Definition canon_str (c e : Z) : string := dec c ++ "e" ++ dec e.

Fixpoint index_keys (n : nat) (l : list jv) : list (string * jv) :=
  match l with [] => [] | x :: l' => (dec (Z.of_nat n), x) :: index_keys (S n) l' end.

Fixpoint encode (v : pval) {struct v} : jv :=
  match v with
  | VNone => JNull
  | VInt z => JInt z
  | VFloat r => JFloat r
  | VStr s => JStr s
  | VBool b => JBool b
  | VEnum i => JEnum i
  | VRef i => JRef i
  | VRec vs => JObj (index_keys 0 ((fix go (vs : list pval) : list jv :=
                                      match vs with [] => [] | x :: vs' => encode x :: go vs' end) vs))
  | VLit s => JObj [("text", JStr s)]
  | VPref c e => JObj [("prefixed", JStr (canon_str c e))]
  | VDec c e => JObj [("decimal", JStr (canon_str c e))]
  | VPrefW _ _ | VDecW _ | VMut _ => JNull (* not cache-key values *)
  | VObj i => JNoForm i
  end.

Fixpoint zip_keys (ks : list string) (l : list jv) : list (string * jv) :=
  match ks, l with k :: ks', x :: l' => (k, x) :: zip_keys ks' l' | _, _ => [] end.

(* the JSON value of a whole parameter set (cache-key values) *)
Definition json_tree (fs : list field) (vs : list pval) : jv := JObj (zip_keys (map f_name fs) (map encode vs)).

(* what the implementation encodes is the level-2 value held by the instance *)
Definition encode_inst (v : pval) : result jv := x <- canon v ;; Ok (encode x).

(* THE PINNED / PRE-REPAIR ENCODER of a Prefixed: pydantic's generic encoder - model_dump() gives {"number": Decimal,
   "prefix": Prefix}, a Decimal with exponent >= 0 is written as the int int(d), the Prefix as its value.
   (A Decimal with a negative exponent is written as float(d); that branch is not modelled: None.) *)
Definition encode_pref_pinned (d : Dec.dec) (q : Z) : option jv :=
  if 0 <=? Dec.dexp d
  then Some (JObj [("number", JInt (Dec.dint d * Dec.pow10 (Dec.dexp d))); ("prefix", JInt q)])
  else None.

(* ---------- parameter values that cannot be named ----------
   A field that holds an object without a JSON form is never of a scalar dtype, so `_unique_name` takes the hashed form,
   and `json.dumps(params, default=hdl21_naming_encoder)` reaches every field value, nested param-classes included; the
   encoder hands the object to pydantic's encoder, which raises TypeError (an Instance: RuntimeError from the encoder
   itself).  `_unique_name` RAISES - it does not fall back to repr(obj), which would put a memory address into the name. *)
Fixpoint has_obj (v : pval) : bool :=
  match v with
  | VObj _ => true
  | VRec vs => (fix go (vs : list pval) : bool := match vs with [] => false | x :: vs' => has_obj x || go vs' end) vs
  | _ => false
  end.

Definition unique_name_f (fs : list field) (vs : list pval) : result uname :=
  if existsb has_obj vs then Error EName else unique_name fs vs.

(* ---------- parameter values without a hash (strengthening round 3) ----------
   A field of a mutable container type (List / Dict / Set) validates - pydantic keeps the list / dict / set - but the
   frozen dataclass hash of the parameter instance, and with it hash(GeneratorCall), raises TypeError.  generator.run
   looks the call up in `Cache.done` FIRST: the TypeError leaves `run` before anything was pushed, the body does not run, no
   module is handed out.  In the model such a call has no key (`canon` refuses `VMut`, so `norm_args` and `mk_key` fail):
   it is refused at every position of every history without touching the state.  The property's "equal parameters ->
   identical module, body runs once" is kept by never answering; an implementation that answers such a call has to answer
   the equal call with the identical module (it cannot: it has no key to find it by). *)
Fixpoint has_mut (v : pval) : bool :=
  match v with
  | VMut _ => true
  | VRec vs => (fix go (vs : list pval) : bool := match vs with [] => false | x :: vs' => has_mut x || go vs' end) vs
  | _ => false
  end.
