(* Model/C01EElab.v — a model of the whole elaborate + export pipeline for the core fragment of
   Base/Design.v (signals, buses, nested slices/concats, whole-connection port references, no-connects,
   instance arrays, hierarchy, primitive / external leaves).

     hdl21/elab/elab.py:Elaborator.default  -> elab_model   = portrefs_design ; arrays_design ; slices_design
         (Orphanage, ConnTypes, PostFlatten*, MarkModules only check or mark: identity on what they accept;
          InstBundleElabPass, BundleFlattener: nothing to do in the core fragment.  Each pass visits every
          module once and looks at other modules only through their port lists, which no pass changes, so
          "pass by pass over the hierarchy" and "module by module" compose to the same design.)
     hdl21/elab/passes/portrefs.py          -> portrefs_module
         reference groups = the weak components of the graph "port -> the port its connection refers to"
         (that is what `follow` collects: Proofs/C04GroupProofs.v/C04GroupComplete.v prove it for the connection
         books of Model/C04ConnOps.v; here the component of a port is decided by "the orbits meet",
         Proofs/FunGraph.v:meets_iff), handle_portconn/find_source/create_source/which_portref_to_name -> group_res,
         handle_noconn/replace_noconn -> the ANc allocations, resolve_portref/update_ref_deps -> rewrite_conn.
     hdl21/elab/passes/arrays.py            -> arrays_module   (popitem: last array first; flatname per element)
     hdl21/elab/passes/slices.py            -> slices_module   (Model/Resolve.v:resolve)
     hdl21/proto/exporting.py               -> export_model    (depth first, definition before use; signals then ports;
                                                                export_slice inclusive top; concat parts MSB first)

   What the abstract design does not carry is handed in as `xinfo`: how a leaf device is written in VLSIR
   (domain, name, parameters, external-module declaration), the names of named no-connects, port directions.
   Every `raise` is an Error; the fuel of the depth-first export is shown unreachable (Proofs/C01EProofs*.v). *)
From Coq Require Import String Ascii DecimalString.
Require Import Hdl21.Base.PyInt Hdl21.Spec.PySlice Hdl21.Model.Slice Hdl21.Model.Resolve Hdl21.Base.Design
               Hdl21.Spec.Nets Hdl21.Spec.WfDesign Hdl21.Base.Package Hdl21.Base.PrimTable Hdl21.Model.Arrays Hdl21.Model.Export
               Hdl21.Proofs.FunGraph.
Require Hdl21.Spec.BundleSpec Hdl21.Model.BundleFlat Hdl21Gen.C10Tables.
Open Scope string_scope.
Open Scope list_scope.
Open Scope Z_scope.

Definition flatname := Hdl21.Model.BundleFlat.flatname.
Definition maxlen : Z := Hdl21Gen.C10Tables.flatname_maxlen.
Definition dec (k : N) : string := NilEmpty.string_of_uint (N.to_uint k).      (* Python str(k), k >= 0 *)
Definition inst_port (i p : name) : name := (i ++ "_" ++ p)%string.            (* f"{inst.name}_{portname}" *)

(* ------------------------------------------------------------------------------------------------ xinfo *)
Record devinfo := { dv_dom : name; dv_name : name; dv_params : list (name * string); dv_ext : option pext }.
Record xinfo := { x_devs : list (name * devinfo);               (* TDev identity string -> how the exporter writes it *)
                  x_ncnames : list (name * list (N * name));    (* module -> its named no-connect sites *)
                  x_dirs : list (name * list (name * Z)) }.     (* module -> port -> VLSIR direction code *)

Definition dev_string (v : devinfo) : name :=
  sapp (dv_dom v) (sapp "/" (sapp (dv_name v) (sapp "{" (sapp (params_str (dv_params v)) "}")))).

(* ------------------------------------------------------------------------------------------------ keys *)
Definition key := (name * name)%type.          (* (instance, port) *)
Definition key_eqb (a b : key) : bool := String.eqb (fst a) (fst b) && String.eqb (snd a) (snd b).
Definition kmem (q : key) (l : list key) : bool := existsb (key_eqb q) l.
Fixpoint kdedupe (l : list key) (seen : list key) : list key :=
  match l with
  | [] => []
  | q :: r => if kmem q seen then kdedupe r seen else q :: kdedupe r (q :: seen)
  end.
(* sorted(group, key=lambda p: (p.inst.name, p.portname)) compares tuples of str *)
Definition key_ltb (a b : key) : bool :=
  String.ltb (fst a) (fst b) || (String.eqb (fst a) (fst b) && String.ltb (snd a) (snd b)).
(* sorted(...)[0] with Python's stable sort = the FIRST minimal element *)
Definition first_min (x : key) (t : list key) : key := fold_left (fun acc y => if key_ltb y acc then y else acc) t x.

Definition single (x : inst) : bool := i_n x <=? 0.
Definition smem (s : name) (l : list name) : bool := existsb (String.eqb s) l.

(* ------------------------------------------------------------------------------------------------ ResolvePortRefs *)
Section PortRefs.
Variable d : design.
Variable ncn : list (N * name).
Variable m : module.

Definition leaf_at (cx : sx) : option leaf := match cx with XSig id _ => assocN id (m_leaves m) | _ => None end.
Definition as_ref (cx : sx) : option key := match leaf_at cx with Some (LRef i p) => Some (i, p) | _ => None end.
Definition as_nc (cx : sx) : option N := match leaf_at cx with Some (LNc s) => Some s | _ => None end.

Definition pconn (q : key) : option sx :=
  match find_inst (m_insts m) (fst q) with Some x => assoc (snd q) (i_conns x) | None => None end.
(* the port a port's connection refers to, if its whole connection is a reference *)
Definition next (q : key) : option key := match pconn q with Some cx => as_ref cx | None => None end.
Definition nxt (q : key) : key := match next q with Some q' => q' | None => q end.

(* every port of every single instance: the universe in which groups live
   (a port of an InstanceArray can take a reference but cannot be referred to) *)
Definition all_keys : result (list key) :=
  cat_results (map (fun x => if single x then ps <- target_ports d (i_of x) ;; Ok (map (fun pw => (i_name x, fst pw)) ps)
                             else Ok []) (m_insts m)).

Section Groups.
Variable keys : list key.
Let KN := Datatypes.length keys.

(* the group of q, named by its first member in the enumeration: follow() collects exactly the ports whose
   orbits under `nxt` meet the orbit of q *)
Definition gid (q : key) : option key :=
  find (fun k => FunGraph.meets key key_eqb (orbitf key nxt key_eqb KN k) (orbitf key nxt key_eqb KN q)) keys.

Definition attr (k : key) : key := Nat.iter KN nxt k.

Definition members (g : key) : list key :=
  filter (fun q => match gid q with Some g' => key_eqb g g' | None => false end) keys.

(* handle_portconn: the group's declared connection, or the port that names (and shapes) its implicit signal *)
Inductive gres := GSrc (cx : sx) | GFresh (owner namer : key).

Definition group_res (g : key) : result gres :=
  let r := attr g in
  match pconn r with
  | None => Ok (GFresh r r)                            (* the one port connected to nothing: which_portref_to_name *)
  | Some cx =>
      match as_ref cx with
      | Some _ =>                                      (* no such port: a cycle; the least (instance, port) names it *)
          match members g with
          | [] => Error EOther
          | x :: t => Ok (GFresh g (first_min x t))
          end
      | None => match as_nc cx with
                | Some _ => Error ENoConn              (* handle_noconn: multiply-connected NoConn *)
                | None => Ok (GSrc cx)                 (* find_source *)
                end
      end
  end.

(* module_portrefs: per instance-like (instances, then arrays) the references handed out, then its no-connects *)
Definition mentioned : list key :=
  kdedupe (flat_map (fun x => flat_map (fun c => match as_ref (snd c) with Some q => [q] | None => [] end) (i_conns x))
                    (m_insts m)) [].

Inductive seed := SRef (q : key) | SNc (x : inst) (p : name) (site : N).

Definition inst_seeds (x : inst) : list seed :=
  map SRef (filter (fun q => String.eqb (fst q) (i_name x)) mentioned) ++
  flat_map (fun c => match as_nc (snd c) with Some s => [SNc x (fst c) s] | None => [] end) (i_conns x).

Definition seeds : list seed :=
  flat_map inst_seeds (filter single (m_insts m) ++ filter (fun x => negb (single x)) (m_insts m)).

(* the signals the pass creates, in the order it creates them *)
Inductive akind := AGroup (g owner : key) | ANc (i p : name).
Record alloc := { a_kind : akind; a_base : name; a_width : Z }.

Definition key_width (q : key) : result Z :=
  x <- ofopt EMissing (find_inst (m_insts m) (fst q)) ;; port_width d x (snd q).

Fixpoint plan (ss : list seed) (done : list key) : result (list alloc) :=
  match ss with
  | [] => Ok []
  | SRef q :: r =>
      g <- ofopt EMissing (gid q) ;;
      if kmem g done then plan r done else
      gr <- group_res g ;;
      match gr with
      | GSrc _ => plan r (g :: done)
      | GFresh owner namer =>
          w <- key_width namer ;;                       (* copy_port(io[portname]) *)
          rest <- plan r (g :: done) ;;
          Ok ({| a_kind := AGroup g owner; a_base := inst_port (fst namer) (snd namer); a_width := w |} :: rest)
      end
  | SNc x p site :: r =>
      w <- port_width d x p ;;
      rest <- plan r done ;;
      Ok ({| a_kind := ANc (i_name x) p;
             a_base := match assocN site ncn with Some n => n | None => inst_port (i_name x) p end;
             a_width := if single x then w else w * i_n x |} :: rest)     (* a private section per array element *)
  end.

End Groups.

(* flatname(segments=[base], avoid=module.namespace); module.add(sig) *)
Fixpoint alloc_names (bases : list name) (avoid : list name) : result (list name) :=
  match bases with
  | [] => Ok []
  | b :: r => n <- flatname [b] avoid maxlen ;; ns <- alloc_names r (avoid ++ [n]) ;; Ok (n :: ns)
  end.

Definition namespace : list name := map fst (m_ports m) ++ map fst (m_sigs m) ++ map i_name (m_insts m).

Definition next_leaf : N := fold_right (fun l acc => N.max (N.succ (fst l)) acc) 0%N (m_leaves m).

(* allocation number t -> (leaf id, allocation, name) *)
Fixpoint number_allocs (l : list (alloc * name)) (id : N) : list (N * alloc * name) :=
  match l with [] => [] | (a, n) :: r => (id, a, n) :: number_allocs r (N.succ id) end.

Section Rewrite.
Variable keys : list key.
Variable table : list (N * alloc * name).

Definition find_group (g : key) : option (N * alloc * name) :=
  find (fun e => match a_kind (snd (fst e)) with AGroup g' _ => key_eqb g g' | ANc _ _ => false end) table.
Definition find_nc (i p : name) : option (N * alloc * name) :=
  find (fun e => match a_kind (snd (fst e)) with ANc i' p' => String.eqb i i' && String.eqb p p' | AGroup _ _ => false end) table.

(* what a reference to port q stands for after the pass: resolve_portref(pref, source) *)
Definition res (q : key) : result sx :=
  g <- ofopt EMissing (gid keys q) ;;
  gr <- group_res keys g ;;
  match gr with
  | GSrc cx => Ok cx
  | GFresh _ _ => e <- ofopt EMissing (find_group g) ;; Ok (XSig (fst (fst e)) (a_width (snd (fst e))))
  end.

Definition rewrite_conn (x : inst) (c : name * sx) : result (name * sx) :=
  match as_ref (snd c) with
  | Some q => e <- res q ;; Ok (fst c, e)
  | None =>
      match as_nc (snd c) with
      | Some _ => e <- ofopt EMissing (find_nc (i_name x) (fst c)) ;; Ok (fst c, XSig (fst (fst e)) (a_width (snd (fst e))))
      | None => Ok c
      end
  end.

(* pref.inst.connect(pref.portname, to) on a port that had no connection: a new entry at the end of `conns` *)
Definition added_one (x : inst) (e : N * alloc * name) : list (name * sx) :=
  match a_kind (snd (fst e)) with
  | AGroup _ owner =>
      if String.eqb (fst owner) (i_name x) && single x &&
         match assoc (snd owner) (i_conns x) with None => true | Some _ => false end
      then [(snd owner, XSig (fst (fst e)) (a_width (snd (fst e))))] else []
  | ANc _ _ => []
  end.
Definition added_conns (x : inst) : list (name * sx) := flat_map (added_one x) table.

Definition rewrite_inst (x : inst) : result inst :=
  cs <- traverse (rewrite_conn x) (i_conns x) ;;
  Ok {| i_name := i_name x; i_n := i_n x; i_of := i_of x; i_conns := cs ++ added_conns x |}.
End Rewrite.

(* the groups' universe and the signals the pass creates: (leaf id, what it is for, its name) *)
Definition pr_table : result (list key * list (N * alloc * name)) :=
  keys <- all_keys ;;
  allocs <- plan keys seeds [] ;;
  names <- alloc_names (map a_base allocs) namespace ;;
  Ok (keys, number_allocs (combine allocs names) next_leaf).

Definition portrefs_module : result module :=
  kt <- pr_table ;;
  insts <- traverse (rewrite_inst (fst kt) (snd kt)) (m_insts m) ;;
  Ok {| m_name := m_name m; m_ports := m_ports m;
        m_sigs := m_sigs m ++ map (fun e => (snd e, a_width (snd (fst e)))) (snd kt);
        m_insts := insts;
        m_leaves := m_leaves m ++ map (fun e => (fst (fst e), LSig (snd e))) (snd kt) |}.
End PortRefs.

Definition map_modules (f : module -> result module) (d : design) : result design :=
  ms <- traverse f (d_mods d) ;; Ok {| d_mods := ms; d_top := d_top d |}.

Definition ncnames (xi : xinfo) (m : module) : list (N * name) :=
  match assoc (m_name m) (x_ncnames xi) with Some l => l | None => [] end.

Definition portrefs_design (xi : xinfo) (d : design) : result design :=
  map_modules (fun m => portrefs_module d (ncnames xi m) m) d.

(* ------------------------------------------------------------------------------------------------ ArrayFlattener *)
Definition remove_name (n : name) (l : list name) : list name := filter (fun x => negb (String.eqb x n)) l.

(* for k in range(n): name = flatname([array.name, str(k)], avoid=module.namespace); module.add(Instance(name)) *)
Fixpoint name_elems (arr : name) (n : nat) (k : N) (avoid : list name) : result (list name) :=
  match n with
  | O => Ok []
  | S n' => nm <- flatname [arr; dec k] avoid maxlen ;;
            r <- name_elems arr n' (N.succ k) (avoid ++ [nm]) ;; Ok (nm :: r)
  end.

Definition elem_inst (d : design) (x : inst) (ps : list (name * Z)) (knm : Z * name) : result inst :=
  cs <- traverse (fun c : name * sx =>
                    w <- ofopt EExtra (assoc (fst c) ps) ;;
                    c' <- array_elem_conn (i_n x) w (snd c) (fst knm) ;; Ok (fst c, c')) (i_conns x) ;;
  Ok {| i_name := snd knm; i_n := 0; i_of := i_of x; i_conns := cs |}.

(* the names of the new Instances: arrays in the order they are dissolved, the namespace grows with every name *)
Fixpoint array_names (arrs : list inst) (avoid : list name) : result (list (list name)) :=
  match arrs with
  | [] => Ok []
  | x :: r =>
      let av := remove_name (i_name x) avoid in                       (* module.namespace.pop(name) *)
      nms <- name_elems (i_name x) (Z.to_nat (i_n x)) 0%N av ;;
      rest <- array_names r (av ++ nms) ;;
      Ok (nms :: rest)
  end.

Definition expand_array (d : design) (xn : inst * list name) : result (list inst) :=
  let x := fst xn in
  ps <- target_ports d (i_of x) ;;
  traverse (elem_inst d x ps) (combine (iota (Z.to_nat (i_n x)) 0 1) (snd xn)).

(* while module.instarrays: popitem() -- the array added last goes first *)
Definition dissolved (m : module) : list inst := rev (filter (fun x => negb (single x)) (m_insts m)).

Definition arrays_module (d : design) (m : module) : result module :=
  tbl <- array_names (dissolved m) (namespace m) ;;
  new <- traverse (expand_array d) (combine (dissolved m) tbl) ;;
  Ok {| m_name := m_name m; m_ports := m_ports m; m_sigs := m_sigs m;
        m_insts := filter single (m_insts m) ++ concat new; m_leaves := m_leaves m |}.

(* the terminal correspondence: element e of array i is the Instance named by the pass (i_e, or its fresh variant) *)
Definition elem_rename (m : module) (ie : pelem) : pelem :=
  match array_names (dissolved m) (namespace m) with
  | Ok tbl =>
      match find (fun xn : inst * list name => String.eqb (i_name (fst xn)) (fst ie)) (combine (dissolved m) tbl) with
      | Some xn => (nth (Z.to_nat (snd ie)) (snd xn) (fst ie), 0)
      | None => ie
      end
  | Error _ => ie
  end.

Definition arrays_design (d : design) : result design := map_modules (arrays_module d) d.

(* ------------------------------------------------------------------------------------------------ SliceResolver *)
Definition flat_sx (f : flat) : sx :=
  match f with
  | FSig id w => XSig id w
  | FSl id w b t => XSlice (XSig id w) (Sl (Some b) (Some t) None)
  end.
Definition resolved_sx (r : resolved) : sx :=
  match r with RSingle f => flat_sx f | RConcat fs => XConcat (map flat_sx fs) end.

Definition slices_conn (c : name * sx) : result (name * sx) :=
  match snd c with
  | XSig _ _ => Ok c                                   (* only Slice / Concat valued connections are touched *)
  | cx => r <- resolve cx ;; Ok (fst c, resolved_sx r)
  end.

Definition slices_inst (x : inst) : result inst :=
  cs <- traverse slices_conn (i_conns x) ;;
  Ok {| i_name := i_name x; i_n := i_n x; i_of := i_of x; i_conns := cs |}.

Definition slices_module (m : module) : result module :=
  _ <- check (forallb single (m_insts m)) EOther ;;    (* "still has Instance Arrays" *)
  insts <- traverse slices_inst (m_insts m) ;;
  Ok {| m_name := m_name m; m_ports := m_ports m; m_sigs := m_sigs m; m_insts := insts; m_leaves := m_leaves m |}.

Definition slices_design (d : design) : result design := map_modules slices_module d.

Definition elab_model (xi : xinfo) (d : design) : result design :=
  d1 <- portrefs_design xi d ;; d2 <- arrays_design d1 ;; slices_design d2.

(* ------------------------------------------------------------------------------------------------ export *)
Fixpoint seq_results {A} (rs : list (result A)) : result (list A) :=
  match rs with
  | [] => Ok []
  | r :: rs' => a <- r ;; b <- seq_results rs' ;; Ok (a :: b)
  end.

(* export_connection_target / export_slice / export_concat *)
Fixpoint export_target (nm : N -> result name) (x : sx) : result ptarget :=
  match x with
  | XSig id _ => s <- nm id ;; Ok (PSig s)
  | XSlice p ix =>
      match p with
      | XSig id w =>
          r <- slice_inner w ix ;;
          if Slice.step r =? 1 then s <- nm id ;; Ok (PSlice s (top r - 1) (bot r))
          else Error EOther                            (* "has non-unit step" *)
      | _ => Error EOther                              (* "parent which is not a concrete Signal" *)
      end
  | XConcat ps => parts <- seq_results (map (export_target nm) ps) ;; Ok (PConcat (rev parts))
  end.

Definition leaf_name (m : module) (id : N) : result name :=
  match assocN id (m_leaves m) with Some (LSig s) => Ok s | _ => Error EUnresolved end.

Definition export_inst (xi : xinfo) (d : design) (m : module) (x : inst) : result pinst :=
  _ <- check (single x) EOther ;;
  rp <- match i_of x with
        | TMod k => t <- nth_mod d k ;; Ok (PLocal (m_name t), [])
        | TDev dev _ => v <- ofopt EMissing (assoc dev (x_devs xi)) ;; Ok (PExt (dv_dom v) (dv_name v), dv_params v)
        end ;;
  cs <- traverse (fun c : name * sx => t <- export_target (leaf_name m) (snd c) ;; Ok (fst c, t)) (i_conns x) ;;
  Ok {| pi_name := i_name x; pi_ref := fst rp; pi_params := snd rp; pi_conns := cs |}.

Definition port_dir (xi : xinfo) (m : module) (p : name) : Z :=
  match assoc (m_name m) (x_dirs xi) with
  | Some l => match assoc p l with Some c => c | None => 0 end
  | None => 0
  end.

Definition export_module (xi : xinfo) (d : design) (m : module) : result pmodule :=
  _ <- check (negb (String.eqb (m_name m) "")) EName ;;
  insts <- traverse (export_inst xi d m) (m_insts m) ;;
  Ok {| pm_name := m_name m; pm_sigs := m_sigs m ++ m_ports m;
        pm_ports := map (fun pw => (fst pw, port_dir xi m (fst pw))) (m_ports m);
        pm_insts := insts; pm_literals := [] |}.

Definition ext_mem (x : pext) (l : list pext) : bool :=
  existsb (fun y => String.eqb (px_domain x) (px_domain y) && String.eqb (px_name x) (px_name y)) l.

(* ProtoExporter.export_module / export_instance: the modules in the order they are appended to the package
   (after everything they instantiate) and the external modules in the order they are first met *)
Definition visit := (list nat * list pext)%type.

Fixpoint dfs (xi : xinfo) (d : design) (fuel : nat) (k : nat) (st : visit) : result visit :=
  match fuel with
  | O => Error EFuel
  | S f =>
      if existsb (Nat.eqb k) (fst st) then Ok st else              (* modules_by_id *)
      m <- nth_mod d k ;;
      st' <- fold_left (fun acc x =>
                 s <- acc ;;
                 match i_of x with
                 | TMod k' => dfs xi d f k' s
                 | TDev dev _ =>
                     v <- ofopt EMissing (assoc dev (x_devs xi)) ;;
                     match dv_ext v with
                     | Some e => Ok (if ext_mem e (snd s) then s else (fst s, snd s ++ [e]))
                     | None => Ok s
                     end
                 end) (m_insts m) (Ok st) ;;
      Ok (fst st' ++ [k], snd st')
  end.

Fixpoint export_mods (xi : xinfo) (d : design) (order : list nat) (seen : list name) : result (list pmodule) :=
  match order with
  | [] => Ok []
  | k :: r =>
      m <- nth_mod d k ;;
      _ <- check (negb (smem (m_name m) seen)) EName ;;           (* export_module_name: conflicting name *)
      pm <- export_module xi d m ;;
      rest <- export_mods xi d r (m_name m :: seen) ;;
      Ok (pm :: rest)
  end.

Definition export_model (xi : xinfo) (d : design) : result package :=
  st <- dfs xi d (S (Datatypes.length (d_mods d))) (d_top d) ([], []) ;;
  mods <- export_mods xi d (fst st) [] ;;
  Ok {| pk_domain := ""; pk_exts := snd st; pk_mods := mods |}.

Definition elab_export_model (xi : xinfo) (d : design) : result package :=
  d' <- elab_model xi d ;; export_model xi d'.

Definition top_name (d : design) : result name := m <- nth_mod d (d_top d) ;; Ok (m_name m).

(* ------------------------------------------------------------------------------------------------ xinfo is about this design *)
(* The leaf devices of the design language carry an identity string and their ports; `xinfo` says how the exporter
   writes them.  xinfo_ok: every device of the design has an entry that spells exactly its identity string and whose
   declaration (its own external module, else the primitive library) has exactly its ports, of width >= 1 and with
   distinct names; entries written under one (domain, name) agree. *)
Definition ext_ports (e : pext) : list (name * Z) := map (fun pwd : name * Z * Z => (fst (fst pwd), snd (fst pwd))) (px_ports e).

Fixpoint ports_eqb (a b : list (name * Z)) : bool :=
  match a, b with
  | [], [] => true
  | x :: a', y :: b' => String.eqb (fst x) (fst y) && (snd x =? snd y) && ports_eqb a' b'
  | _, _ => false
  end.

Definition dev_decl (v : devinfo) : option pext :=
  match dv_ext v with Some e => Some e | None => find_ext Hdl21.Base.PrimTable.prims_ext (dv_dom v) (dv_name v) end.

Definition dev_ok (xi : xinfo) (dev : name) (ports : list (name * Z)) : bool :=
  match assoc dev (x_devs xi) with
  | None => false
  | Some v =>
      String.eqb (dev_string v) dev && forallb (fun pw : name * Z => 1 <=? snd pw) ports && nodup_names (map fst ports) &&
      match dv_ext v with
      | Some e => String.eqb (px_domain e) (dv_dom v) && String.eqb (px_name e) (dv_name v)
      | None => true
      end &&
      match dev_decl v with Some e => ports_eqb (ext_ports e) ports | None => false end
  end.

Definition same_decl (a b : devinfo) : bool :=
  negb (String.eqb (dv_dom a) (dv_dom b) && String.eqb (dv_name a) (dv_name b)) ||
  match dv_ext a, dv_ext b with
  | Some e, Some f => ports_eqb (ext_ports e) (ext_ports f)
  | None, None => true
  | _, _ => false
  end.

Definition xinfo_ok (xi : xinfo) (d : design) : bool :=
  forallb (fun a => forallb (fun b => same_decl (snd a) (snd b)) (x_devs xi)) (x_devs xi) &&
  forallb (fun m => forallb (fun x => match i_of x with TDev dev ports => dev_ok xi dev ports | TMod _ => true end) (m_insts m))
          (d_mods d).
