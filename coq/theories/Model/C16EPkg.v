(* Model/C16EPkg.v — hdl21/flatten.py (repaired: fixes/C16-1, C16-2) as a function ON PACKAGES of Base/Package.v:
     flatten_pkg : package -> top name -> result package   (the result holds ONE module: the flat one).
   It follows the code on the exported form of the elaborated hierarchy:
     is_flat   every instance of the top module refers to a primitive / external module (PExt) -> `return m`: the package
               keeps that module as it is - slices and concatenations included (flatten does not look at them);
     walk      per instance the inner loop over inst.conns (Model/C16Flatten.v:new_conns, shared with the tree model):
               a connection target that is a SLICE or a CONCATENATION raises NotImplementedError (Error EBadKind) - at a
               leaf instance as well as at a sub-module instance, at every level, also when the slice covers the whole
               signal: flatten.py composes nothing, a child's port is resolved to the parent's connection target only when
               that target is a whole Signal (`key in conns` -> the parent's flat signal; `key in m.signals / m.ports` ->
               a new signal named by the ':'-joined path, width of the declared signal; else ValueError = EMissing);
               PExt instances are yielded as leaves (with their reference and parameters), PLocal instances are walked
               with the new map; a module name that the package does not define is an error (EMissing);
     _claim    Model/C16Flatten.v:check_claims over the claims in walk order (top-level names pre-claimed);
     flatten   the new module `<top>_flat`: ports of the top (names, directions), signals added by name with
               replacement (put_sig) skipping port names, written as the exporter writes a module: internal signals, then
               the port signals; one instance per yielded leaf, named by its ':'-joined path, same reference and
               parameters, every connection a whole signal named by the ':'-joined path of the net it reached.
   The recursion through module names is by fuel (number of modules + 1 suffices for a package with definition before
   use: Proofs/C16EProofsRefine.v); fuel exhaustion is the distinct error EFuel. *)
Require Import Hdl21.Base.PyInt Hdl21.Base.Design Hdl21.Base.Package Hdl21.Base.PrimTable
               Hdl21.Spec.C16Flat Hdl21.Model.C16Flatten Hdl21.Corr.C16.
From Coq Require Import String.
Open Scope string_scope.
Open Scope list_scope.
Open Scope Z_scope.

(* find_pmodule (module by name) and pconn_hconn (a connection target as walk sees it: a whole Signal -> CSig, a Slice /
   Concat -> COther) are those of Corr/C16.v, where the tree of Spec/C16Flat.v is read from a package *)

(* m.ports with widths / m.signals (the exporter writes port signals among pm_sigs) *)
Definition pm_port_widths (m : pmodule) : result (list (name * Z)) :=
  traverse (fun pd => w <- ofopt EMissing (assoc (fst pd) (pm_sigs m)) ;; Ok (fst pd, w)) (pm_ports m).
Definition pm_internal (m : pmodule) : list (name * Z) :=
  filter (fun sw => negb (has_key (fst sw) (pm_ports m))) (pm_sigs m).

(* a yielded leaf: what Model/C16Flatten.v records of it, and the instance it came from *)
Definition pnode := (anode * pinst)%type.
Definition pwout := (list pnode * list hpath)%type.

Section PCollect.
Context {A : Type}.
Variable f : A -> result pwout.
Fixpoint pcollect (l : list A) : result pwout :=
  match l with
  | [] => Ok ([], [])
  | y :: l' => r1 <- f y ;; r2 <- pcollect l' ;; Ok (fst r1 ++ fst r2, snd r1 ++ snd r2)
  end.
End PCollect.

Fixpoint pwalk (p : package) (fuel : nat) (path : hpath) (m : pmodule) (env : cenv) : result pwout :=
  match fuel with
  | O => Error EFuel
  | S f =>
      mports <- pm_port_widths m ;;
      pcollect (fun i =>
        nc <- new_conns path mports (pm_internal m) env (map pconn_hconn (pi_conns i)) ;;
        match pi_ref i with
        | PExt _ _ =>
            t <- pinst_target prims_ext p i ;;
            match t with
            | TDev dev ps =>
                Ok ([({| an_path := pi_name i :: path; an_dev := dev; an_dports := ps; an_conns := fst nc |}, i)],
                    snd nc ++ [pi_name i :: path])
            | TMod _ => Error EBadKind
            end
        | PLocal nm =>
            m' <- ofopt EMissing (find_pmodule (pk_mods p) nm) ;;
            r <- pwalk p f (pi_name i :: path) m' (fst nc) ;;
            Ok (fst r, snd nc ++ snd r)
        end) (pm_insts m)
  end.

Definition is_ext (i : pinst) : bool := match pi_ref i with PExt _ _ => true | PLocal _ => false end.
Definition pm_is_flat (m : pmodule) : bool := forallb is_ext (pm_insts m).

Definition ptop_env (mports msigs : list (name * Z)) : cenv := map (fun sw => (fst sw, (([], fst sw), snd sw))) (mports ++ msigs).
Definition ptop_claims (mports msigs : list (name * Z)) : list hpath := map (fun sw => [fst sw]) (mports ++ msigs).

Definition pnode_inst (n : pnode) : pinst :=
  {| pi_name := flat_name (an_path (fst n)); pi_ref := pi_ref (snd n); pi_params := pi_params (snd n);
     pi_conns := map (fun c => (fst c, PSig (fsig_name (snd c)))) (an_conns (fst n)) |}.

Definition flat_name_of (top : name) : name := sapp top "_flat".

Definition flat_pmodule (top : name) (m : pmodule) (mports : list (name * Z)) (nodes : list pnode) : pmodule :=
  {| pm_name := flat_name_of top;
     pm_sigs := fold_left (add_sigs mports) (map fst nodes) [] ++ mports;
     pm_ports := pm_ports m;
     pm_insts := map pnode_inst nodes;
     pm_literals := [] |}.

Definition one_module (p : package) (m : pmodule) : package :=
  {| pk_domain := pk_domain p; pk_exts := pk_exts p; pk_mods := [m] |}.

Definition pkg_fuel (p : package) : nat := S (Datatypes.length (pk_mods p)).

Definition flatten_pkg (p : package) (top : name) : result package :=
  m <- ofopt EMissing (find_pmodule (pk_mods p) top) ;;
  if pm_is_flat m then Ok (one_module p m) else
  mports <- pm_port_widths m ;;
  r <- pwalk p (pkg_fuel p) [] m (ptop_env mports (pm_internal m)) ;;
  _ <- check_claims [] (ptop_claims mports (pm_internal m) ++ snd r) ;;
  Ok (one_module p (flat_pmodule top m mports (fst r))).

(* the name of the module flatten_pkg returns *)
Definition flat_top (p : package) (top : name) : name :=
  match find_pmodule (pk_mods p) top with
  | Some m => if pm_is_flat m then top else flat_name_of top
  | None => top
  end.
