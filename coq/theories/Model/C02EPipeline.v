(* Model/C02EPipeline.v — the default pass list WITH its checking passes, over the pipeline model of C01E.

     hdl21/elab/elab.py:Elaborator.default (regenerated as Hdl21Gen.DefaultPasses; Props/C02E.v proves that the stages
     below are that list, in that order, once the two bundle passes - which have nothing to do in the core fragment -
     are left out):

       Orphanage               -> hier_design (base.py: the traversal every pass starts with; the first pass meets a
                                  circular instantiation) ; orphanage_design
       InstBundleElabPass      -> nothing to do (no instance bundles in Base/Design.v)
       ResolvePortRefs         -> Model/C01EElab.v:portrefs_design
       ConnTypes               -> conntypes_design         (single instances only: arrays wait for the repeat)
       BundleFlattener         -> nothing to do
       ArrayFlattener          -> Model/C01EElab.v:arrays_design
       SliceResolver           -> Model/C01EElab.v:slices_design
       PostFlattenConnTypes    -> conntypes_design         (its own class-level cache: Props/C02.v theorem 4)
       PostFlattenOrphanage    -> orphanage_design
       MarkModules             -> mark_design
     hdl21/proto/exporting.py  -> Model/C01EElab.v:export_model (export_module_name: unnamed / clashing names)

   The checks are the existing models: Model/Checks.v:check_instance (ConnTypes.check_instance),
   Model/C02Checks.v:orphanage_module / orphan_ok (Orphanage), with the readings of a connection of Base/Design.v
   they need (who owns what a leaf denotes; what get_width answers).  The no-connect group check (handle_noconn) and
   the array width rule (w or n*w) sit inside portrefs_design (group_res: ENoConn) and arrays_design
   (Model/Arrays.v:array_elem_conn), as in the code.

   checked_run returns the stage that rejected next to the result, so that the correspondence run can compare the
   rejecting PASS with the implementation's, not only the verdict. *)
From Coq Require Import String.
Require Import Hdl21.Base.PyInt Hdl21.Spec.PySlice Hdl21.Model.Slice Hdl21.Model.Resolve Hdl21.Base.Design
               Hdl21.Spec.WfDesign Hdl21.Base.Package Hdl21.Model.Checks Hdl21.Model.C02Checks Hdl21.Model.C01EElab.
Open Scope string_scope.
Open Scope list_scope.
Open Scope Z_scope.

(* ------------------------------------------------------------------------------------------------ per-module drivers *)
Fixpoint each_from (f : nat -> module -> result unit) (k : nat) (ms : list module) : result unit :=
  match ms with
  | [] => Ok tt
  | m :: ms' => _ <- f k m ;; each_from f (S k) ms'
  end.
Definition each_module (f : nat -> module -> result unit) (d : design) : result unit := each_from f 0 (d_mods d).

(* ------------------------------------------------------------------------------------------------ base.py *)
(* elaborate_module_base / elaborate_instance_base: the target of every instance is visited before the module itself.
   d_mods lists the modules in the order a pass completes them (the post-order of that traversal), so a target that
   does not precede is `pending` when it is met: "Invalid self referencing/ circular dependency". *)
Definition hier_module (self : nat) (m : module) : result unit :=
  all_ok (fun x => match i_of x with TMod k => check (k <? self)%nat ECycle | TDev _ _ => Ok tt end) (m_insts m).
Definition hier_design (d : design) : result unit := each_module hier_module d.

(* ------------------------------------------------------------------------------------------------ orphanage.py *)
(* what assert_parentage finds for the object a leaf denotes.  A Signal is written LSig s: owned by the module iff s is
   declared there (the printer writes Signals of other modules, or of none, under undeclared names); a PortRef is
   checked through its Instance: owned iff the module has an instance of that name; a NoConn is exempt; a leaf the
   table does not know denotes nothing the module owns. *)
Definition leaf_oconn (self : nat) (m : module) (id : N) : oconn :=
  match assocN id (m_leaves m) with
  | Some (LSig s) => OOwned (match sig_width m s with Some _ => Some self | None => None end)
  | Some (LRef i _) => ORef (match find_inst (m_insts m) i with Some _ => Some self | None => None end)
  | Some (LNc _) => ONoConn
  | None => OOwned None
  end.

Fixpoint oconn_e (self : nat) (m : module) (x : sx) : oconn :=
  match x with
  | XSig id _ => leaf_oconn self m id
  | XSlice p _ => OSlice (oconn_e self m p)
  | XConcat ps => OConcat (map (oconn_e self m) ps)
  end.

(* Orphanage.elaborate_module: the namespace attributes (declared in m, hence owned by it), then every connection of
   every instance and array *)
Definition orphanage_check (self : nat) (m : module) : result unit :=
  check (orphanage_module self
           (map (fun _ : name => Some self) (namespace m))
           (map (fun x => map (fun c : name * sx => oconn_e self m (snd c)) (i_conns x)) (m_insts m))) EOrphan.
Definition orphanage_design (d : design) : result unit := each_module orphanage_check d.

(* ------------------------------------------------------------------------------------------------ conntypes.py *)
(* check_signals_compatible / get_width: a NoConn is no HasWidth ("Invalid connection to non-Signal"), a PortRef is
   an "Internal error: PortRef remaining in connection-types check"; everything else is width(conn), which fails on
   an out-of-range or empty index (Model/Resolve.v:xwidth over slice.py:_slice_inner) *)
Definition ct_width (m : module) (cx : sx) : result Z :=
  match leaf_at m cx with
  | Some (LRef _ _) => Error EUnresolved
  | Some (LNc _) => Error EUnresolved
  | _ => xwidth cx
  end.

Definition ct_widths (m : module) (x : inst) : result (list (name * Z)) :=
  traverse (fun c : name * sx => w <- ct_width m (snd c) ;; Ok (fst c, w)) (i_conns x).

(* which of Unconnected / NoPort / width mismatch the failing instance shows first (the verdict is check_instance's) *)
Definition ct_error (ports conns : list (name * Z)) : err :=
  if negb (forallb (fun pw : name * Z => match assoc (fst pw) conns with Some _ => true | None => false end) ports) then EMissing
  else if negb (forallb (fun c : name * Z => match assoc (fst c) ports with Some _ => true | None => false end) conns) then EExtra
  else EWidth.

(* ConnTypes.elaborate_module: `for inst in module.instances.values()` - arrays are not looked at *)
Definition conntypes_inst (d : design) (m : module) (x : inst) : result unit :=
  if single x then
    ports <- target_ports d (i_of x) ;;
    cws <- ct_widths m x ;;
    check (check_instance ports cws) (ct_error ports cws)
  else Ok tt.

Definition conntypes_check (d : design) (self : nat) (m : module) : result unit := all_ok (conntypes_inst d m) (m_insts m).
Definition conntypes_design (d : design) : result unit := each_module (conntypes_check d) d.

(* ------------------------------------------------------------------------------------------------ mark_modules.py *)
Definition mark_check (self : nat) (m : module) : result unit := check (negb (String.eqb (m_name m) "")) EName.
Definition mark_design (d : design) : result unit := each_module mark_check d.

(* ------------------------------------------------------------------------------------------------ the pass list *)
Inductive stage :=
| SOrphanage | SPortRefs | SConnTypes | SArrays | SSlices | SPostConnTypes | SPostOrphanage | SMark | SExport | SDone.

(* the entry of Elaborator.default a stage stands for (SExport, SDone: not an elaboration pass) *)
Definition stage_pass (s : stage) : string :=
  match s with
  | SOrphanage => "Orphanage" | SPortRefs => "ResolvePortRefs" | SConnTypes => "ConnTypes" | SArrays => "ArrayFlattener"
  | SSlices => "SliceResolver" | SPostConnTypes => "PostFlattenConnTypes" | SPostOrphanage => "PostFlattenOrphanage"
  | SMark => "MarkModules" | SExport => "" | SDone => ""
  end.
Definition elab_stages : list stage :=
  [SOrphanage; SPortRefs; SConnTypes; SArrays; SSlices; SPostConnTypes; SPostOrphanage; SMark].

Definition checked_elab (xi : xinfo) (d : design) : result design :=
  _ <- hier_design d ;;
  _ <- orphanage_design d ;;
  d1 <- portrefs_design xi d ;;
  _ <- conntypes_design d1 ;;
  d2 <- arrays_design d1 ;;
  d3 <- slices_design d2 ;;
  _ <- conntypes_design d3 ;;
  _ <- orphanage_design d3 ;;
  _ <- mark_design d3 ;;
  Ok d3.

Definition checked_pipeline (xi : xinfo) (d : design) : result package :=
  d3 <- checked_elab xi d ;; export_model xi d3.

(* the same computation, naming the stage that stopped it *)
Definition checked_run (xi : xinfo) (d : design) : stage * result package :=
  match (_ <- hier_design d ;; orphanage_design d) with
  | Error e => (SOrphanage, Error e)
  | Ok _ =>
  match portrefs_design xi d with
  | Error e => (SPortRefs, Error e)
  | Ok d1 =>
  match conntypes_design d1 with
  | Error e => (SConnTypes, Error e)
  | Ok _ =>
  match arrays_design d1 with
  | Error e => (SArrays, Error e)
  | Ok d2 =>
  match slices_design d2 with
  | Error e => (SSlices, Error e)
  | Ok d3 =>
  match conntypes_design d3 with
  | Error e => (SPostConnTypes, Error e)
  | Ok _ =>
  match orphanage_design d3 with
  | Error e => (SPostOrphanage, Error e)
  | Ok _ =>
  match mark_design d3 with
  | Error e => (SMark, Error e)
  | Ok _ =>
  match export_model xi d3 with
  | Error e => (SExport, Error e)
  | Ok p => (SDone, Ok p)
  end end end end end end end end end.

(* ------------------------------------------------------------------------------------------------ what is given *)
(* Beside Model/C02Checks.v:given (dict keys are unique: ports of a target, connections of an instance, names of a
   Module namespace; declared widths are positive; a Signal leaf is annotated with the width of the Signal it names):
   the ports of leaf devices are at least one bit wide (Signal's validator again), and the printer's annotation of a
   reference leaf is the width of the port it names, when there is such a port. *)
Definition ref_annot_ok (d : design) (m : module) (lw : N * Z) : bool :=
  match assocN (fst lw) (m_leaves m) with
  | Some (LRef i p) =>
      match find_inst (m_insts m) i with
      | Some y => match port_width d y p with Ok w => w =? snd lw | Error _ => true end
      | None => true
      end
  | _ => true
  end.

Definition given_inst_e (d : design) (m : module) (x : inst) : bool :=
  match target_ports d (i_of x) with Ok ports => forallb (fun pw : name * Z => 1 <=? snd pw) ports | Error _ => true end &&
  forallb (fun c : name * sx => forallb (ref_annot_ok d m) (sx_leaves (snd c))) (i_conns x).

Definition given_e (d : design) : bool :=
  given d && forallb (fun m => forallb (given_inst_e d m) (m_insts m)) (d_mods d).

(* ------------------------------------------------------------------------------------------------ the modelled fragment *)
(* (1) a port reference or a no-connect is a whole connection, never a part of a slice or concatenation
       (Spec/C01ENets.v:frag_ok asks the same of references: the pipeline model does not follow update_ref_deps into
       nested references, and width() of a concatenation with a NoConn part is not modelled);
   (2) a reference names a port of a single instance: Spec/WfDesign.v calls a reference to a port of an instance ARRAY
       faulty (EBadKind) although it is not one of the fault classes of the statement, and the implementation accepts
       it (broadcast); the theorem makes no claim about such designs;
   (3) every module of the design is part of the hierarchy the exporter walks from the top module: Spec/WfDesign.v
       judges ALL listed modules, the implementation only ever sees those. *)
Definition leaf_whole_ok (m : module) (lw : N * Z) : bool :=
  match assocN (fst lw) (m_leaves m) with Some (LRef _ _) => false | Some (LNc _) => false | _ => true end.

Definition conn_whole (m : module) (c : name * sx) : bool :=
  match snd c with
  | XSig _ _ => true
  | cx => forallb (leaf_whole_ok m) (sx_leaves cx)
  end.

Definition ref_single (m : module) (lw : N * Z) : bool :=
  match assocN (fst lw) (m_leaves m) with
  | Some (LRef i _) => match find_inst (m_insts m) i with Some y => single y | None => true end
  | _ => true
  end.

Definition frag_conns (d : design) : bool :=
  forallb (fun m => forallb (fun x => forallb (fun c : name * sx => conn_whole m c && forallb (ref_single m) (sx_leaves (snd c)))
                                              (i_conns x)) (m_insts m)) (d_mods d).

(* every module other than the top one is instantiated by some module of the design *)
Definition instantiated (d : design) (k : nat) : bool :=
  existsb (fun m => existsb (fun x => match i_of x with TMod k' => Nat.eqb k k' | TDev _ _ => false end) (m_insts m)) (d_mods d).
Definition all_used (d : design) : bool :=
  forallb (fun k => Nat.eqb k (d_top d) || instantiated d k) (seq 0 (Datatypes.length (d_mods d))).

Definition frag_e (d : design) : bool := frag_conns d && all_used d.
