(* Model/C14XModel.v — C14 (extension C14X): the parts of hdl21/prefix.py that Model/Prefixed.v left abstract
   or did not cover.

   1. float(Prefixed) with the CONCRETE float(): `pfloat_c p = pfloat round_dec p`, where
      `round_dec : dec -> dbl` (Model/C17Float.v) is round-to-nearest-even on the exact rational value of a
      Decimal, returning an infinity beyond the binary64 range (what CPython's float(Decimal) does:
      float(Decimal('1e400')) = inf, no OverflowError).
   2. The vocabulary of "distance between a decimal value and a double" on integers (no reals):
      everything is measured in units of 2^-1076 / b, where a / b is the value (b > 0).
   3. Mixed comparisons `Prefixed op x`, x an int / float / Decimal / Prefixed: prefix.py converts x with
      `to_prefixed` (int, float: Decimal(str(x)); Decimal: as is) and runs the Prefixed comparison;
      `x op Prefixed` reaches the reflected operator of Prefixed (int, float and Decimal return NotImplemented).
      hash(int) / hash(Decimal) are functions of the value (CPython's numeric-hash contract), modelled, as
      Model/Prefixed.v does for hash(Prefixed), by the normal form of the value. *)
Require Import Hdl21.Base.PyInt Hdl21.Base.Dec Hdl21.Model.Prefixed Hdl21Gen.PrefixTable.
Require Import Hdl21.Spec.SimSpec Hdl21.Model.C17Float.
Open Scope Z_scope.

(* ------------------------------------------------------------------ 1. float() *)
Definition pfloat_c (p : pfx) : result dbl := pfloat round_dec p.

(* ------------------------------------------------------------------ 2. distances on integers *)
(* the signed numerator of a double in units of 2^-1076 (every canonical double is an integer number of them) *)
Definition dbl_units (neg : bool) (M E : Z) : Z := (if neg then - M else M) * 2 ^ (E + 1076).
(* the value m * 10^e as a fraction a / b, b > 0 *)
Definition val_num (m e : Z) : Z := fst (scale10 m e).
Definition val_den (m e : Z) : Z := snd (scale10 m e).
(* | m*10^e  -  (+-M) * 2^E |  *  b * 2^1076   (an integer) *)
Definition dist_units (m e : Z) (neg : bool) (M E : Z) : Z :=
  Z.abs (val_num m e * 2 ^ 1076 - dbl_units neg M E * val_den m e).
(* half a unit in the last place of M * 2^E, in the same units: 2^(E-1) * b * 2^1076 *)
Definition half_ulp_units (m e E : Z) : Z := 2 ^ (E + 1075) * val_den m e.
(* the overflow threshold 2^1024 - 2^970 (the midpoint between the largest double and 2^1024), same units *)
Definition overflow_units (m e : Z) : Z := (2 ^ 54 - 1) * 2 ^ (970 + 1076) * val_den m e.

(* ------------------------------------------------------------------ 3. mixed operands *)
Inductive operand :=
  | OpPre (p : pfx)          (* a Prefixed *)
  | OpDec (d : dec)          (* a decimal.Decimal (finite) *)
  | OpInt (n : Z)            (* an int: Decimal(str(n)) = n with exponent 0 *)
  | OpFloat (d : dec).       (* a float x, given by the Decimal d = Decimal(str(x)) that prefix.py converts it to *)

(* to_prefixed *)
Definition to_pfx (x : operand) : result pfx :=
  match x with
  | OpPre p => Ok p
  | OpDec d => to_prefixed d
  | OpInt n => to_prefixed (of_int n 0)
  | OpFloat d => to_prefixed d
  end.

(* Prefixed.__lt__ ... (other): _rounded_to_smaller(self, other) converts `other`, then as for two Prefixed *)
Definition pcmp_mixed (o : cmpop) (a : pfx) (x : operand) : result bool := b <- to_pfx x ;; Ok (pcmp o a b).
(* x op a with x not a Prefixed: the reflected operator of Prefixed *)
Definition mirror (o : cmpop) : cmpop :=
  match o with OLt => OGt | OLe => OGe | OEq => OEq | ONe => ONe | OGt => OLt | OGe => OLe end.
Definition pcmp_reflected (o : cmpop) (x : operand) (a : pfx) : result bool := pcmp_mixed (mirror o) a x.

(* hash of an operand: of the value *)
Definition ohash (x : operand) : result (option (Z * Z)) :=
  match x with
  | OpPre p => phash p
  | OpDec d => Ok (dnorm d)
  | OpInt n => Ok (dnorm (of_int n 0))
  | OpFloat d => Ok (dnorm d)      (* hash(float) is the hash of the float's EXACT value, which is Decimal(str(x))'s only when
                                      the float is that decimal exactly (0.5, 3.0, ...); see Props/C14X.v C14X_hash_mixed *)
  end.

(* exponent and integer value of an operand *)
Definition oexp (x : operand) : Z :=
  match x with OpPre p => pexp p | OpDec d => dexp d | OpInt _ => 0 | OpFloat d => dexp d end.
Definition ovat (e : Z) (x : operand) : Z :=
  match x with OpPre p => vat e p | OpDec d => at_ e d | OpInt n => at_ e (of_int n 0) | OpFloat d => at_ e d end.

(* ------------------------------------------------------------------ 4. closeness of a prefix to log10 |value|, without logarithms.
   For a value x <> 0 and prefixes q, v:   |v - log10|x||  <  |q - log10|x||
     <=>  (q < v  and  x^2 > 10^(q+v))  or  (v < q  and  x^2 < 10^(q+v))
   (the midpoint of q and v in the logarithmic scale is 10^((q+v)/2)).  x^2 = c2 * 10^(2k), c2 = coefficient^2. *)
Definition strictly_closer (c2 k q v : Z) : bool :=
  ((q <? v) && match sq_cmp c2 k (q + v) with Gt => true | _ => false end) ||
  ((v <? q) && match sq_cmp c2 k (q + v) with Lt => true | _ => false end).
