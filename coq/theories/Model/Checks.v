(* Model/Checks.v — hdl21/elab/passes/conntypes.py:ConnTypes.check_instance on flattened instances
   (signal-valued ports, connections given by their widths), and which entries of the default pass
   list (elab.py:Elaborator.default, regenerated as Hdl21Gen.DefaultPasses) actually visit modules. *)
Require Import Hdl21.Base.PyInt Hdl21.Base.Design.
(* The regenerated list itself (Hdl21Gen.DefaultPasses) is imported only by Props/C02.v, so that the evaluators of
   Corr/C02.v do not depend on a table of the tree under test. *)

(* conns.pop(portname) *)
Fixpoint pop {A} (k : name) (l : list (name * A)) : option A * list (name * A) :=
  match l with
  | [] => (None, [])
  | (k', v) :: l' => if String.eqb k k' then (Some v, l')
                     else let '(r, rest) := pop k l' in (r, (k', v) :: rest)
  end.

(* for portname, port in io.items(): conn = conns.pop(portname, None) -> Unconnected | width check;
   afterwards everything lft in conns is a connection to a non-existent port *)
Fixpoint check_ports (ports : list (name * Z)) (conns : list (name * Z)) : bool * list (name * Z) :=
  match ports with
  | [] => (true, conns)
  | (p, w) :: ports' =>
      let '(c, rest) := pop p conns in
      let '(ok, lft) := check_ports ports' rest in
      (match c with Some cw => (cw =? w) && ok | None => false end, lft)
  end.

Definition check_instance (ports conns : list (name * Z)) : bool :=
  let '(ok, lft) := check_ports ports conns in
  ok && match lft with [] => true | _ => false end.

(* ---- the pass list: an entry visits a module unless an EARLIER entry shares its class-level cache ---- *)
Definition entry := (String.string * String.string * Z)%type.     (* name, built-in kind, cache index *)
Definition kind_of (e : entry) : String.string := snd (fst e).
Definition cache_of (e : entry) : Z := snd e.

Fixpoint effective_from (seen : list Z) (l : list entry) : list (entry * bool) :=
  match l with
  | [] => []
  | e :: l' => (e, negb (existsb (Z.eqb (cache_of e)) seen)) :: effective_from (cache_of e :: seen) l'
  end.
Definition effective (l : list entry) : list (entry * bool) := effective_from [] l.

(* position of the last entry of a kind, and of the last EFFECTIVE entry of a kind (-1: none) *)
Fixpoint last_pos (f : entry * bool -> bool) (l : list (entry * bool)) (k : Z) : Z :=
  match l with
  | [] => -1
  | x :: l' => let r := last_pos f l' (k + 1) in if 0 <=? r then r else if f x then k else -1
  end.

Definition last_of_kind (k : String.string) (l : list entry) : Z :=
  last_pos (fun x => String.eqb (kind_of (fst x)) k) (effective l) 0.
Definition last_effective_of_kind (k : String.string) (l : list entry) : Z :=
  last_pos (fun x => String.eqb (kind_of (fst x)) k && snd x) (effective l) 0.

(* a checking pass of kind k really runs after the last rewriting pass *)
Definition checks_after_rewrites (l : list entry) (k : String.string) : bool :=
  let rewrites := ["InstBundleElabPass"; "ResolvePortRefs"; "BundleFlattener"; "ArrayFlattener"; "SliceResolver"]%list in
  forallb (fun rk => last_of_kind rk l <? last_effective_of_kind k l) rewrites.
