(* Model/C04EBridge.v — from the connection books of Model/C04ConnOps.v to the written design of Base/Design.v.

   Model/C04ConnOps.v knows instances, ports and connectables only as integers: its theorems (Props/C04.v) say what
   `conns` and the back-reference sets hold after ANY history.  The pipeline model (Model/C01EElab.v, Model/C01FElab.v)
   starts from a Base/Design.v design whose connections are given.  This file is the dictionary between the two.

   A `universe` says what the integers stand for in one parent module:
     u_lib     the modules below the parent (children; the parent becomes the last module of the design, and its top),
     u_name / u_ports / u_sigs   the parent's name, ports and signals,
     u_insts   the instances (Instance / InstanceArray) that belong to the parent: identity, name, array size (0 = single),
               target, and the `slots` of its ports.  A slot is one LANE of one port: a scalar / bus port has the one lane 0
               (its name is the port's name); a bundle-valued port has one lane per member, named as BundleFlattener names
               the flattened port (lane k of `bp` = `bp_x`, ...).  The member-wise lowering of bundle-valued ports is
               NOT proved here: it is the modelling assumption of Props/C01F.v:C01F_bundles_end_to_end_partial (and what
               harness/vp/c04.py:design_of always did in Python); a universe whose ports all have the single lane 0
               does not use it,
     u_leaves  the leaf table of the parent: one entry per signal used by an object, one `LRef i p` per lane of every
               single instance (what `inst.p` refers to), one `LNc site` per (no-connect object, lane),
     u_objs    what every connectable with an identity (C04ConnOps `CObj kind id`: Signal, Slice, Concat; BundleInstance and
               AnonymousBundle through their member-wise lowering) is, as one connection expression per lane.

   design_of u m  is the design the elaborator is handed when the ports of the universe are connected as the mapping m
   says.  Kinds: CRef (port reference) -> the reference leaf of the same lane of the target port; CObj KNoConn -> the
   no-connect leaf `nc_site id lane`; CObj KSig / KSlice / KConcat / KBundle / KAnon -> the expression table.  Anything the
   tables do not spell (an unknown object, a reference to an instance outside the module or to a lane that does not
   exist) becomes the ORPHAN leaf, which is in no leaf table: Spec/WfDesign.v rejects the design (EOrphan), so no theorem
   with the hypothesis `wf_design (design_of ..) = Ok tt` speaks about such a mapping.
   Outside: InstanceBundle instances, ports that are not in the slot table (`zz` of the C04 world), instances that are not part of
   the parent (the template of `n * Instance`): design_of does not look at them (closed_ok below says there are none). *)
From Coq Require Import String.
Require Import Hdl21.Base.PyInt Hdl21.Spec.PySlice Hdl21.Model.Slice Hdl21.Model.Resolve Hdl21.Base.Design
               Hdl21.Model.C04ConnOps Hdl21.Spec.C04LastWrite.
Open Scope Z_scope.

Record uslot := { us_port : Z; us_lane : nat; us_name : name; us_w : Z }.
Record uinst := { ui_id : Z; ui_name : name; ui_n : Z; ui_of : target; ui_slots : list uslot }.
Record universe := { u_lib : list module; u_name : name; u_ports : list (name * Z); u_sigs : list (name * Z);
                     u_insts : list uinst; u_leaves : list (N * leaf); u_objs : list (conn * list sx) }.

Definition leaf_eqb (a b : leaf) : bool :=
  match a, b with
  | LSig s, LSig t => String.eqb s t
  | LRef i p, LRef j q => String.eqb i j && String.eqb p q
  | LNc s, LNc t => N.eqb s t
  | _, _ => false
  end.

Definition find_leaf (u : universe) (l : leaf) : option N :=
  match find (fun e => leaf_eqb (snd e) l) (u_leaves u) with Some e => Some (fst e) | None => None end.
Definition find_ui (u : universe) (i : Z) : option uinst := find (fun x => ui_id x =? i) (u_insts u).
Definition find_slot (x : uinst) (p : Z) (k : nat) : option uslot :=
  find (fun s => (us_port s =? p) && Nat.eqb (us_lane s) k) (ui_slots x).
Fixpoint find_obj (c : conn) (l : list (conn * list sx)) : option (list sx) :=
  match l with [] => None | (c', es) :: t => if conn_eqb c c' then Some es else find_obj c t end.

(* a leaf identifier that is in no table *)
Definition next_id (u : universe) : N := fold_right (fun l acc => N.max (N.succ (fst l)) acc) 0%N (u_leaves u).
Definition orphan (u : universe) : sx := XSig (next_id u) 1.

(* one site per (no-connect object, lane); the harness names the sites of named no-connects by the same formula *)
Definition nc_site (id : Z) (k : nat) : N := (Z.to_N id * 16 + N.of_nat k)%N.

Section DesignOf.
Variable u : universe.
Variable m : pid -> option conn.

Definition ref_sx (j p : Z) (k : nat) : sx :=
  match find_ui u j with
  | Some y => match find_slot y p k with
              | Some t => match find_leaf u (LRef (ui_name y) (us_name t)) with
                          | Some id => XSig id (us_w t)
                          | None => orphan u
                          end
              | None => orphan u
              end
  | None => orphan u
  end.

Definition nc_sx (id : Z) (s : uslot) : sx :=
  match find_leaf u (LNc (nc_site id (us_lane s))) with Some l => XSig l (us_w s) | None => orphan u end.

Definition obj_sx (c : conn) (k : nat) : sx :=
  match find_obj c (u_objs u) with Some es => nth k es (orphan u) | None => orphan u end.

Definition conn_sx (c : conn) (s : uslot) : sx :=
  match c with
  | CRef j p => ref_sx j p (us_lane s)
  | CObj KNoConn id => nc_sx id s
  | CObj _ _ => obj_sx c (us_lane s)
  end.

Definition slot_conn (x : uinst) (s : uslot) : list (name * sx) :=
  match m (ui_id x, us_port s) with Some c => [(us_name s, conn_sx c s)] | None => [] end.

Definition inst_of (x : uinst) : inst :=
  {| i_name := ui_name x; i_n := ui_n x; i_of := ui_of x; i_conns := flat_map (slot_conn x) (ui_slots x) |}.

Definition top_of : module :=
  {| m_name := u_name u; m_ports := u_ports u; m_sigs := u_sigs u; m_insts := map inst_of (u_insts u);
     m_leaves := u_leaves u |}.

Definition design_of : design := {| d_mods := u_lib u ++ [top_of]; d_top := Datatypes.length (u_lib u) |}.
End DesignOf.

(* the ports of the universe *)
Definition upids (u : universe) : list pid :=
  flat_map (fun x => map (fun s => (ui_id x, us_port s)) (ui_slots x)) (u_insts u).

(* the design the elaborator is handed in a state of the books: it reads `conns` *)
Definition state_design (u : universe) (s : state) : design := design_of u (fun q => lookup q (st_conns s)).

(* the name the design has for lane k of port q *)
Definition key_of (u : universe) (q : pid) (k : nat) : option (name * name) :=
  match find_ui u (fst q) with
  | Some x => match find_slot x (snd q) k with Some s => Some (ui_name x, us_name s) | None => None end
  | None => None
  end.

(* ---- boolean side conditions ---- *)
Fixpoint nodupb {A} (eqb : A -> A -> bool) (l : list A) : bool :=
  match l with [] => true | x :: t => negb (existsb (eqb x) t) && nodupb eqb t end.

(* the tables are tables: identities, names and leaf identifiers are unique; an object's expression is never a bare
   reference / no-connect leaf (those are CRef / CObj KNoConn) *)
Definition plain_sx (u : universe) (e : sx) : bool :=
  match e with
  | XSig id _ => match assocN id (u_leaves u) with Some (LSig _) => true | _ => false end
  | _ => true
  end.
Definition u_ok (u : universe) : bool :=
  nodupb Z.eqb (map ui_id (u_insts u)) && nodupb String.eqb (map ui_name (u_insts u)) &&
  forallb (fun x => nodupb String.eqb (map us_name (ui_slots x))) (u_insts u) &&
  nodupb N.eqb (map fst (u_leaves u)) &&
  forallb (fun o => forallb (plain_sx u) (snd o)) (u_objs u).

(* the mapping is spelled by the tables: every reference goes to the same lane of a port of a SINGLE instance of the
   module, every no-connect has its leaf, every other object has an expression for the lane *)
Definition is_plain_obj (c : conn) : bool :=
  match c with CObj KNoConn _ => false | CObj _ _ => true | CRef _ _ => false end.
Definition conn_ok (u : universe) (c : conn) (s : uslot) : bool :=
  match c with
  | CRef j p =>
      match find_ui u j with
      | Some y => (ui_n y <=? 0) &&
                  match find_slot y p (us_lane s) with
                  | Some t => match find_leaf u (LRef (ui_name y) (us_name t)) with Some _ => true | None => false end
                  | None => false
                  end
      | None => false
      end
  | CObj KNoConn id => match find_leaf u (LNc (nc_site id (us_lane s))) with Some _ => true | None => false end
  | CObj _ _ => match find_obj c (u_objs u) with Some es => (us_lane s <? Datatypes.length es)%nat | None => false end
  end.
Definition shape_ok (u : universe) (m : pid -> option conn) : bool :=
  forallb (fun x => forallb (fun s => match m (ui_id x, us_port s) with Some c => conn_ok u c s | None => true end)
                            (ui_slots x)) (u_insts u).

(* every connected port is a port of the universe (no connection on a name that is no port, none on an instance that
   is not part of the module) *)
Definition closed_ok (u : universe) (s : state) : bool :=
  forallb (fun e => mem (fst e) (upids u)) (st_conns s).
