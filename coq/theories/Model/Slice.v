(* Model/Slice.v — hdl21/slice.py:_slice_inner and hdl21/elab/passes/slices.py:_slice_indices,
   branch by branch.  `slice.indices` / `len(range())` of CPython are the functions
   py_start_stop / py_len of Spec/PySlice.v (validated against CPython on every run). *)
Require Import Hdl21.Base.PyInt Hdl21.Spec.PySlice.

Record inner := { top : Z; bot : Z; step : Z; width : Z }.   (* top exclusive, bot inclusive *)

Definition inner_eqb (a b : inner) : bool :=
  (top a =? top b) && (bot a =? bot b) && (step a =? step b) && (width a =? width b).

Definition slice_inner (w : Z) (ix : index) : result inner :=
  match ix with
  | Idx i =>
      if (w <=? i) || (i <? - w) then Error EOutOfBounds else
      let i' := if i <? 0 then i + w else i in
      Ok {| top := i' + 1; bot := i'; step := 1; width := 1 |}
  | Sl a b os =>
      let st := step_of os in
      if st =? 0 then Error EZeroStep else
      let '(lo, hi) := py_start_stop w a b st in
      let n := py_len lo hi st in
      if n <? 1 then Error EEmptySlice else
      let last := lo + (n - 1) * st in
      if 0 <? st then Ok {| top := last + 1; bot := lo; step := st; width := n |}
      else Ok {| top := lo + 1; bot := last; step := st; width := n |}
  end.

(* len(range(lo, hi, st)) and list(range(lo, hi, st)) as used by _slice_indices *)
Definition py_range (lo hi st : Z) : list Z := iota (Z.to_nat (py_len lo hi st)) lo st.

(* elab/passes/slices.py:_slice_indices *)
Definition inner_bits (r : inner) : list Z :=
  if 0 <? step r then py_range (bot r) (top r) (step r)
  else py_range (top r - 1) (bot r - 1) (step r).
