(* Model/C01FElab.v — ResolvePortRefs with references NESTED in slices and concatenations (extends Model/C01EElab.v).

   hdl21/elab/passes/portrefs.py resolves every group of port references to ONE source (the group's declared connection or
   an implicit signal) and connects every port of the group to it (resolve_portref: pref.inst.connect(portname, source));
   hdl21/elab/helpers/resolve_ref_types.py:update_ref_deps then RE-PARENTS what depended on the reference: every
   Slice whose parent was the reference gets the source for its parent, every Concat that had the reference for a part
   gets the source instead.  The source of one group may itself contain references (to other groups); after all groups are
   done an expression that mentioned references mentions their sources, transitively.

   Model, in two steps over the abstract design language of Base/Design.v:
     1. portrefs1_module  = the C01E pass with module_portrefs extended to ALL references handed out (inst._refs.portrefs:
                            also those taken inside slices / concatenations, in the order they were taken); whole-connection
                            references and no-connects are rewritten exactly as in C01E, reference leaves INSIDE expressions stay;
     2. reparent_module   = every reference leaf that is left is replaced by the (re-parented) connection its port has after
                            step 1 - which is the source of its group: resolve_portref connected the port to it.
   The object graph of the implementation is cyclic exactly when this substitution does not end; `reparent` then runs out of
   fuel (Error EFuel).  The fuel - one more than the number of ports of single instances - is enough whenever the dependency
   between groups is acyclic (Spec/C01FNets.v:frag_ok2, Proofs/C01FProofsRefs.v:reparent_total).  *)
From Coq Require Import String Ascii.
Require Import Hdl21.Base.PyInt Hdl21.Spec.PySlice Hdl21.Model.Slice Hdl21.Model.Resolve Hdl21.Base.Design
               Hdl21.Spec.Nets Hdl21.Spec.WfDesign Hdl21.Base.Package Hdl21.Base.PrimTable Hdl21.Model.Arrays Hdl21.Model.Export
               Hdl21.Proofs.FunGraph Hdl21.Model.C01EElab.
Open Scope string_scope.
Open Scope list_scope.
Open Scope Z_scope.

(* ------------------------------------------------------------------------------------------------ step 1 *)
Section PortRefs2.
Variable d : design.
Variable ncn : list (N * name).
Variable m : module.

(* the references an expression mentions, in the order the builder takes them (depth first, parts left to right) *)
Definition leaf_ref (lw : N * Z) : list key :=
  match assocN (fst lw) (m_leaves m) with Some (LRef i p) => [(i, p)] | _ => [] end.
Definition refs_in (cx : sx) : list key := flat_map leaf_ref (sx_leaves cx).

(* inst._refs.portrefs of all instances: every reference ever handed out, whole connection or nested *)
Definition mentioned2 : list key :=
  kdedupe (flat_map (fun x => flat_map (fun c => refs_in (snd c)) (i_conns x)) (m_insts m)) [].

Definition inst_seeds2 (x : inst) : list seed :=
  map SRef (filter (fun q => String.eqb (fst q) (i_name x)) mentioned2) ++
  flat_map (fun c => match as_nc m (snd c) with Some s => [SNc x (fst c) s] | None => [] end) (i_conns x).

Definition seeds2 : list seed :=
  flat_map inst_seeds2 (filter single (m_insts m) ++ filter (fun x => negb (single x)) (m_insts m)).

Definition pr_table2 : result (list key * list (N * alloc * name)) :=
  keys <- all_keys d m ;;
  allocs <- plan d ncn m keys seeds2 [] ;;
  names <- alloc_names (map a_base allocs) (namespace m) ;;
  Ok (keys, number_allocs (combine allocs names) (next_leaf m)).

Definition module1 (table : list (N * alloc * name)) (insts : list inst) : module :=
  {| m_name := m_name m; m_ports := m_ports m;
     m_sigs := m_sigs m ++ map (fun e : N * alloc * name => (snd e, a_width (snd (fst e)))) table;
     m_insts := insts;
     m_leaves := m_leaves m ++ map (fun e : N * alloc * name => (fst (fst e), LSig (snd e))) table |}.

Definition portrefs1_module : result (list key * module) :=
  kt <- pr_table2 ;;
  insts <- traverse (rewrite_inst m (fst kt) (snd kt)) (m_insts m) ;;
  Ok (fst kt, module1 (snd kt) insts).
End PortRefs2.

(* ------------------------------------------------------------------------------------------------ step 2 *)
(* replace the leaves of an expression *)
Fixpoint sx_subst (f : N -> Z -> result sx) (e : sx) : result sx :=
  match e with
  | XSig id w => f id w
  | XSlice p ix => p' <- sx_subst f p ;; Ok (XSlice p' ix)
  | XConcat ps =>
      ps' <- (fix go (l : list sx) : result (list sx) :=
                match l with
                | [] => Ok []
                | p :: r => p' <- sx_subst f p ;; r' <- go r ;; Ok (p' :: r')
                end) ps ;;
      Ok (XConcat ps')
  end.

Definition ref_leaf (m : module) (id : N) : option key :=
  match assocN id (m_leaves m) with Some (LRef i p) => Some (i, p) | _ => None end.

(* update_ref_deps, transitively: slice_.parent = resolved / concat.parts = [resolved if p is ref else p] *)
Fixpoint reparent (m : module) (fuel : nat) (e : sx) {struct fuel} : result sx :=
  sx_subst (fun id w =>
              match ref_leaf m id with
              | None => Ok (XSig id w)
              | Some q =>
                  match fuel with
                  | O => Error EFuel                                      (* a loop of sources: RecursionError *)
                  | S f => cx <- ofopt EUnresolved (pconn m q) ;; reparent m f cx
                  end
              end) e.

Definition reparent_inst (m : module) (fuel : nat) (x : inst) : result inst :=
  cs <- traverse (fun c : name * sx => e <- reparent m fuel (snd c) ;; Ok (fst c, e)) (i_conns x) ;;
  Ok {| i_name := i_name x; i_n := i_n x; i_of := i_of x; i_conns := cs |}.

Definition reparent_module (fuel : nat) (m : module) : result module :=
  insts <- traverse (reparent_inst m fuel) (m_insts m) ;;
  Ok {| m_name := m_name m; m_ports := m_ports m; m_sigs := m_sigs m; m_insts := insts; m_leaves := m_leaves m |}.

Definition ref_fuel (keys : list key) : nat := S (Datatypes.length keys).

Definition portrefs2_module (d : design) (ncn : list (N * name)) (m : module) : result module :=
  km <- portrefs1_module d ncn m ;;
  reparent_module (ref_fuel (fst km)) (snd km).

Definition portrefs2_design (xi : xinfo) (d : design) : result design :=
  map_modules (fun m => portrefs2_module d (ncnames xi m) m) d.

(* ------------------------------------------------------------------------------------------------ the pipeline *)
Definition elab_model2 (xi : xinfo) (d : design) : result design :=
  d1 <- portrefs2_design xi d ;; d2 <- arrays_design d1 ;; slices_design d2.

Definition elab_export_model2 (xi : xinfo) (d : design) : result package :=
  d' <- elab_model2 xi d ;; export_model xi d'.
