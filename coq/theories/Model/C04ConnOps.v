(* Model/C04ConnOps.v — the connection operations of hdl21/instance.py, branch by branch.

   Identities.  An instance-like object (Instance, InstanceArray, InstanceBundle share `_Instance`)
   is an integer, a port name is an integer (the harness numbers the names injectively), and a port
   is the pair `(instance, port)`.  Connectables with an identity of their own (Signal, Slice, Concat,
   NoConn, BundleInstance, AnonymousBundle: `__eq__` is `is`) are `CObj kind id`.  The PortRef of a
   port is `CRef i p`: instance.py:Refs keeps ONE PortRef object per (instance, port name) in `all`,
   shared by `_get_portref` and `_get_connref`, and portref.py compares/hashes PortRefs by
   (instance identity, port name) — so the pair IS the identity.

   State.  `st_conns`  = the `conns` dicts of all instances (one association list; the order of the
                         entries of one instance is the order of its dict: a new key goes last, an
                         assignment to an existing key keeps its place, `pop` removes it),
           `st_back`   = `_connected_ports` of every connectable (sets of PortRefs = sets of ports),
           `st_handed` = the keys of `_refs.portrefs` of all instances (references handed out by
                         `__getattr__`; the elaborator's ResolvePortRefs pass starts from these).

   Errors are explicit: ETypeErr = TypeError (not connectable), EKey = KeyError (port not connected),
   EInternal = KeyError from `set.remove` on a back-reference set that lacks the port — shown
   unreachable (Proofs/C04Proofs.v: step_no_internal).
   The model is of the REPAIRED code (fixes/C04-1): `replace` validates and converts its argument
   before it changes anything, exactly as `connect` does. *)
Require Import Hdl21.Base.PyInt.

Inductive kind := KSig | KSlice | KConcat | KNoConn | KBundle | KAnon.
Definition pid := (Z * Z)%type.
Inductive conn := CObj (k : kind) (id : Z) | CRef (i p : Z).

(* what a caller may pass: a connectable, a dict of connectables (connect() wraps it into a NEW
   AnonymousBundle, whose identity `id` is supplied with the operation), anything else *)
Inductive arg := AConn (c : conn) | ADict (id : Z) | ABad.

Inductive op :=
| Call (i : Z) (kvs : list (Z * arg))          (* inst(p1=c1, p2=c2, ...) *)
| SetAttr (i p : Z) (a : arg)                  (* inst.p = c   (p an ordinary port name) *)
| Connect (i p : Z) (a : arg)                  (* inst.connect(p, c) *)
| Replace (i p : Z) (a : arg)                  (* inst.replace(p, c) *)
| Disconnect (i p : Z)                         (* inst.disconnect(p) *)
| GetRef (i p : Z).                            (* inst.p  — hands out the PortRef *)

Inductive cerr := ETypeErr | EKey | EInternal.
Inductive cres (A : Type) := COk (a : A) | CErr (e : cerr).
Arguments COk {A} a.
Arguments CErr {A} e.

Definition kind_eqb (a b : kind) : bool :=
  match a, b with
  | KSig, KSig | KSlice, KSlice | KConcat, KConcat | KNoConn, KNoConn | KBundle, KBundle | KAnon, KAnon => true
  | _, _ => false
  end.
Definition pid_eqb (a b : pid) : bool := (fst a =? fst b) && (snd a =? snd b).
Definition conn_eqb (a b : conn) : bool :=
  match a, b with
  | CObj k x, CObj l y => kind_eqb k l && (x =? y)
  | CRef i p, CRef j q => (i =? j) && (p =? q)
  | _, _ => false
  end.

Record state := { st_conns : list (pid * conn); st_back : list (conn * list pid); st_handed : list pid }.
Definition init : state := {| st_conns := []; st_back := []; st_handed := [] |}.

(* ---- dict and set primitives ---- *)
Fixpoint lookup (q : pid) (l : list (pid * conn)) : option conn :=
  match l with [] => None | (q', c) :: t => if pid_eqb q q' then Some c else lookup q t end.

(* d[q] = c : keeps the position of an existing key, appends a new one *)
Fixpoint dict_set (q : pid) (c : conn) (l : list (pid * conn)) : list (pid * conn) :=
  match l with
  | [] => [(q, c)]
  | (q', c') :: t => if pid_eqb q q' then (q, c) :: t else (q', c') :: dict_set q c t
  end.

(* d.pop(q): keys are unique, so removing the key removes every entry carrying it *)
Definition dict_pop (q : pid) (l : list (pid * conn)) : list (pid * conn) :=
  filter (fun e => negb (pid_eqb q (fst e))) l.

Definition mem (q : pid) (l : list pid) : bool := existsb (pid_eqb q) l.
Definition set_add (q : pid) (l : list pid) : list pid := if mem q l then l else l ++ [q].
Definition set_remove (q : pid) (l : list pid) : list pid := filter (fun x => negb (pid_eqb q x)) l.

Fixpoint back_of (c : conn) (b : list (conn * list pid)) : list pid :=
  match b with [] => [] | (c', s) :: t => if conn_eqb c c' then s else back_of c t end.

Fixpoint back_put (c : conn) (s : list pid) (b : list (conn * list pid)) : list (conn * list pid) :=
  match b with
  | [] => [(c, s)]
  | (c', s') :: t => if conn_eqb c c' then (c, s) :: t else (c', s') :: back_put c s t
  end.

(* conn._connected_ports.add(ref) *)
Definition back_add (c : conn) (q : pid) (b : list (conn * list pid)) := back_put c (set_add q (back_of c b)) b.
(* conn._connected_ports.remove(ref): KeyError when absent *)
Definition back_remove (c : conn) (q : pid) (b : list (conn * list pid)) : cres (list (conn * list pid)) :=
  if mem q (back_of c b) then COk (back_put c (set_remove q (back_of c b)) b) else CErr EInternal.

(* `isinstance(conn, Dict)` -> AnonymousBundle of the dict; `is_connectable` *)
Definition norm (a : arg) : option conn :=
  match a with AConn c => Some c | ADict id => Some (CObj KAnon id) | ABad => None end.

(* ---- the three methods ---- *)
(* _Instance.replace, after validation *)
Definition do_replace (s : state) (q : pid) (c : conn) : cres state :=
  match lookup q (st_conns s) with
  | None => CErr EKey                                            (* old = self.conns[portname] *)
  | Some old =>
      match back_remove old q (st_back s) with                   (* old._connected_ports.remove(connref) *)
      | CErr e => CErr e
      | COk b => COk {| st_conns := dict_set q c (st_conns s);   (* self.conns[portname] = conn *)
                        st_back := back_add c q b;               (* conn._connected_ports.add(connref) *)
                        st_handed := st_handed s |}
      end
  end.

Definition replace (s : state) (q : pid) (a : arg) : cres state :=
  match norm a with None => CErr ETypeErr | Some c => do_replace s q c end.

(* _Instance.connect *)
Definition connect (s : state) (q : pid) (a : arg) : cres state :=
  match norm a with
  | None => CErr ETypeErr
  | Some c =>
      match lookup q (st_conns s) with
      | Some _ => do_replace s q c                               (* if portname in self.conns: self.replace(..) *)
      | None => COk {| st_conns := dict_set q c (st_conns s);
                       st_back := back_add c q (st_back s);
                       st_handed := st_handed s |}
      end
  end.

(* _Instance.disconnect *)
Definition disconnect (s : state) (q : pid) : cres state :=
  match lookup q (st_conns s) with
  | None => CErr EKey                                            (* self.conns.pop(portname) *)
  | Some c =>
      match back_remove c q (st_back s) with
      | CErr e => CErr e
      | COk b => COk {| st_conns := dict_pop q (st_conns s); st_back := b; st_handed := st_handed s |}
      end
  end.

(* __call__: connects in keyword order; an exception leaves the earlier connections in place *)
Fixpoint call (s : state) (i : Z) (kvs : list (Z * arg)) : state * bool :=
  match kvs with
  | [] => (s, true)
  | (p, a) :: t => match connect s (i, p) a with COk s' => call s' i t | CErr _ => (s, false) end
  end.

Definition lift (s : state) (r : cres state) : state * bool :=
  match r with COk s' => (s', true) | CErr _ => (s, false) end.

(* one operation: the state afterwards and whether it returned normally *)
Definition step (s : state) (o : op) : state * bool :=
  match o with
  | Call i kvs => call s i kvs
  | SetAttr i p a => lift s (connect s (i, p) a)
  | Connect i p a => lift s (connect s (i, p) a)
  | Replace i p a => lift s (replace s (i, p) a)
  | Disconnect i p => lift s (disconnect s (i, p))
  | GetRef i p => ({| st_conns := st_conns s; st_back := st_back s; st_handed := set_add (i, p) (st_handed s) |}, true)
  end.

Definition apply (s : state) (o : op) : state := fst (step s o).
Definition run_from (s : state) (ops : list op) : state := fold_left apply ops s.
Definition run (ops : list op) : state := run_from init ops.

(* the raw error of one operation (for the no-internal-error theorem) *)
Definition step_err (s : state) (o : op) : option cerr :=
  let e {A} (r : cres A) := match r with COk _ => None | CErr x => Some x end in
  match o with
  | Call i kvs =>
      (fix go (s : state) (kvs : list (Z * arg)) : option cerr :=
         match kvs with
         | [] => None
         | (p, a) :: t => match connect s (i, p) a with COk s' => go s' t | CErr x => Some x end
         end) s kvs
  | SetAttr i p a | Connect i p a => e (connect s (i, p) a)
  | Replace i p a => e (replace s (i, p) a)
  | Disconnect i p => e (disconnect s (i, p))
  | GetRef _ _ => None
  end.
