(* Model/C11History.v — C11, export HISTORIES over mutable ExternalModule objects.

   hdl21.ExternalModule is a mutable object (port_list is a list of mutable Signals; name, domain, spicetype, desc, paramtype
   are assignable) that compares and hashes by identity.  A process exports many packages; between two exports an object may
   have been given another port, a port may have been renamed, ...  The property speaks of EVERY package to_proto returns:
   each must survive the round trip, hence its external-module declarations must be those of the objects as they are when the
   package is produced (the instance connections are written from the live object).

   This file models the part of the exporter that decides the declarations
       hdl21/proto/exporting.py: ProtoExporter.export_external_module (per-exporter tables by id and by (domain, name),
                                 conflicting declarations refused), export_external_module (the free function), export_port
   over a HEAP of object states, parameterised by what the declaration function may REMEMBER between exports (`M`, `declf`):
       decl_fresh     the tree under test: nothing (to_proto makes a new ProtoExporter, the free function is a pure function
                      of the object's state) - Hdl21Gen.C11Maps.exporter_memo / exporter_state / to_proto_fresh say so
       decl_memo_id   a declaration cache keyed by the identity of the object (functools.lru_cache on the free function)
   and histories of mutations and exports run against it.  Object identity = position in the heap.
   An export that raises leaves the memory as it was before that export (exact for decl_fresh, whose memory is unit). *)
Require Import Hdl21.Base.PyInt Hdl21.Base.Design Hdl21.Base.Package Hdl21.Base.Dec Hdl21.Model.C11RoundTrip.
Require Import Hdl21Gen.C11Maps.
From Coq Require Import String.
Open Scope string_scope.
Open Scope Z_scope.

(* ------------------------------------------------------------------------------------------ object states *)
Record eport := { ep_name : name; ep_width : Z; ep_dir : string (* member of PortDir *) }.
Record eobj := { eo_domain : string (* None is "" *); eo_name : name; eo_ports : list eport;
                 eo_spicetype : string (* member of vlsirtools.SpiceType *) }.
Definition heap := list eobj.

(* export_external_module (free function) + export_port on the object as it is *)
Definition decl_of (o : eobj) : result c11ext :=
  st <- export_spicetype (eo_spicetype o) ;;
  ps <- traverse (fun p => d <- export_dir (ep_dir p) ;; Ok (ep_name p, d)) (eo_ports o) ;;
  Ok {| cx_domain := eo_domain o; cx_name := eo_name o; cx_sigs := map (fun p => (ep_name p, ep_width p)) (eo_ports o);
        cx_ports := ps; cx_spicetype := st |}.

(* ------------------------------------------------------------------------------------------ mutations *)
Inductive mutation :=
| MAppend (p : eport) | MInsert (j : nat) (p : eport) | MRemove (j : nat) | MRename (j : nat) (n : name)
| MWidth (j : nat) (w : Z) | MDir (j : nat) (d : string) | MReplace (j : nat) (p : eport) | MPorts (ps : list eport)
| MReverse | MName (n : name) | MDomain (d : string) | MSpice (s : string)
| MSilent (* desc, paramtype: not part of a declaration *).

Fixpoint upd_nth {A} (j : nat) (f : A -> A) (l : list A) : result (list A) :=
  match l, j with
  | [], _ => Error EOutOfBounds                           (* IndexError *)
  | x :: l', O => Ok (f x :: l')
  | x :: l', S j' => r <- upd_nth j' f l' ;; Ok (x :: r)
  end.

Fixpoint del_nth {A} (j : nat) (l : list A) : result (list A) :=
  match l, j with
  | [], _ => Error EOutOfBounds
  | _ :: l', O => Ok l'
  | x :: l', S j' => r <- del_nth j' l' ;; Ok (x :: r)
  end.

Fixpoint ins_nth {A} (j : nat) (a : A) (l : list A) : list A :=      (* list.insert: beyond the end = append *)
  match l, j with
  | [], _ => [a]
  | _, O => a :: l
  | x :: l', S j' => x :: ins_nth j' a l'
  end.

Definition with_ports (o : eobj) (ps : list eport) : eobj :=
  {| eo_domain := eo_domain o; eo_name := eo_name o; eo_ports := ps; eo_spicetype := eo_spicetype o |}.

Definition apply_mut (mu : mutation) (o : eobj) : result eobj :=
  match mu with
  | MAppend p => Ok (with_ports o (eo_ports o ++ [p])%list)
  | MInsert j p => Ok (with_ports o (ins_nth j p (eo_ports o)))
  | MRemove j => ps <- del_nth j (eo_ports o) ;; Ok (with_ports o ps)
  | MRename j n => ps <- upd_nth j (fun p => {| ep_name := n; ep_width := ep_width p; ep_dir := ep_dir p |}) (eo_ports o) ;; Ok (with_ports o ps)
  | MWidth j w => ps <- upd_nth j (fun p => {| ep_name := ep_name p; ep_width := w; ep_dir := ep_dir p |}) (eo_ports o) ;; Ok (with_ports o ps)
  | MDir j d => ps <- upd_nth j (fun p => {| ep_name := ep_name p; ep_width := ep_width p; ep_dir := d |}) (eo_ports o) ;; Ok (with_ports o ps)
  | MReplace j p => ps <- upd_nth j (fun _ => p) (eo_ports o) ;; Ok (with_ports o ps)
  | MPorts ps => Ok (with_ports o ps)
  | MReverse => Ok (with_ports o (rev (eo_ports o)))
  | MName n => Ok {| eo_domain := eo_domain o; eo_name := n; eo_ports := eo_ports o; eo_spicetype := eo_spicetype o |}
  | MDomain d => Ok {| eo_domain := d; eo_name := eo_name o; eo_ports := eo_ports o; eo_spicetype := eo_spicetype o |}
  | MSpice s => Ok {| eo_domain := eo_domain o; eo_name := eo_name o; eo_ports := eo_ports o; eo_spicetype := s |}
  | MSilent => Ok o
  end.

Definition mutate (hp : heap) (k : nat) (mu : mutation) : result heap :=
  o <- ofopt EMissing (nth_error hp k) ;; o' <- apply_mut mu o ;; upd_nth k (fun _ => o') hp.

(* ------------------------------------------------------------------------------------------ one export *)
Definition same_decl_name (a b : c11ext) : bool :=
  String.eqb (cx_domain a) (cx_domain b) && String.eqb (cx_name a) (cx_name b).

(* the declaration already made under the (domain, name) of d *)
Fixpoint find_decl (d : c11ext) (ds : list c11ext) : option c11ext :=
  match ds with
  | [] => None
  | x :: ds' => if same_decl_name x d then Some x else find_decl d ds'
  end.

Section Exporter.
  Variable M : Type.                                              (* what survives from one export to the next *)
  Variable declf : M -> nat -> eobj -> result (c11ext * M).       (* the declaration of object `id`, in state `o` *)

  (* the exporter's tables: ids already done (self.ext_modules), declarations in package order (self.pkg.ext_modules, which
     self.ext_modules_by_name indexes) *)
  Definition xstate := (list nat * list c11ext * M)%type.

  Definition export_ext (hp : heap) (st : xstate) (id : nat) : result xstate :=
    let '(ids, ds, m) := st in
    if existsb (Nat.eqb id) ids then Ok st else                   (* Already done *)
    o <- ofopt EMissing (nth_error hp id) ;;
    dm <- declf m id o ;;
    match find_decl (fst dm) ds with
    | None => Ok (id :: ids, (ds ++ [fst dm])%list, snd dm)
    | Some d' => if c11ext_eqb d' (fst dm) then Ok (id :: ids, ds, snd dm)     (* an identical declaration serves both *)
                 else Error EName                                               (* conflicting declaration *)
    end.

  Fixpoint export_exts (hp : heap) (st : xstate) (uses : list nat) : result xstate :=
    match uses with
    | [] => Ok st
    | id :: r => st' <- export_ext hp st id ;; export_exts hp st' r
    end.

  (* to_proto: a new exporter; `uses` = the ExternalModule objects of the ExternalModuleCall instances in walk order *)
  Definition export_one (hp : heap) (m : M) (uses : list nat) : result (list c11ext * M) :=
    st <- export_exts hp ([], [], m) uses ;; Ok (snd (fst st), snd st).

  (* ---------------------------------------------------------------------------------------- histories *)
  Inductive hop :=
  | HMut (k : nat) (mu : mutation)
  | HExport (uses : list nat)         (* to_proto: the package is returned *)
  | HSilent (uses : list nat)         (* an export nobody looks at (h.netlist, h.sim) *)
  | HDecl (k : nat).                  (* export_external_module(obj) called directly *)

  (* what each observing step returns (None: it raised).  A mutation that raises (IndexError) ends the history. *)
  Fixpoint run_hist (hp : heap) (m : M) (ops : list hop) : list (option (list c11ext)) :=
    match ops with
    | [] => []
    | HMut k mu :: r => match mutate hp k mu with Ok hp' => run_hist hp' m r | Error _ => [] end
    | HExport u :: r =>
        match export_one hp m u with
        | Ok dm => Some (fst dm) :: run_hist hp (snd dm) r
        | Error _ => None :: run_hist hp m r
        end
    | HSilent u :: r =>
        match export_one hp m u with
        | Ok dm => run_hist hp (snd dm) r
        | Error _ => run_hist hp m r
        end
    | HDecl k :: r =>
        match (o <- ofopt EMissing (nth_error hp k) ;; declf m k o) with
        | Ok dm => Some [fst dm] :: run_hist hp (snd dm) r
        | Error _ => None :: run_hist hp m r
        end
    end.

  (* the heap each observing step sees *)
  Fixpoint heaps_seen (hp : heap) (ops : list hop) : list (heap * hop) :=
    match ops with
    | [] => []
    | HMut k mu :: r => match mutate hp k mu with Ok hp' => heaps_seen hp' r | Error _ => [] end
    | HSilent _ :: r => heaps_seen hp r
    | op :: r => (hp, op) :: heaps_seen hp r
    end.
End Exporter.


(* ------------------------------------------------------------------------------------------ the two declaration functions *)
Definition decl_fresh (_ : unit) (_ : nat) (o : eobj) : result (c11ext * unit) := d <- decl_of o ;; Ok (d, tt).

Fixpoint nassoc {A} (k : nat) (l : list (nat * A)) : option A :=
  match l with
  | [] => None
  | (k', v) :: l' => if Nat.eqb k k' then Some v else nassoc k l'
  end.

(* functools.lru_cache(maxsize=None) on export_external_module: ExternalModules hash and compare by identity *)
Definition decl_memo_id (m : list (nat * c11ext)) (id : nat) (o : eobj) : result (c11ext * list (nat * c11ext)) :=
  match nassoc id m with
  | Some d => Ok (d, m)
  | None => d <- decl_of o ;; Ok (d, (id, d) :: m)
  end.

(* ------------------------------------------------------------------------------------------ the specification *)
(* "the external-module declarations of the package are those of the objects as they are at export time": every declaration
   is the current declaration of a used object, every used object's current declaration is there, each (domain, name) once *)
Definition decls_current (hp : heap) (uses : list nat) (ds : list c11ext) : Prop :=
  (forall d, In d ds -> exists id o, In id uses /\ nth_error hp id = Some o /\ decl_of o = Ok d) /\
  (forall id, In id uses -> exists o d, nth_error hp id = Some o /\ decl_of o = Ok d /\ In d ds) /\
  nodup_ext_names ds = true.

Definition decl_is (hp : heap) (id : nat) (d : c11ext) : bool :=
  match nth_error hp id with
  | Some o => match decl_of o with Ok d' => c11ext_eqb d' d | Error _ => false end
  | None => false
  end.

Definition decls_current_b (hp : heap) (uses : list nat) (ds : list c11ext) : bool :=
  forallb (fun d => existsb (fun id => decl_is hp id d) uses) ds &&
  forallb (fun id => existsb (fun d => decl_is hp id d) ds) uses &&
  nodup_ext_names ds.

(* what an observing step must return, by the specification alone: (heap seen, step, returned) *)
Definition step_current (hp : heap) (op : hop) (ret : option (list c11ext)) : bool :=
  match op, ret with
  | HExport u, Some ds => decls_current_b hp u ds
  | HDecl k, Some [d] => decl_is hp k d
  | _, None => true                 (* a refusal returns no package: nothing to say *)
  | _, _ => false
  end.

(* ------------------------------------------------------------------------------------------ a design over the heap *)
(* the module the history driver builds for one export: one instance per used object, each connecting EVERY current port of
   its object to a private signal of that width (harness/impl/c11.py:build_mods) *)
Fixpoint nat_str (fuel n : nat) (acc : string) : string :=
  match fuel with
  | O => acc
  | S f => let d := String (Ascii.ascii_of_nat (48 + Nat.modulo n 10)) acc in
           if Nat.ltb n 10 then d else nat_str f (Nat.div n 10) d
  end.
Definition sig_nm (k : nat) : name := "n" ++ nat_str 20 k "".

Fixpoint conns_for (k : nat) (ps : list eport) : list (name * Z) * list (name * ptarget) :=
  match ps with
  | [] => ([], [])
  | p :: r => let '(ss, cs) := conns_for (S k) r in ((sig_nm k, ep_width p) :: ss, (ep_name p, PSig (sig_nm k)) :: cs)
  end.

Fixpoint insts_for (hp : heap) (k : nat) (uses : list (name * nat)) : result (list (name * Z) * list c11inst) :=
  match uses with
  | [] => Ok ([], [])
  | (nm, id) :: r =>
      o <- ofopt EMissing (nth_error hp id) ;;
      let '(ss, cs) := conns_for k (eo_ports o) in
      rest <- insts_for hp (k + List.length (eo_ports o)) r ;;
      Ok ((ss ++ fst rest)%list,
          {| ci_name := nm; ci_ref := PExt (eo_domain o) (eo_name o); ci_params := []; ci_conns := cs |} :: snd rest)
  end.

Definition design_pkg (hp : heap) (mname : name) (uses : list (name * nat)) (ds : list c11ext) : result c11pkg :=
  si <- insts_for hp 0 uses ;;
  Ok {| ck_domain := ""; ck_exts := ds;
        ck_mods := [{| cm_name := mname; cm_sigs := fst si; cm_ports := []; cm_insts := snd si; cm_literals := [] |}] |}.
