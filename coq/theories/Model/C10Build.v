(* Model/C10Build.v — how a Bundle DEFINITION comes to have its members: hdl21/bundle.py, function by function.

   The flattener (flatten_bundles.py:flatten_bundle_inst_helper) reads the two type-based containers of a definition,
   `Bundle.signals` and `Bundle.bundles`.  Those are the result of a HISTORY of additions, and a name may be re-used:

     Bundle.add / Bundle.__setattr__ -> _add   -> add1     (sort by type; a name held by the OTHER container is removed there;
                                                            `ctr[name] = val` on an insertion-ordered dict: an existing key
                                                            keeps its place, a new key goes to the end)
     a value that is no Bundle attribute           -> TypeError before anything is changed (a no-op for the definition)
     @h.bundle (class body)                         -> class_dict, then add1 over its items
                                                            (the class body is a dict: a re-assigned name keeps the place of its
                                                             first assignment and the value of its last; values that are no
                                                             Bundle attributes are forgotten)

   `Bundle.signals` / `Bundle.bundles` are modelled as association lists in insertion order; dict operations are
   `dassign` (d[k] = v) and `ddel` (d.pop(k, None)).  `ddel` filters: on a dict (distinct keys) that is the same as removing
   the one entry, and it makes the lemmas unconditional. *)
From Coq Require Import String Ascii.
Require Import Hdl21.Base.PyInt Hdl21.Spec.BundleSpec.
Open Scope string_scope.
Open Scope list_scope.
Open Scope Z_scope.

Section Dict.
  Context {A : Type} (key : A -> string).

  Fixpoint dlookup (k : string) (d : list A) : option A :=
    match d with [] => None | x :: xs => if String.eqb (key x) k then Some x else dlookup k xs end.

  (* d[key x] = x *)
  Fixpoint dassign (x : A) (d : list A) : list A :=
    match d with
    | [] => [x]
    | y :: ys => if String.eqb (key y) (key x) then x :: ys else y :: dassign x ys
    end.

  (* d.pop(k, None) *)
  Definition ddel (k : string) (d : list A) : list A := filter (fun y => negb (String.eqb (key y) k)) d.
End Dict.

(* one addition: what was added (already carrying its name) *)
Inductive mop :=
| MSig (l : leaf)            (* a Signal / Port named lname l *)
| MSub (t : btree)           (* a BundleInstance named bname t (of a definition already built) *)
| MJunk (k : string).        (* a value that is no Bundle attribute, under the name k *)

Definition mkey (o : mop) : string :=
  match o with MSig l => lname l | MSub t => bname t | MJunk k => k end.

(* the definition's two containers *)
Definition members := (list leaf * list btree)%type.

(* bundle.py:_add (reached from Bundle.add and Bundle.__setattr__ alike) *)
Definition add1 (st : members) (o : mop) : members :=
  match o with
  | MSig l => (dassign lname l (fst st), ddel bname (lname l) (snd st))
  | MSub t => (ddel lname (bname t) (fst st), dassign bname t (snd st))
  | MJunk _ => st
  end.

Definition build_proc (ops : list mop) : members := fold_left add1 ops ([], []).

(* the class body as Python sees it: a dict of the assignments *)
Definition class_dict (ops : list mop) : list mop := fold_left (fun d o => dassign mkey o d) ops [].

Definition build (cls : bool) (ops : list mop) : members :=
  if cls then build_proc (class_dict ops) else build_proc ops.

(* ---- whole definition trees with their histories ------------------------------------------------------ *)
Inductive hop (T : Type) :=
| OSig (l : leaf)
| OSub (t : T)
| OJunk (k : string).
Arguments OSig {T} l.
Arguments OSub {T} t.
Arguments OJunk {T} k.

(* an instance (name, flips, role) of a definition given by its construction style and history *)
Inductive htree := HT (n : string) (cf : bool) (nf : nat) (r : option role) (cls : bool) (ops : list (hop htree)).

Fixpoint resolve (h : htree) : btree :=
  match h with
  | HT n cf nf r cls ops =>
      let mops := (fix go (l : list (hop htree)) : list mop :=
                     match l with
                     | [] => []
                     | o :: rest =>
                         match o with
                         | OSig l => MSig l
                         | OSub s => MSub (resolve s)
                         | OJunk k => MJunk k
                         end :: go rest
                     end) ops in
      let st := build cls mops in
      BT n cf nf r (fst st) (snd st)
  end.

(* ---- the specification of "the members of the definition": the LAST assignment to a name decides ------- *)
Fixpoint last_write (k : string) (ops : list mop) : option mop :=
  match ops with
  | [] => None
  | o :: rest =>
      match last_write k rest with
      | Some o' => Some o'
      | None => if String.eqb (mkey o) k then Some o else None
      end
  end.

Definition final_sig (k : string) (ops : list mop) : option leaf :=
  match last_write k ops with Some (MSig l) => Some l | _ => None end.
Definition final_sub (k : string) (ops : list mop) : option btree :=
  match last_write k ops with Some (MSub t) => Some t | _ => None end.
(* in a procedural history a value that is no attribute is refused and changes nothing: it is no write at all *)
Definition attr_ops (ops : list mop) : list mop :=
  filter (fun o => match o with MJunk _ => false | _ => true end) ops.

(* decidable equality of trees (used by the correspondence run to compare the harness's own reading of the final members) *)
Definition opt_str_eqb (a b : option string) : bool :=
  match a, b with Some x, Some y => String.eqb x y | None, None => true | _, _ => false end.
Definition leaf_eqb (a b : leaf) : bool :=
  String.eqb (lname a) (lname b) && (lwidth a =? lwidth b) && Bool.eqb (lport a) (lport b) && dir_eqb (ldir a) (ldir b) &&
  opt_str_eqb (lsrc a) (lsrc b) && opt_str_eqb (ldest a) (ldest b).
Fixpoint leaves_eqb (a b : list leaf) : bool :=
  match a, b with
  | [], [] => true
  | x :: a', y :: b' => leaf_eqb x y && leaves_eqb a' b'
  | _, _ => false
  end.
Fixpoint btree_eqb (a b : btree) : bool :=
  match a, b with
  | BT n c k r sigs subs, BT n' c' k' r' sigs' subs' =>
      String.eqb n n' && Bool.eqb c c' && Nat.eqb k k' && opt_str_eqb r r' && leaves_eqb sigs sigs' &&
      (fix go (l : list btree) (l' : list btree) : bool :=
         match l, l' with
         | [], [] => true
         | x :: xs, y :: ys => btree_eqb x y && go xs ys
         | _, _ => false
         end) subs subs'
  end.
