(* Model/C05Naming.v — every place where elaboration invents a name and inserts an object into a Module.

   hdl21/module.py:_add                         -> ns_add     (NO duplicate check: an existing binding of the name is
                                                               replaced; another kind: removed there and re-appended)
   module.namespace.pop(name)                   -> ns_remove  (the array / instance bundle / bundle instance a pass dissolves)
   hdl21/elab/passes/base.py:ElabPass.flatname  -> Model/BundleFlat.v:flatname (re-used, not duplicated)
   the naming call sites                        -> site, site_segs, site_avoids, invent:
     portrefs.py:create_source                  SPortRef inst port        segments [f"{inst}_{port}"]          avoid=module.namespace
     portrefs.py:replace_noconn                 SNoConn name? inst port   segments [name] | [f"{inst}_{port}"]  avoid=module.namespace
                                                (pinned tree a5cab93: a NAMED no-connect used `noconn.name` as it was - variant Pinned)
     flatten_bundles.py:replace_bundle_inst     SFlatMember binst member  segments [binst, path.to_name()]      avoid=module.namespace
     arrays.py:ArrayFlattener.elaborate_module  SArrayElem arr k          segments [arr, str(k)]                avoid=module.namespace
     inst_bundles.py:elaborate_instance_bundle  SPairMember ib member     segments [ib, member]                 avoid=module.namespace
   one elaboration step of a pass               -> op / step / run  (pop a dissolved object's name | invent a name and insert) *)
From Coq Require Import String Ascii DecimalString.
Require Import Hdl21.Base.PyInt Hdl21.Spec.BundleSpec Hdl21.Model.BundleFlat.
Require Import Hdl21Gen.C10Tables.
Open Scope string_scope.
Open Scope list_scope.
Open Scope Z_scope.

Definition name := string.

(* the kind of a Module attribute decides the type-based container it is sorted into *)
Inductive okind := KPort | KSig | KInst | KArr | KPair | KBun.
Definition okind_eqb (a b : okind) : bool :=
  match a, b with
  | KPort, KPort | KSig, KSig | KInst, KInst | KArr, KArr | KPair, KPair | KBun, KBun => true
  | _, _ => false
  end.

(* a Python object: its kind and its identity *)
Record obj := { o_kind : okind; o_id : N }.
Definition obj_eqb (a b : obj) : bool := okind_eqb (o_kind a) (o_kind b) && N.eqb (o_id a) (o_id b).

(* Module.namespace: an insertion-ordered dict *)
Definition ns := list (name * obj).
Definition keys (l : ns) : list name := map fst l.

Fixpoint lookup (k : name) (l : ns) : option obj :=
  match l with
  | [] => None
  | (k', v) :: r => if String.eqb k' k then Some v else lookup k r
  end.

Fixpoint ns_remove (k : name) (l : ns) : ns :=            (* namespace.pop(k, None) *)
  match l with
  | [] => []
  | (k', v) :: r => if String.eqb k' k then ns_remove k r else (k', v) :: ns_remove k r
  end.

Fixpoint ns_replace (k : name) (o : obj) (l : ns) : ns :=  (* namespace[k] = o for a key that is present: position kept *)
  match l with
  | [] => []
  | (k', v) :: r => if String.eqb k' k then (k', o) :: ns_replace k o r else (k', v) :: ns_replace k o r
  end.

(* module.py:_add. There is no "name already taken" check: the new object takes the name.
   Same container: plain dict assignment. Other container: the old attribute is deleted there and popped from
   the namespace (fix C18-1), then the new one is appended. *)
Definition ns_add (k : name) (o : obj) (l : ns) : ns :=
  match lookup k l with
  | None => l ++ [(k, o)]
  | Some old => if okind_eqb (o_kind old) (o_kind o) then ns_replace k o l else ns_remove k l ++ [(k, o)]
  end.

(* ---------------------------------------------------------------------------------------------------- sites *)
Definition dec (k : N) : string := NilEmpty.string_of_uint (N.to_uint k).      (* Python str(k), k >= 0 *)

Inductive site :=
| SPortRef (inst port : name)
| SNoConn (nm : option name) (inst port : name)
| SNoConnMember (nm : option name) (inst port : name) (path : list name)   (* noconn_array_bundle: one signal per member *)
| SFlatMember (binst member : name)
| SArrayElem (arr : name) (k : N)
| SPairMember (ib member : name).

Definition inst_port (i p : name) : string := (i ++ "_" ++ p)%string.          (* f"{inst.name}_{portname}" *)

Definition site_segs (s : site) : list string :=
  match s with
  | SPortRef i p => [inst_port i p]
  | SNoConn (Some n) _ _ => [n]
  | SNoConn None i p => [inst_port i p]
  | SNoConnMember (Some n) _ _ path => n :: path
  | SNoConnMember None i p path => inst_port i p :: path
  | SFlatMember b m => [b; m]
  | SArrayElem a k => [a; dec k]
  | SPairMember ib m => [ib; m]
  end.

(* the code variant being modelled: the repaired tree (HEAD) or the pinned tree a5cab93 *)
Inductive variant := Repaired | Pinned.

(* does the site hand `avoid=module.namespace` to flatname?  Read off each call:
   Repaired: all five do.  Pinned: replace_noconn assigned `sig.name = noconn.name` for a named no-connect. *)
Definition site_avoids (v : variant) (s : site) : bool :=
  match v, s with
  | Pinned, SNoConn (Some _) _ _ => false
  | _, _ => true
  end.

Definition invent_v (v : variant) (s : site) (l : ns) : result name :=
  if site_avoids v s then flatname (site_segs s) (keys l) flatname_maxlen
  else Ok (join_us (site_segs s)).

Definition invent : site -> ns -> result name := invent_v Repaired.

(* ---------------------------------------------------------------------------------------------------- pass steps *)
Inductive op :=
| OpPop (n : name)                 (* popitem() of instarrays / instbundles / bundles + namespace.pop(name) *)
| OpInvent (s : site) (o : obj).   (* name := flatname(...); module.add(object named name) *)

Definition step_v (v : variant) (l : ns) (x : op) : result (ns * list name) :=
  match x with
  | OpPop n => Ok (ns_remove n l, [])
  | OpInvent s o => n <- invent_v v s l ;; Ok (ns_add n o l, [n])
  end.

(* a whole history of steps: final namespace and the invented names in order; the first failure (a raise) aborts *)
Fixpoint run_v (v : variant) (l : ns) (ops : list op) : result (ns * list name) :=
  match ops with
  | [] => Ok (l, [])
  | x :: rest =>
      r <- step_v v l x ;;
      r' <- run_v v (fst r) rest ;;
      Ok (fst r', snd r ++ snd r')
  end.

Definition step := step_v Repaired.
Definition run := run_v Repaired.

Fixpoint popped (ops : list op) : list name :=
  match ops with
  | [] => []
  | OpPop n :: r => n :: popped r
  | OpInvent _ _ :: r => popped r
  end.

(* ---------------------------------------------------------------------------------------------------- the passes' step sequences *)
(* ArrayFlattener: `name, array = instarrays.popitem(); namespace.pop(name); for k in range(n): add(Instance(name=flatname([name, str(k)])))` *)
Definition array_ops (arr : name) (n : nat) (id0 : N) : list op :=
  OpPop arr :: map (fun k => OpInvent (SArrayElem arr (N.of_nat k)) {| o_kind := KInst; o_id := id0 + N.of_nat k |}) (seq 0 n).

(* InstBundleElabPass: `name, inst = instbundles.popitem(); namespace.pop(name); {signame: add(flatname([name, signame]), Instance) ...}` *)
Fixpoint number {A} (l : list A) (k : N) : list (A * N) :=
  match l with [] => [] | x :: r => (x, k) :: number r (k + 1)%N end.

Definition pair_ops (ib : name) (members : list name) (id0 : N) : list op :=
  OpPop ib :: map (fun mk => OpInvent (SPairMember ib (fst mk)) {| o_kind := KInst; o_id := snd mk |}) (number members id0).

(* BundleFlattener: `name, b = bundles.popitem(); namespace.pop(name); for path, sig in flat.signals: sig.name = flatname([b.name, path.to_name()]); add(sig)` *)
Definition bundle_ops (b : name) (port : bool) (paths : list path) (id0 : N) : list op :=
  OpPop b :: map (fun pk => OpInvent (SFlatMember b (to_name (fst pk))) {| o_kind := if port then KPort else KSig; o_id := snd pk |})
                 (number paths id0).

(* ResolvePortRefs: one implicit signal (or bundle instance, for a bundle-valued port) per source-less group / per no-connect *)
Definition portref_ops (i p : name) (o : obj) : list op := [OpInvent (SPortRef i p) o].
Definition noconn_ops (nm : option name) (i p : name) (o : obj) : list op := [OpInvent (SNoConn nm i p) o].

(* ResolvePortRefs.noconn_array_bundle: a no-connect on a bundle-valued port of an Instance Array gets no implicit Bundle Instance
   but one new Signal per scalar member path (sub-bundles recursively): `sig.name = flatname(segments + [name], avoid=module.namespace); module.add(sig)` *)
Definition noconn_member_ops (nm : option name) (i p : name) (paths : list (list name)) (id0 : N) : list op :=
  map (fun pk => OpInvent (SNoConnMember nm i p (fst pk)) {| o_kind := KSig; o_id := snd pk |}) (number paths id0).
