(* Model/C17Path.v — C17: the text of a file-system path.
   An Include / Lib control holds a pathlib.Path built from what the designer wrote (a string, or a Path); the exporter
   writes str(path) into the SimInput.  This file models, on POSIX paths,
     - path_str  : the text of pathlib.PurePosixPath(w) for a written text w: the leading slashes (none, one, exactly two),
                   the segments between slashes without the empty ones and the "." ones, joined by single slashes; "." for
                   the empty path.  A ".." segment is a segment like any other: nothing is struck out.
     - normpath  : os.path.normpath (posixpath), which in addition strikes out every `name/..` pair lexically (and `..` directly
                   below the root) - another path whenever `name` is a symbolic link.
   Both are validated against CPython on every run (stream spec-path-vs-cpython). *)
From Coq Require Import String Ascii.
Require Import Hdl21.Base.PyInt.
Open Scope string_scope.

Definition is_slash (c : ascii) : bool := Ascii.eqb c "/"%char.

(* str.split("/") : never empty *)
Fixpoint split_slash (s : string) : list string :=
  match s with
  | EmptyString => [EmptyString]
  | String c s' =>
      if is_slash c then EmptyString :: split_slash s'
      else match split_slash s' with
           | x :: r => String c x :: r
           | [] => [String c EmptyString]
           end
  end.

Fixpoint join_slash (l : list string) : string :=
  match l with
  | [] => EmptyString
  | [x] => x
  | x :: xs => String.append x (String "/" (join_slash xs))
  end.

(* number of leading slashes, as far as it matters: 0, 1, 2, 3 = three or more *)
Definition lead_slashes (s : string) : nat :=
  match s with
  | String a (String b (String c _)) =>
      if is_slash a then if is_slash b then if is_slash c then 3 else 2 else 1 else 0
  | String a (String b EmptyString) => if is_slash a then if is_slash b then 2 else 1 else 0
  | String a EmptyString => if is_slash a then 1 else 0
  | EmptyString => 0
  end%nat.

(* the root of a POSIX path: exactly two leading slashes are kept (POSIX leaves their meaning to the system),
   one or more than two are one *)
Inductive proot := RNone | ROne | RTwo.
Definition root_of (s : string) : proot :=
  match lead_slashes s with O => RNone | 2%nat => RTwo | _ => ROne end.
Definition root_str (r : proot) : string := match r with RNone => "" | ROne => "/" | RTwo => "//" end.
Definition proot_eqb (a b : proot) : bool :=
  match a, b with RNone, RNone | ROne, ROne | RTwo, RTwo => true | _, _ => false end.

(* a segment that pathlib keeps: not empty, not "." *)
Definition keep_seg (s : string) : bool := negb (String.eqb s "" || String.eqb s ".").
Definition parts_of (s : string) : list string := filter keep_seg (split_slash s).

Record ppath := { p_root : proot; p_parts : list string }.
Definition parse_path (w : string) : ppath := {| p_root := root_of w; p_parts := parts_of w |}.
Definition render_path (p : ppath) : string :=
  match p_root p, p_parts p with
  | RNone, [] => "."
  | r, ps => String.append (root_str r) (join_slash ps)
  end.

(* str(pathlib.PurePosixPath(w)) *)
Definition path_str (w : string) : string := render_path (parse_path w).

(* ---- posixpath.normpath: the loop over the components; acc = new_comps reversed ---- *)
Definition is_dotdot (s : string) : bool := String.eqb s "..".
Fixpoint norm_loop (rooted : bool) (acc : list string) (l : list string) : list string :=
  match l with
  | [] => rev acc
  | c :: l' =>
      if negb (is_dotdot c) then norm_loop rooted (c :: acc) l'
      else match acc with
           | [] => if rooted then norm_loop rooted [] l' else norm_loop rooted [c] l'
           | top :: acc' => if is_dotdot top then norm_loop rooted (c :: acc) l' else norm_loop rooted acc' l'
           end
  end.
Definition normpath (w : string) : string :=
  let r := root_of w in
  render_path {| p_root := r; p_parts := norm_loop (negb (proot_eqb r RNone)) [] (parts_of w) |}.

(* `..` occurs where normpath strikes something out: after a named segment, or directly below the root *)
Fixpoint strikes (rooted : bool) (prev : option string) (l : list string) : bool :=
  match l with
  | [] => false
  | c :: l' =>
      (is_dotdot c && match prev with None => rooted | Some p => negb (is_dotdot p) end) || strikes rooted (Some c) l'
  end.

(* os.path.expanduser / expandvars act on these *)
Definition has_dotdot (w : string) : bool := existsb is_dotdot (parts_of w).
