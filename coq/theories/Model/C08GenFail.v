(* Model/C08GenFail.v — hdl21/generator.py:run and the GeneratorCache when generator bodies may RAISE.
   (Model/GenCache.v, property C09, ends a history at the first exception; this file models what is left behind.)

   A call key k : nat stands for (generator identity, parameter value).  `calls k` are the nested generator calls the body
   of k makes, in order; `cached k` is the generator's `enable_cache`.  The oracle  gf k n  says how the n-th execution of
   the body of k ends:
     None            — it returns a Module;
     Some (i, kind)  — it ends after its first i nested calls with a failure of that KIND:
                       0 an `Exception` raised by the body, 1 the body returns something that is no Module (refused by
                       `_generate` with a RuntimeError), >= 2 a `BaseException` that is NOT an `Exception`
                       (KeyboardInterrupt, SystemExit, a test framework's outcome, asyncio.CancelledError, GeneratorExit).
   The bookkeeping policy:
     GFinally  — the repaired code (try/finally, fix C08-2): every way a call ends is cleaned up after;
     GExcOnly  — `except Exception: pending.remove(call); raise` instead of `finally` (the stack is still popped in the outer
                 `finally`): what a seeded change did; refuted in Props/C08.v;
     GNever    — the pinned code, literally (removal / pop on the success path only). *)
Require Import Hdl21.Base.PyInt.
Open Scope list_scope.

Inductive gerr := GE (k kind : nat) | GCycle (k : nat) | GFuel.
Inductive gpol := GFinally | GExcOnly | GNever.

(* is this failure outside `Exception`? *)
Definition kind_base (kind : nat) : bool := Nat.leb 2 kind.
Definition gerr_base (e : gerr) : bool := match e with GE _ kind => kind_base kind | _ => false end.

Record gst := {
  gdone : list nat;      (* Cache.done (keys) *)
  gpend : list nat;      (* Cache.pending *)
  gstack : list nat;     (* Cache.stack *)
  gruns : list nat       (* ghost: body executions, latest first *)
}.

Definition ginit : gst := {| gdone := []; gpend := []; gstack := []; gruns := [] |}.

Definition gmem (x : nat) (l : list nat) : bool := existsb (Nat.eqb x) l.
Definition grem (x : nat) (l : list nat) : list nat := filter (fun y => negb (Nat.eqb x y)) l.
Definition gcount (x : nat) (l : list nat) : nat := length (filter (Nat.eqb x) l).

Fixpoint gfold (r : gst -> nat -> gst * option gerr) (s : gst) (ks : list nat) : gst * option gerr :=
  match ks with
  | [] => (s, None)
  | k :: ks' => match r s k with
                | (s1, None) => gfold r s1 ks'
                | x => x
                end
  end.

Section Gen.
Variable pol : gpol.
Variable cached : nat -> bool.
Variable calls : nat -> list nat.
Variable gf : nat -> nat -> option (nat * nat).

Definition push (k : nat) (s : gst) : gst :=
  {| gdone := gdone s; gpend := gpend s; gstack := k :: gstack s; gruns := gruns s |}.
Definition pop (s : gst) : gst :=
  {| gdone := gdone s; gpend := gpend s; gstack := tl (gstack s); gruns := gruns s |}.
(* `pending.add(call)` (cached generators only) and the ghost log of the body execution *)
Definition start (k : nat) (s : gst) : gst :=
  {| gdone := gdone s; gpend := if cached k then k :: gpend s else gpend s; gstack := gstack s; gruns := k :: gruns s |}.
Definition unp (k : nat) (s : gst) : gst :=
  {| gdone := gdone s; gpend := if cached k then grem k (gpend s) else gpend s; gstack := gstack s; gruns := gruns s |}.
Definition finish (k : nat) (s : gst) : gst :=
  {| gdone := if cached k then k :: gdone s else gdone s; gpend := gpend s; gstack := gstack s; gruns := gruns s |}.
(* what the `finally` / `except` clauses do when the call ends with the exception e *)
Definition unwind (k : nat) (e : gerr) (s : gst) : gst :=
  match pol with
  | GFinally => pop (unp k s)
  | GExcOnly => if gerr_base e then pop s else pop (unp k s)
  | GNever => s
  end.

Fixpoint grun (fuel : nat) (s : gst) (k : nat) : gst * option gerr :=
  match fuel with
  | O => (s, Some GFuel)
  | S n =>
      if cached k && gmem k (gdone s) then (s, None) else             (* cache hit: the body is not run *)
      if cached k && gmem k (gpend s)
      then (match pol with GNever => push k s | _ => s end, Some (GCycle k))   (* pushed on the stack before the check *)
      else
        let s1 := start k (push k s) in
        match gf k (gcount k (gruns s)) with
        | Some (i, kind) =>
            match gfold (grun n) s1 (firstn i (calls k)) with
            | (s2, Some e) => (unwind k e s2, Some e)
            | (s2, None) => (unwind k (GE k kind) s2, Some (GE k kind))      (* the body raised / returned no Module *)
            end
        | None =>
            match gfold (grun n) s1 (calls k) with
            | (s2, Some e) => (unwind k e s2, Some e)
            | (s2, None) => (finish k (pop (unp k s2)), None)
            end
        end
  end.
End Gen.
