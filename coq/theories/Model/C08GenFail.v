(* Model/C08GenFail.v — hdl21/generator.py:run and the GeneratorCache when generator bodies may RAISE.
   (Model/GenCache.v, property C09, ends a history at the first exception; this file models what is left behind.)

   A call key k : nat stands for (generator identity, parameter value).  `calls k` are the nested generator calls the body
   of k makes, in order.  The oracle  gf k n  says how the n-th execution of the body of k ends:
     None   — it returns a Module;      Some i — it raises after its first i nested calls.
   `cleanup = true` is the repaired code (try/finally, fix C08-2), `cleanup = false` the pinned code, literally. *)
Require Import Hdl21.Base.PyInt.
Open Scope list_scope.

Inductive gerr := GE (k : nat) | GCycle (k : nat) | GFuel.

Record gst := {
  gdone : list nat;      (* Cache.done (keys) *)
  gpend : list nat;      (* Cache.pending *)
  gstack : list nat;     (* Cache.stack *)
  gruns : list nat       (* ghost: body executions, latest first *)
}.

Definition ginit : gst := {| gdone := []; gpend := []; gstack := []; gruns := [] |}.

Definition gmem (x : nat) (l : list nat) : bool := existsb (Nat.eqb x) l.
Definition grem (x : nat) (l : list nat) : list nat := filter (fun y => negb (Nat.eqb x y)) l.
Definition gcount (x : nat) (l : list nat) : nat := length (filter (Nat.eqb x) l).

Fixpoint gfold (r : gst -> nat -> gst * option gerr) (s : gst) (ks : list nat) : gst * option gerr :=
  match ks with
  | [] => (s, None)
  | k :: ks' => match r s k with
                | (s1, None) => gfold r s1 ks'
                | x => x
                end
  end.

Section Gen.
Variable cleanup : bool.
Variable calls : nat -> list nat.
Variable gf : nat -> nat -> option nat.

Definition push (k : nat) (s : gst) : gst :=
  {| gdone := gdone s; gpend := gpend s; gstack := k :: gstack s; gruns := gruns s |}.
Definition pop (s : gst) : gst :=
  {| gdone := gdone s; gpend := gpend s; gstack := tl (gstack s); gruns := gruns s |}.
Definition start (k : nat) (s : gst) : gst :=
  {| gdone := gdone s; gpend := k :: gpend s; gstack := gstack s; gruns := k :: gruns s |}.
Definition unp (k : nat) (s : gst) : gst :=
  {| gdone := gdone s; gpend := grem k (gpend s); gstack := gstack s; gruns := gruns s |}.
Definition finish (k : nat) (s : gst) : gst :=
  {| gdone := k :: gdone s; gpend := gpend s; gstack := gstack s; gruns := gruns s |}.
(* what the `finally` clauses do when the call ends with an exception *)
Definition unwind (k : nat) (s : gst) : gst := if cleanup then pop (unp k s) else s.

Fixpoint grun (fuel : nat) (s : gst) (k : nat) : gst * option gerr :=
  match fuel with
  | O => (s, Some GFuel)
  | S n =>
      if gmem k (gdone s) then (s, None) else                        (* cache hit: the body is not run *)
      if gmem k (gpend s)
      then (if cleanup then s else push k s, Some (GCycle k))        (* pushed on the stack before the check *)
      else
        let s1 := start k (push k s) in
        match gf k (gcount k (gruns s)) with
        | Some i =>
            match gfold (grun n) s1 (firstn i (calls k)) with
            | (s2, Some e) => (unwind k s2, Some e)
            | (s2, None) => (unwind k s2, Some (GE k))               (* the body raised *)
            end
        | None =>
            match gfold (grun n) s1 (calls k) with
            | (s2, Some e) => (unwind k s2, Some e)
            | (s2, None) => (finish k (pop (unp k s2)), None)
            end
        end
  end.
End Gen.
