(* Model/PdkRegistry.v — hdl21/pdk/pdk.py: _PdkManager, register, compile, set_default, default (repaired: fix C15-2,
   compile(pdk=module) calls the module-level register()).  PDK modules are numbers; `info m` gives the module's
   __name__ and whether it passes register's checks (is a module, has compile(src: Elaboratables) -> None). *)
From Coq Require Import String.
Require Import Hdl21.Base.PyInt.
Open Scope string_scope.
Open Scope list_scope.
Open Scope Z_scope.

Record rst := { r_mods : list N; r_names : list (string * N); r_default : option N }.
Definition r0 : rst := {| r_mods := []; r_names := []; r_default := None |}.

Definition minfo := N -> (string * bool)%type.

Inductive rop :=
| ORegister (m : N) | OSetDefaultMod (m : N) | OSetDefaultName (s : string) | ODefault
| OCompileDefault | OCompileName (s : string) | OCompileMod (m : N).

(* outcome: accepted (with the module returned by default() / whose compile ran), or rejected by a raise *)
Inductive rout := ROk (v : option N) | RRej.

Definition inb (m : N) (l : list N) : bool := existsb (N.eqb m) l.

Fixpoint name_get (s : string) (l : list (string * N)) : option N :=
  match l with [] => None | (k, v) :: r => if String.eqb s k then Some v else name_get s r end.

Definition register (info : minfo) (st : rst) (m : N) : option rst :=
  if inb m (r_mods st) then Some st
  else if snd (info m) then
    Some {| r_mods := m :: r_mods st; r_names := (fst (info m), m) :: r_names st; r_default := r_default st |}
  else None.

Definition default (st : rst) : option N :=
  match r_default st with
  | Some d => Some d
  | None => match r_mods st with [m] => Some m | _ => None end
  end.

Definition rstep (info : minfo) (st : rst) (o : rop) : rout * rst :=
  match o with
  | ORegister m => match register info st m with Some st' => (ROk None, st') | None => (RRej, st) end
  | OSetDefaultMod m =>
      if inb m (r_mods st) then (ROk None, {| r_mods := r_mods st; r_names := r_names st; r_default := Some m |}) else (RRej, st)
  | OSetDefaultName s =>
      match name_get s (r_names st) with
      | Some m => (ROk None, {| r_mods := r_mods st; r_names := r_names st; r_default := Some m |})
      | None => (RRej, st)
      end
  | ODefault => (ROk (default st), st)
  | OCompileDefault => match default st with Some m => (ROk (Some m), st) | None => (RRej, st) end
  | OCompileName s => match name_get s (r_names st) with Some m => (ROk (Some m), st) | None => (RRej, st) end
  | OCompileMod m => match register info st m with Some st' => (ROk (Some m), st') | None => (RRej, st) end
  end.

Fixpoint rrun (info : minfo) (st : rst) (ops : list rop) : list rout * rst :=
  match ops with
  | [] => ([], st)
  | o :: r => let '(x, st') := rstep info st o in let '(xs, st'') := rrun info st' r in (x :: xs, st'')
  end.

(* every name and the default refer to registered modules *)
Definition rinv (st : rst) : Prop :=
  (forall s m, name_get s (r_names st) = Some m -> inb m (r_mods st) = true) /\
  (forall d, r_default st = Some d -> inb d (r_mods st) = true).
