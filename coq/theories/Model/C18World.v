(* Model/C18World.v — the concrete world: every container is a Model/Namespace.v state (namespace + six views),
   the heap holds the live objects.  `Module.add(x)` / `setattr(m, n, x)` on a live object x run the round-1
   `step` on the snapshot of x (module.py:_add sorts by the CURRENT `val.vis`, stores under the key) and, when `_add`
   is reached and accepts, `val.name = name` and `val._parent_module = module` (`adopt`).  A rejected edit leaves
   containers AND objects as they were (repaired code: fix C18-4 moved `val.name = name` behind the checks). *)
Require Import Hdl21.Base.PyInt Hdl21.Spec.Namespace Hdl21.Model.Namespace Hdl21.Spec.C18World.
From Coq Require Import String Ascii.
Open Scope string_scope.
Open Scope Z_scope.

Definition cstp (c : ctr) (s : state) (o : op) : option state :=
  match step c s o with Ok s' => Some s' | Error _ => None end.

Definition cworld := world state.
Definition cw_init : cworld := W (fun _ => init) (fun _ => None).
Definition wmstep : cworld -> wop -> option cworld := wstep cstp.
Definition wmapply : cworld -> wop -> cworld := wapply cstp.
Definition wmfold : cworld -> list wop -> cworld := wfold cstp.
Definition wrun (ops : list wop) : cworld := wmfold cw_init ops.

(* get(name) on container ci *)
Definition wget (w : cworld) (ci : cid) (n : name) : option value := lookup n (st_ns (w_st w ci)).

(* the live object behind an entry *)
Definition live (w : cworld) (v : value) : option obj := w_heap w (v_id v).

Definition in_sync (w : cworld) (ci : cid) (n : name) (v : value) : Prop := in_syncb (w_heap w) ci n v = true.

(* every entry of container ci is in sync with its object (what the Orphanage pass of elaboration asks of a Module,
   as far as parents go) *)
Definition all_in_syncb (w : cworld) (ci : cid) : bool :=
  forallb (fun e => in_syncb (w_heap w) ci (fst e) (snd e)) (st_ns (w_st w ci)).

(* post never touches object x and never re-binds key n of container ci (decided along the run) *)
Fixpoint quiet (w : cworld) (post : list wop) (ci : cid) (n : name) (x : Z) : bool :=
  match post with
  | [] => true
  | o :: t => negb (touches o x) && negb (binds_here (w_heap w) o ci n) && quiet (wmapply w o) t ci n x
  end.

(* histories of the round-1 shape: every object is handed to a container at most once, and never mutated afterwards *)
Fixpoint linear (used : list Z) (ops : list wop) : bool :=
  match ops with
  | [] => true
  | WNew _ _ _ :: t | WDel _ _ :: t | WElab _ :: t => linear used t
  | WSet _ _ x :: t | WAdd _ x _ :: t => negb (existsb (Z.eqb x) used) && linear (x :: used) t
  | WVis x _ :: t | WDir x _ :: t | WName x _ :: t => negb (existsb (Z.eqb x) used) && linear used t
  end.
