(* Model/C12ZCanon.v — C12 strengthening round: three places OUTSIDE the set-iterating elaborator loops where a
   process-dependent order / value could reach a name, modelled with the process-dependent part as an explicit parameter.

   code                                                              model
   ----------------------------------------------------------------  ------------------------------------------------------
   hdl21/params.py: hdl21_naming_encoder, `set`/`frozenset` branch:   jtext (PSet l): l is ANY enumeration of the set (its
     sorted(json.dumps(x, default=enc, sort_keys=True) for x in obj)   iteration order in this process); members are named by
     (repaired HEAD); the outer json.dumps then quotes every text      their compact JSON text, the texts are sorted as strings
                                                                       (total order), each text is quoted again
   json.dumps of a tuple / list, of a str (printable ASCII)           PTup, PStr (escape of the double quote and the backslash)
   json.dumps of an int / float / bool / None                         PAtom t: the text is given (json's business)
   seeded variant: sorted(obj) (members compared with `<`, for        jtext_partial lt: stable insertion sort that only asks
     frozensets the PROPER-SUBSET partial order)                       `lt`; refuted on pairwise incomparable members
   hdl21/pdk/pdk.py: _mgr (default, modules: Set[ModuleType],         reg (rdefault, rmods = any enumeration of the set);
     names), register / set_default / default / compile                reg_op / default_of / target_of, statement by statement
   seeded variant: default() = next(iter(modules)) when non-empty      default_first; refuted on two registered PDKs
   hdl21/elab/passes/base.py: ElabPass.flatname                       Model/BundleFlat.v:flatname (re-used); the seeded variant
     (refuses names longer than maxlen)                                flatname_digest takes the process's str-hash as a parameter *)
Require Import Hdl21.Base.PyInt Hdl21.Spec.BundleSpec Hdl21.Model.BundleFlat.
From Coq Require Import String Ascii Permutation.
Open Scope string_scope.
Open Scope list_scope.
Open Scope Z_scope.

(* ------------------------------------------------------------------------------------------------------------
   1. naming text of a parameter value that holds sets
   ------------------------------------------------------------------------------------------------------------ *)
Inductive pv :=
| PAtom (text : string)        (* int, float, bool, None: the JSON text json.dumps gives it *)
| PStr (s : string)
| PTup (l : list pv)           (* tuple / list: ordered *)
| PSet (l : list pv).          (* set / frozenset: l = the members in THIS process's iteration order *)

Definition dq : string := String (ascii_of_nat 34) EmptyString.      (* double quote *)
Definition bs : string := String (ascii_of_nat 92) EmptyString.      (* backslash *)

(* json.dumps of a str made of printable ASCII: only the double quote and the backslash are escaped *)
Fixpoint escape (s : string) : string :=
  match s with
  | EmptyString => EmptyString
  | String c t =>
      if (Nat.eqb (nat_of_ascii c) 34 || Nat.eqb (nat_of_ascii c) 92)%bool
      then bs ++ String c (escape t) else String c (escape t)
  end.
Definition quote (s : string) : string := dq ++ escape s ++ dq.

Fixpoint printable (s : string) : bool :=
  match s with
  | EmptyString => true
  | String c t => (Nat.leb 32 (nat_of_ascii c) && Nat.leb (nat_of_ascii c) 126 && printable t)%bool
  end.

Fixpoint join_cs (l : list string) : string :=      (* ", ".join(l) *)
  match l with
  | [] => EmptyString
  | [x] => x
  | x :: t => x ++ ", " ++ join_cs t
  end.
Definition bracket (l : list string) : string := "[" ++ join_cs l ++ "]".

(* sorted() on a list of str: strings are totally ordered; the result is THE sorted permutation (any correct sort) *)
Fixpoint sins (x : string) (l : list string) : list string :=
  match l with
  | [] => [x]
  | y :: t => if String.leb x y then x :: l else y :: sins x t
  end.
Fixpoint ssort (l : list string) : list string :=
  match l with [] => [] | x :: t => sins x (ssort t) end.

Fixpoint jtext (v : pv) : string :=
  match v with
  | PAtom t => t
  | PStr s => quote s
  | PTup l => bracket (map jtext l)
  | PSet l => bracket (map quote (ssort (map jtext l)))
  end.

Fixpoint pv_ok (v : pv) : bool :=         (* inside the fragment the model speaks about *)
  match v with
  | PAtom t => printable t
  | PStr s => printable s
  | PTup l => forallb pv_ok l
  | PSet l => forallb pv_ok l
  end.

(* "the same value in another process": every set may be enumerated in another order, at every depth *)
Inductive peq : pv -> pv -> Prop :=
| pe_atom t : peq (PAtom t) (PAtom t)
| pe_str s : peq (PStr s) (PStr s)
| pe_tup l1 l2 : peql l1 l2 -> peq (PTup l1) (PTup l2)
| pe_set l1 l2 l3 : peql l1 l2 -> Permutation l2 l3 -> peq (PSet l1) (PSet l3)
with peql : list pv -> list pv -> Prop :=
| pl_nil : peql [] []
| pl_cons v w l1 l2 : peq v w -> peql l1 l2 -> peql (v :: l1) (w :: l2).
Scheme peq_mut := Induction for peq Sort Prop
  with peql_mut := Induction for peql Sort Prop.

(* the seeded variant: sorted(obj) on the members themselves. For members that are frozensets `<` is proper subset.
   A sort that only asks `lt` (stable insertion sort; CPython's binary insertion sort asks the same question and, when
   every answer is False, likewise leaves the list as it is) *)
Section Partial.
  Variable lt : pv -> pv -> bool.
  Fixpoint pins (x : pv) (l : list pv) : list pv :=       (* insert x after everything that is not greater than x *)
    match l with
    | [] => [x]
    | y :: t => if lt x y then x :: l else y :: pins x t
    end.
  Fixpoint psort (l : list pv) : list pv :=
    match l with [] => [] | x :: t => pins x (psort t) end.
End Partial.

Definition atoms_of (v : pv) : list string :=
  match v with PSet l | PTup l => map jtext l | _ => [] end.
(* frozenset.__lt__: proper subset (members compared by their texts) ; other kinds: never less (enough for the witness) *)
Definition subset_lt (a b : pv) : bool :=
  match a, b with
  | PSet _, PSet _ =>
      (forallb (fun x => smem x (atoms_of b)) (atoms_of a) && negb (forallb (fun x => smem x (atoms_of a)) (atoms_of b)))%bool
  | _, _ => false
  end.
Definition jtext_partial (v : pv) : string :=
  match v with
  | PSet l => bracket (map jtext (rev (psort subset_lt (rev l))))
  | _ => jtext v
  end.

(* ------------------------------------------------------------------------------------------------------------
   2. the PDK registry
   ------------------------------------------------------------------------------------------------------------ *)
Record reg := Reg { rdefault : option string; rmods : list string }.   (* rmods: any enumeration of the set *)
Definition reg0 : reg := Reg None [].

Inductive pop :=
| ORegister (m : string)                 (* import of a PDK package: h.pdk.register(module) *)
| OSetDefault (m : string)               (* h.pdk.set_default(m) *)
| OCompile (arg : option string)         (* h.pdk.compile(src, pdk=arg) ; arg: None or a registered NAME *)
| OCompileMod (m : string).              (* h.pdk.compile(src, pdk=<module object>): `register(pdk)` first, then it is the target *)

Inductive pout :=
| PNone                                  (* the operation has no output *)
| PTarget (m : string)                   (* compiled to PDK m *)
| PRefused.                              (* RuntimeError *)

Definition pout_eqb (a b : pout) : bool :=
  match a, b with
  | PNone, PNone | PRefused, PRefused => true
  | PTarget x, PTarget y => String.eqb x y
  | _, _ => false
  end.

(* default(): `if _mgr.default is not None: return it; if len(modules) == 1: return next(iter(modules)); return None` *)
Definition default_of (r : reg) : option string :=
  match rdefault r with
  | Some d => Some d
  | None => match rmods r with [m] => Some m | _ => None end
  end.
(* seeded: `if _mgr.modules: return next(iter(_mgr.modules))` *)
Definition default_first (r : reg) : option string :=
  match rdefault r with
  | Some d => Some d
  | None => match rmods r with m :: _ => Some m | [] => None end
  end.

Section Reg.
  Variable dflt : reg -> option string.
  Definition reg_op (r : reg) (o : pop) : reg * pout :=
    match o with
    | ORegister m => if smem m (rmods r) then (r, PNone) else (Reg (rdefault r) (rmods r ++ [m]), PNone)
    | OSetDefault m => if smem m (rmods r) then (Reg (Some m) (rmods r), PNone) else (r, PRefused)
    | OCompile None => match dflt r with Some m => (r, PTarget m) | None => (r, PRefused) end
    | OCompile (Some m) => if smem m (rmods r) then (r, PTarget m) else (r, PRefused)
    | OCompileMod m => if smem m (rmods r) then (r, PTarget m) else (Reg (rdefault r) (rmods r ++ [m]), PTarget m)
    end.
  Fixpoint reg_run (r : reg) (ops : list pop) : list pout :=
    match ops with
    | [] => []
    | o :: t => let '(r', out) := reg_op r o in out :: reg_run r' t
    end.
End Reg.

(* two processes: the same history, the set enumerated differently *)
Definition reg_sim (a b : reg) : Prop := rdefault a = rdefault b /\ Permutation (rmods a) (rmods b).

(* ------------------------------------------------------------------------------------------------------------
   3. flatname with a digest taken by a per-process function (the seeded variant), against BundleFlat.flatname
   ------------------------------------------------------------------------------------------------------------ *)
Definition flatname_digest (h : string -> string) (segs avoid : list string) (maxlen : Z) : result string :=
  let name := join_us segs in
  if maxlen <? Z.of_nat (String.length name)
  then flatname [h name] avoid maxlen            (* shortened to something that depends on h(name) *)
  else flatname segs avoid maxlen.
