(* Model/SimExport.v — C17: executable model of hdl21/sim/proto.py (SimProtoExporter, to_proto) and of the
   three ways a Sim is built in hdl21/sim/data.py (Sim(...), Sim.add / add-methods, @sim classes).
   Follows the code branch by branch; every `raise` is an explicit Error.  Models the REPAIRED code
   (fixes/C17-*.patch). *)
From Coq Require Import String Ascii DecimalString.
Require Import Hdl21.Base.PyInt Hdl21.Spec.SimSpec.
Require Hdl21Gen.C17Names.

(* state-threading traversals, defined so that nested fixpoints over them pass the guard checker *)
Definition thread {A B S} (f : A -> S -> result (B * S)) : list A -> S -> result (list B * S) :=
  fix go l s := match l with
                | [] => Ok ([], s)
                | x :: l' => r1 <- f x s ;; r2 <- go l' (snd r1) ;; Ok (fst r1 :: fst r2, snd r2)
                end.
Definition seq_fold {A S} (f : A -> S -> result S) : list A -> S -> result S :=
  fix go l s := match l with [] => Ok s | x :: l' => s' <- f x s ;; go l' s' end.

(* ---- SimProtoExporter.next_analysis_name: f"<prefix>{self.analysis_count}".  The property leaves the spelling of the prefix
        free (it asks for distinct names); it is a REGENERATED table entry (Hdl21Gen.C17Names.auto_name_prefix, read off the
        names the live exporter gives to unnamed analyses), "Analysis" in the tree the model was written for.  Everything
        proved about auto_name below holds for an arbitrary prefix (auto_name_of). ---- *)
Definition string_of_N (n : N) : string := NilEmpty.string_of_uint (N.to_uint n).
Definition auto_name_of (prefix : string) (k : N) : string := String.append prefix (string_of_N k).
Definition auto_name (k : N) : string := auto_name_of Hdl21Gen.C17Names.auto_name_prefix k.
(* `an.name or self.next_analysis_name()` : None and "" are falsy *)
Definition pick_name (n : option string) (k : N) : string * N :=
  match user_name n with Some s => (s, k) | None => (auto_name k, N.succ k) end.

(* ---- export_float ---- *)
Definition xf (x : num) : result fnum :=
  match x with NPre nm ne pe => Ok (FDec nm (ne + pe)) | NLit _ => Error EBadKind end.
Definition xf_opt (x : option num) : result fnum :=
  match x with None => Ok (FDec 0 0) | Some y => xf y end.
Definition xf_int (n : Z) : fnum := FDec n 0.

(* ---- export_sweep / export_sweep_variable ---- *)
Definition xsweep (s : sweep) : result osweep :=
  match s with
  | SwLin a b c => a' <- xf a ;; b' <- xf b ;; c' <- xf c ;; Ok (OLin a' b' c')
  | SwLog a b n => a' <- xf a ;; b' <- xf b ;; Ok (OLog a' b' (xf_int n))
  | SwPts l => l' <- traverse xf l ;; Ok (OPts l')
  end.
Definition xvar (v : svar) : string := match v with VStr s => s | VPar n => oname n end.

(* ---- export_noise: output / input source ---- *)
Definition xnout (o : nout) : result (string * string) :=
  match o with
  | OTuple [Some a; Some b] => Ok (a, b)
  | OTuple _ => Error EBadKind          (* wrong length: ValueError; nameless item: AttributeError *)
  | OConn s => Ok (s, EmptyString)
  | OStr s => Ok (s, EmptyString)
  | OOther => Error EBadKind
  end.

(* protobuf integer fields reject values outside their range *)
Definition chk (b : bool) : result unit := if b then Ok tt else Error EOther.

(* ---- export_analysis and the export_<kind> methods; k = self.analysis_count ---- *)
Fixpoint xan (a : analysis) (k : N) : result (oan * N) :=
  match a with
  | AOp n => let '(nm, k1) := pick_name n k in Ok (OOp nm, k1)
  | ADc v sw n => let '(nm, k1) := pick_name n k in sw' <- xsweep sw ;; Ok (ODc nm (xvar v) sw', k1)
  | AAc a b np n =>
      let '(nm, k1) := pick_name n k in
      a' <- xf a ;; b' <- xf b ;; _ <- chk (in_u64 np) ;; Ok (OAc nm a' b' np, k1)
  | ATran t ts n =>
      let '(nm, k1) := pick_name n k in t' <- xf t ;; ts' <- xf_opt ts ;; Ok (OTran nm t' ts', k1)
  | ANoise o src a b np n =>
      let '(nm, k1) := pick_name n k in
      pn <- xnout o ;; a' <- xf a ;; b' <- xf b ;; _ <- chk (in_u64 np) ;;
      Ok (ONoise nm (fst pn) (snd pn) (nsrc_name src) a' b' np, k1)
  | ASweep inner v sw n =>
      let '(nm, k1) := pick_name n k in
      sw' <- xsweep sw ;; r <- thread xan inner k1 ;; Ok (OSweep nm (xvar v) sw' (fst r), snd r)
  | AMonte inner np n =>
      let '(nm, k1) := pick_name n k in
      r <- thread xan inner k1 ;; _ <- chk (in_i64 np) ;; Ok (OMonte nm np 0 (fst r), snd r)
  | ACustom cmd n => let '(nm, k1) := pick_name n k in Ok (OCustom nm cmd, k1)
  end.

(* ---- hdl21.proto.export_param_value on the value types a Sim can hold ---- *)
Definition xpnum (x : num) : result pval :=
  match x with
  | NLit s => Ok (PLit s)
  | NPre nm ne pe =>
      (* export_prefixed: integral numbers inside 64 bits go to int64_value, everything else to string_value;
         nothing is refused (repair ab942f1) *)
      Ok (PDec nm (ne + pe))
  end.
Definition xoval (v : oval) : result pval :=
  match v with
  | VBool b => Ok (PInt (if b then 1 else 0))    (* bool is an int for export_param_value *)
  | VNum x => xpnum x
  end.

(* ---- export_save (repaired: list forms recognised by their elements) ---- *)
Definition xsave (t : starg) : result octrl :=
  match t with
  | TMode MAll => Ok (XSaveMode MAll)
  | TMode MNone => Ok (XSaveMode MNone)
  | TMode MSelected => Error EBadKind          (* `raise ValueError`: vlsir.spice.Save.SaveMode has no such member *)
  | TSig s => Ok (XSaveSig s)
  | TSigs l => Ok (XSaveSig (join "," l))
  | TName s => Ok (XSaveSig s)
  | TNames l => Ok (XSaveSig (join "," l))
  end.

(* ---- export_control ---- *)
Definition xctrl (c : control) : result octrl :=
  match c with
  | CInclude p => Ok (XInclude p)
  | CLib p s => Ok (XLib p s)
  | CSave t => xsave t
  | CMeas an e n => Ok (XMeas (match an with MStr s => s | MAn k => kind_name k end) (oname n) e)
  | CParam n v => p <- xpnum v ;; Ok (XParam (oname n) p)
  | CLiteral s => Ok (XLiteral s)
  end.

(* ---- export_attr over sim.attrs: three lists, each in the order of appearance ---- *)
Definition outs := (list (string * pval) * list oan * list octrl)%type.
Fixpoint xattrs (l : list attr) (k : N) : result outs :=
  match l with
  | [] => Ok ([], [], [])
  | AtOpt n v :: l' =>
      p <- xoval v ;; r <- xattrs l' k ;;
      let '(os, ans, cs) := r in Ok ((n, p) :: os, ans, cs)
  | AtAn a :: l' =>
      r1 <- xan a k ;; r <- xattrs l' (snd r1) ;;
      let '(os, ans, cs) := r in Ok (os, fst r1 :: ans, cs)
  | AtCtrl c :: l' =>
      c' <- xctrl c ;; r <- xattrs l' k ;;
      let '(os, ans, cs) := r in Ok (os, ans, c' :: cs)
  end.

(* ---- hdl21.proto.ProtoExporter.export_module, names and identities only.  Repaired code (c391423): the name is
        checked when it is chosen and again before it is registered, after the instantiated modules were exported.
        The model reserves the name when it is chosen; both reject exactly the hierarchies in which a module and a
        (transitive) child carry one qualified name, and the package of an accepted hierarchy is the same. ---- *)
Record pst := { reserved : list string; done : list (N * string) }.
Fixpoint xmod (m : hmod) (st : pst) : result pst :=
  match m with
  | HMod id name kids =>
      if existsb (fun e => N.eqb (fst e) id) (done st) then Ok st            (* already exported *)
      else if mem_str name (reserved st) then Error EName                    (* conflicting name *)
      else
        st2 <- seq_fold xmod kids {| reserved := name :: reserved st; done := done st |} ;;
        Ok {| reserved := reserved st2; done := done st2 ++ [(id, name)] |}
  end.

(* ---- SimProtoExporter.export ---- *)
Definition export_one (pkg : list (N * string)) (s : sim) : result siminput :=
  if negb (one_scalar_port (tb_ports (s_tb s))) then Error EBadKind          (* data.is_tb *)
  else
    r <- xattrs (s_attrs s) 0 ;;
    let '(os, ans, cs) := r in
    Ok {| o_top := mod_name (tb_mod (s_tb s)); o_pkg := pkg; o_opts := os; o_an := ans; o_ctrls := cs |}.

(* ---- sim.proto.to_proto on a Sim (singleton list) or a list of Sims ---- *)
Definition export_all (l : list sim) : result (list siminput) :=
  st <- seq_fold xmod (map (fun s => tb_mod (s_tb s)) l) {| reserved := []; done := [] |} ;;
  traverse (export_one (done st)) l.

(* ------------------------------------------------------------------------------------------ *)
(* building a Sim                                                                              *)
(* ------------------------------------------------------------------------------------------ *)
Inductive centry := CeTb (t : tbdesc) | CeName (s : string) | CeAttr (a : attr) | CeOther.
Inductive build :=
| BProc (t : tbdesc) (attrs : list attr)                 (* Sim(tb=..., attrs=[...]) *)
| BAdd (t : tbdesc) (groups : list (list attr))          (* Sim(tb=...); then one add call or add-method call per group *)
| BClass (entries : list (string * centry)).             (* @sim class body, in definition order *)

(* `val.name = key` in `sim` (repaired: attributes without a name field and Options keep what they have) *)
Definition set_an_name (key : string) (a : analysis) : analysis :=
  match a with
  | AOp _ => AOp (Some key)
  | ADc v sw _ => ADc v sw (Some key)
  | AAc a b n _ => AAc a b n (Some key)
  | ATran t ts _ => ATran t ts (Some key)
  | ANoise o s a b n _ => ANoise o s a b n (Some key)
  | ASweep i v sw _ => ASweep i v sw (Some key)
  | AMonte i n _ => AMonte i n (Some key)
  | ACustom c _ => ACustom c (Some key)
  end.
Definition set_name (key : string) (a : attr) : attr :=
  match a with
  | AtAn x => AtAn (set_an_name key x)
  | AtCtrl (CMeas an e _) => AtCtrl (CMeas an e (Some key))
  | AtCtrl (CParam _ v) => AtCtrl (CParam (Some key) v)
  | AtCtrl _ => a                    (* Include/Lib names are not exported; Save and Literal have none *)
  | AtOpt _ _ => a
  end.

Definition protected_names : list string := ["attrs"; "add"; "run"; "namespace"]%string.

Fixpoint class_scan (es : list (string * centry)) (tb : option tbdesc) (acc : list attr)
  : result (option tbdesc * list attr) :=
  match es with
  | [] => Ok (tb, acc)
  | (key, v) :: es' =>
      if mem_str key protected_names then Error EName
      else if String.eqb key "tb" || String.eqb key "Tb" then
        match v with CeTb t => class_scan es' (Some t) acc | _ => Error EBadKind end
      else if String.eqb key "name" then class_scan es' tb acc
      else match v with
           | CeAttr a => class_scan es' tb (acc ++ [if String.eqb key "_" then a else set_name key a])
           | _ => class_scan es' tb acc          (* forgotten *)
           end
  end.

Definition construct (b : build) : result sim :=
  match b with
  | BProc t attrs => Ok {| s_tb := t; s_attrs := attrs |}
  | BAdd t groups => Ok {| s_tb := t; s_attrs := concat groups |}
  | BClass es =>
      r <- class_scan es None [] ;;
      match fst r with
      | None => Error EMissing                                         (* No `tb` defined *)
      | Some t => if one_scalar_port (tb_pre_ports t) then Ok {| s_tb := t; s_attrs := snd r |}
                  else Error EBadKind                                   (* Invalid testbench *)
      end
  end.
