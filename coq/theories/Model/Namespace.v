(* Model/Namespace.v — executable model of hdl21/module.py and hdl21/bundle.py attribute storage
   (the REPAIRED code: fixes C18-1..3), branch by branch:

     Module.__setattr__ / Bundle.__setattr__   -> step (SetAttr ..)
     Module.add / Bundle.add                   -> step (Add ..)
     module._add / bundle._add                 -> do_add
     __delattr__                               -> step (Del ..)
     Module.get / __getattr__                  -> get / getattr
     module() / bundle() decorators            -> of_class_body

   Python dicts are insertion-ordered association lists: `d[k] = v` replaces in place or appends
   (`upd`), `del d[k]` removes (`rem`). *)
Require Import Hdl21.Base.PyInt Hdl21.Spec.Namespace.
From Coq Require Import String Ascii.
Require Import Hdl21Gen.Banned.
Open Scope string_scope.
Open Scope Z_scope.

Definition assoc := list (name * value).

Fixpoint lookup (n : name) (l : assoc) : option value :=
  match l with
  | [] => None
  | (m, v) :: t => if String.eqb n m then Some v else lookup n t
  end.

Fixpoint upd (n : name) (v : value) (l : assoc) : assoc :=
  match l with
  | [] => [(n, v)]
  | (m, w) :: t => if String.eqb n m then (m, v) :: t else (m, w) :: upd n v t
  end.

Fixpoint rem (n : name) (l : assoc) : assoc :=
  match l with
  | [] => []
  | (m, w) :: t => if String.eqb n m then rem n t else (m, w) :: rem n t
  end.

Definition has (n : name) (l : assoc) : bool :=
  match lookup n l with Some _ => true | None => false end.

Definition view_eqb (a b : view) : bool :=
  match a, b with
  | VPorts, VPorts | VSignals, VSignals | VInstances, VInstances
  | VInstArrays, VInstArrays | VInstBundles, VInstBundles | VBundles, VBundles => true
  | _, _ => false
  end.

Definition all_views : list view := [VPorts; VSignals; VInstances; VInstArrays; VInstBundles; VBundles].
(* the containers `_add` loops over *)
Definition views_of (c : ctr) : list view :=
  match c with CModule => all_views | CBundle => [VSignals; VBundles] end.

Record state := St {
  st_ns : assoc;                 (* namespace *)
  st_views : view -> assoc;      (* ports, signals, instances, instarrays, instbundles, bundles *)
  st_elab : bool;                (* _elaborated is set *)
  st_owned : list Z              (* objects whose _parent_module / _parent_bundle is this container *)
}.

Definition init : state := St [] (fun _ => []) false [].

(* module.py:_add / bundle.py:_add *)
Definition do_add (c : ctr) (s : state) (n : name) (v : value) : result state :=
  if st_elab s then Error EOther
  else if reserved c n then Error EName
  else match view_of c (v_kind v) with
  | None => Error EBadKind
  | Some k =>
      let v' := store_name v n in
      (* another container holds the name: the attribute is replaced there and in the namespace *)
      let stale := existsb (fun k' => negb (view_eqb k' k) && has n (st_views s k')) (views_of c) in
      let ns0 := if stale then rem n (st_ns s) else st_ns s in
      Ok (St (upd n v' ns0)
             (fun k' => if view_eqb k' k then upd n v' (st_views s k) else rem n (st_views s k'))
             (st_elab s)
             (v_id v :: st_owned s))
  end.

Definition is_bundle (c : ctr) : bool := match c with CBundle => true | CModule => false end.

Definition step (c : ctr) (s : state) (o : op) : result state :=
  match o with
  | SetAttr n v =>
      if is_private n then Ok s                                   (* regular object.__setattr__ *)
      else if mem n (banned_names c) then Error EName
      else if String.eqb n "name"
      then match v_kind v with KStr => Ok s | _ => Error EBadKind end
      else if is_bundle c && String.eqb n "roles" then Error EBadKind   (* only RoleSets, which are no `value`s *)
      else if negb (is_attr c (v_kind v)) then Error EBadKind
      else do_add c s n v
  | Add v on =>
      if negb (is_attr c (v_kind v)) then Error EBadKind
      else match on, v_name v with
      | None, None => Error EName
      | Some _, Some _ => Error EName
      | Some n, None => do_add c s n v
      | None, Some n => do_add c s n v
      end
  | Del _ => Error EOther
  | Elaborate => Ok (St (st_ns s) (st_views s) true (st_owned s))
  end.

(* an exception leaves the container as it was *)
Definition apply (c : ctr) (s : state) (o : op) : state :=
  match step c s o with Ok s' => s' | Error _ => s end.

Definition run (c : ctr) (ops : list op) : state := fold_left (apply c) ops init.

(* get(name) *)
Definition get (s : state) (n : name) : option value := lookup n (st_ns s).

(* attribute access c.n : Python finds instance and class attributes first (exactly the public attribute
   names of the class, regenerated from the live classes), then __getattr__ consults the namespace *)
Inductive attr_result := AObj (v : value) | APython | AMissing.
Definition getattr (c : ctr) (s : state) (n : name) : attr_result :=
  if mem n (public_attrs c) then APython
  else if is_private n then APython            (* Python-private attributes: not modelled *)
  else match lookup n (st_ns s) with Some v => AObj v | None => AMissing end.

(* module() / bundle(): one pass over the class dictionary, in order *)
Definition class_rejects_key (c : ctr) (k : name) : bool :=
  match c with CModule => mem k module_banned | CBundle => mem k bundle_protected end.

Fixpoint of_class_body (c : ctr) (s : state) (items : list (name * value)) : result state :=
  match items with
  | [] => Ok s
  | (k, v) :: t =>
      if class_rejects_key c k then Error EName
      else if is_bundle c && (String.eqb k "roles" || String.eqb k "Roles")
      then Error EBadKind                                           (* setattr(bundle, "roles", v): v is no RoleSet *)
      else if is_attr c (v_kind v)
      then (s' <- step c s (SetAttr k v) ;; of_class_body c s' t)
      else of_class_body c s t                                      (* forgotten *)
  end.

(* the same edits written procedurally, stopping at the first exception *)
Fixpoint run_strict (c : ctr) (s : state) (ops : list op) : result state :=
  match ops with
  | [] => Ok s
  | o :: t => s' <- step c s o ;; run_strict c s' t
  end.
