(* Model/C04EOrd.v — the design of a state of the books with every instance's connections in the ORDER OF ITS `conns` DICT.
   Model/C04EBridge.v:design_of lists the connections of an instance in slot order.  The elaborator is handed them in the
   order of the `conns` dict, which depends on the history (a new key goes last, a replaced key keeps its place, a popped
   key is gone).  design_ord u l reads the association list l (= st_conns) entry by entry; the lanes of a bundle-valued port
   stay together, in slot order.  The order decides in which order the pipeline model (and the code) invents signals. *)
From Coq Require Import String.
Require Import Hdl21.Base.PyInt Hdl21.Spec.PySlice Hdl21.Model.Slice Hdl21.Model.Resolve Hdl21.Base.Design Hdl21.Base.Package
               Hdl21.Model.C04ConnOps Hdl21.Spec.C04LastWrite Hdl21.Model.C01EElab Hdl21.Model.C01FElab Hdl21.Model.C04EBridge.
Open Scope Z_scope.

Definition lane_entry (u : universe) (e : pid * C04ConnOps.conn) (s : uslot) : list (name * sx) :=
  if us_port s =? snd (fst e) then [(us_name s, conn_sx u (snd e) s)] else [].

Definition entry_conns (u : universe) (x : uinst) (e : pid * C04ConnOps.conn) : list (name * sx) :=
  if fst (fst e) =? ui_id x then flat_map (lane_entry u e) (ui_slots x) else [].

Definition inst_ord (u : universe) (l : list (pid * C04ConnOps.conn)) (x : uinst) : inst :=
  {| i_name := ui_name x; i_n := ui_n x; i_of := ui_of x; i_conns := flat_map (entry_conns u x) l |}.

Definition top_ord (u : universe) (l : list (pid * C04ConnOps.conn)) : module :=
  {| m_name := u_name u; m_ports := u_ports u; m_sigs := u_sigs u; m_insts := map (inst_ord u l) (u_insts u);
     m_leaves := u_leaves u |}.

Definition design_ord (u : universe) (l : list (pid * C04ConnOps.conn)) : design :=
  {| d_mods := u_lib u ++ [top_ord u l]; d_top := Datatypes.length (u_lib u) |}.

Definition state_design_ord (u : universe) (s : state) : design := design_ord u (st_conns s).

Definition pkg_of_state_ord (xi : xinfo) (u : universe) (s : state) : result package :=
  elab_export_model2 xi (state_design_ord u s).
