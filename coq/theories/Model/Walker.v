(* Model/Walker.v — hdl21/walker.py HierarchyWalker specialised by the PDK walkers (visit_primitive_call),
   with the per-parameter device-call caches (prim_dicts.py CACHE, module scope; SamplePdkWalker.mos_modcalls,
   Asap7Walker.mos_modcalls, walker scope).

   The design is the hierarchy as the walker traverses it: a tree of modules, instances and instance targets.
   `visit_instance` only assigns `inst.of`; `visit_module` visits every instance in order; a module that is the
   target of several instances is visited once per instance (no memo).  The walkers mutate the shared module
   object in place; the tree model rewrites every occurrence, and the threaded cache makes all occurrences of
   one (group, parameters) key receive the same call object (theorem same_key_same_call).
   A device call is identified by the number `c_id` it received when created (object identity on the Python side). *)
From Coq Require Import String.
Require Import Hdl21.Base.PyInt Hdl21.Spec.PdkSpec Hdl21.Model.PdkSelect.
Open Scope string_scope.
Open Scope list_scope.
Open Scope Z_scope.

Record call := { c_id : N; c_spec : callspec }.

Inductive target :=
| TMod (m : module)
| TPrim (p : prim) (prm : pparams)        (* PrimitiveCall *)
| TCall (c : call)                         (* ExternalModuleCall created by a PDK compilation *)
| TExt (name : string)                     (* any other ExternalModuleCall *)
with module := Mod (name : string) (insts : ilist)
with ilist := INil | ICons (iname : string) (conns : list (string * string)) (of : target) (rest : ilist).

Scheme target_mut := Induction for target Sort Prop
  with module_mut := Induction for module Sort Prop
  with ilist_mut := Induction for ilist Sort Prop.
Combined Scheme design_mutind from target_mut, module_mut, ilist_mut.

Definition ckey := (group * pparams)%type.
Definition ckey_eqb (a b : ckey) : bool := group_eqb (fst a) (fst b) && pparams_eqb (snd a) (snd b).

Fixpoint lookup (k : ckey) (c : list (ckey * call)) : option call :=
  match c with [] => None | (k', v) :: r => if ckey_eqb k k' then Some v else lookup k r end.

Record wst := { cache : list (ckey * call); next : N }.

(* <group>_module_call : cache lookup, else build the call, cache it *)
Definition module_call (k : pdk) (g : group) (prm : pparams) (st : wst) : sel (call * wst) :=
  match lookup (g, prm) (cache st) with
  | Some c => SOk (c, st)
  | None =>
      cs <~ conv_g k g prm ;;
      let c := {| c_id := next st; c_spec := cs |} in
      SOk (c, {| cache := ((g, prm), c) :: cache st; next := N.succ (next st) |})
  end.

Fixpoint visit_target (k : pdk) (st : wst) (t : target) {struct t} : sel (target * wst) :=
  match t with
  | TMod m => r <~ visit_module k st m ;; SOk (TMod (fst r), snd r)
  | TPrim p prm =>
      match group_of k p with
      | None => SOk (t, st)                                   (* "return everything else as-is" *)
      | Some g => r <~ module_call k g prm st ;; SOk (TCall (fst r), snd r)
      end
  | TCall _ | TExt _ => SOk (t, st)                           (* visit_external_module_call: base implementation *)
  end
with visit_module (k : pdk) (st : wst) (m : module) {struct m} : sel (module * wst) :=
  match m with Mod name insts => r <~ visit_insts k st insts ;; SOk (Mod name (fst r), snd r) end
with visit_insts (k : pdk) (st : wst) (l : ilist) {struct l} : sel (ilist * wst) :=
  match l with
  | INil => SOk (INil, st)
  | ICons n c t rest =>
      r1 <~ visit_target k st t ;;
      r2 <~ visit_insts k (snd r1) rest ;;
      SOk (ICons n c (fst r1) (fst r2), snd r2)
  end.

(* Sky130 / GF180 keep their caches at module scope; the sample PDK and ASAP7 create them per walker *)
Definition global_cache (k : pdk) : bool := match k with Sky130 | Gf180 => true | _ => false end.

(* <pdk>.compile(src) for a module *)
Definition compile (k : pdk) (st : wst) (m : module) : sel (module * wst) :=
  visit_module k (if global_cache k then st else {| cache := []; next := next st |}) m.

Definition st0 : wst := {| cache := []; next := 0%N |}.
