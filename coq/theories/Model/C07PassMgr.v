(* Model/C07PassMgr.v — the elaboration pass manager as an abstract machine over a design DAG (property C07).

   Follows hdl21/elab/elab.py:Elaborator.elaborate (for each pass ENTRY of the list, in order: `elabpass.elaborate(tops)`),
   hdl21/elab/passes/base.py:ElabPass.elaborate_tops / elaborate_module_base (done-check against the CLASS-LEVEL cache of
   the entry's class, children first in instance order, then the pass body `elaborate_module`, then `done.add(module)`),
   hdl21/elab/passes/flatten_bundles.py (the body of the flattening entry first stores `module._pre_flattening_io`),
   hdl21/elab/passes/portrefs.py:io_for_resolving and conntypes.py:io_for_checking (what a body reads FROM A CHILD:
   the snapshot when it exists, otherwise the child's current bundle-level io; from the flattening entry on, the child's
   flattened io, which lives in `child.ports` and in THE_CACHE.flat_bundle_ports[(child, portname)]),
   hdl21/elab/passes/mark_modules.py (`module._elaborated = module`) and hdl21/module.py:_add (refuses once marked),
   hdl21/proto/exporting.py:to_proto / hdl21/netlisting.py:netlist (elaborate the tops, then walk them with maps that
   live for one call only; dependencies are exported before the module that instantiates them).

   Modules are natural numbers; module i instantiates `kids d i` (a list, with repetitions: two instances of one
   module), and a well-formed design has every child id below its parent id, so the hierarchy is a DAG by construction
   (Python cannot build a cyclic hierarchy of Modules without generators; the `pending` set that reports cycles is
   modelled in C08).  The pass BODIES are abstract: `body k m views c` is the new content of module m when entry k runs
   on it, as a function of m's current content and of the VIEWS of its children, nothing else — this is the read
   discipline; the theorems hold for every such body. *)
Require Import Hdl21.Base.PyInt.
From Coq Require Import String.
Require Import Hdl21Gen.DefaultPasses.
Local Open Scope nat_scope.
Local Open Scope list_scope.

Definition mid := nat.
Definition design := list (list mid).
Definition kids (d : design) (m : mid) : list mid := nth m d [].

(* every child id is below its parent id *)
Fixpoint wf_from (i : nat) (d : design) : bool :=
  match d with
  | [] => true
  | ks :: d' => forallb (fun c => c <? i) ks && wf_from (S i) d'
  end.
Definition wf_design (d : design) : bool := wf_from 0 d.

(* ---- the pass table: cache index of every entry, position of the flattening and of the marking entry ---- *)
Definition table_caches (t : list (string * string * Z)) : list nat := map (fun e => Z.to_nat (snd e)) t.
Fixpoint find_kind (k : string) (t : list (string * string * Z)) (i : nat) : option nat :=
  match t with
  | [] => None
  | e :: t' => if String.eqb (snd (fst e)) k then Some i else find_kind k t' (S i)
  end.
Definition default_caches : list nat := table_caches default_passes.
Definition default_bf : option nat := find_kind "BundleFlattener" default_passes 0.
Definition default_mk : option nat := find_kind "MarkModules" default_passes 0.

Fixpoint nat_mem (x : nat) (l : list nat) : bool :=
  match l with [] => false | y :: l' => (x =? y) || nat_mem x l' end.
(* an entry is EFFECTIVE when no earlier entry of the list is of the same class (shares its class-level cache):
   a repeated class finds every module in the cache its first occurrence filled, and never runs a body *)
Definition eff (caches : list nat) (k : nat) : bool := negb (nat_mem (nth k caches 0) (firstn k caches)).
Fixpoint next_eff_aux (caches : list nat) (n j : nat) : nat :=
  match n with 0 => j | S n' => if eff caches j then j else next_eff_aux caches n' (S j) end.
(* the first effective entry at or after j; the length of the list when there is none *)
Definition next_eff (caches : list nat) (j : nat) : nat := next_eff_aux caches (List.length caches - j) j.

Fixpoint caches_distinct (l : list nat) : bool :=
  match l with [] => true | x :: l' => negb (nat_mem x l') && caches_distinct l' end.

Inductive op :=
| Elaborate (tops : list mid)
| Export (tops : list mid)          (* h.to_proto *)
| Netlist (tops : list mid)         (* h.netlist *)
| NewParent (ks : list mid)         (* a new Module instantiating existing ones; its id is the next free one *)
| Add (m : mid) (a : nat).          (* module.add(...) / setattr(module, ...): a = code of the attribute (kind, name, new or re-used) *)

Section Machine.
  Variables C IO FIO : Type.        (* content of a module; bundle-level io; flattened io *)
  Variable init : mid -> C.         (* the module as the designer wrote it *)
  Variable bio : C -> IO.           (* io(module) while bundle-valued ports are still bundles *)
  Variable fio : C -> FIO.          (* module.ports and the flat_bundle_ports entries of the module, once flattened *)

  (* what a pass body may read from a child *)
  Record view := View { v_mid : mid; v_bundle : IO; v_flat : option FIO }.

  Variable body : nat -> mid -> list view -> C -> C.
  Variable addc : nat -> C -> C.    (* an accepted `module.add(...)` of the attribute with code a *)

  Variable caches : list nat.       (* cache index of every pass entry, in list order *)
  Variables bf mk : nat.            (* the entry that flattens bundles, the entry that marks modules *)

  Definition npass : nat := List.length caches.
  Definition cache_of (k : nat) : nat := nth k caches 0.

  Record state := State {
    s_design : design;
    s_done : nat -> mid -> bool;            (* CLASS_LEVEL_CACHE.done of each cache *)
    s_content : mid -> C;
    s_snap : mid -> option IO;              (* module._pre_flattening_io *)
    s_marked : mid -> bool;                 (* module._elaborated is not None *)
    s_stage : mid -> nat;                   (* ghost: the next entry that would still run a body on the module *)
    s_log : list (nat * mid * list view);   (* ghost: newest first: entry, module, the views its body read *)
    s_err : bool                            (* recursion fuel exhausted (shown unreachable) *)
  }.

  Definition init_state (d : design) : state :=
    State d (fun _ _ => false) init (fun _ => None) (fun _ => false) (fun _ => 0) [] false.

  Definition upd {A} (f : mid -> A) (m : mid) (a : A) : mid -> A := fun x => if x =? m then a else f x.
  Definition upd2 (f : nat -> mid -> bool) (c : nat) (m : mid) : nat -> mid -> bool :=
    fun c' x => if (c' =? c) && (x =? m) then true else f c' x.

  (* io_for_resolving / io_for_checking / flat_bundle_ports / target.ports, seen from entry k *)
  Definition view_of (k : nat) (st : state) (c : mid) : view :=
    View c
         (match s_snap st c with Some b => b | None => bio (s_content st c) end)
         (if bf <=? k then Some (fio (s_content st c)) else None).

  (* result = self.elaborate_module(module); pending.remove; done.add *)
  Definition run_body (d : design) (k : nat) (m : mid) (st : state) : state :=
    let c := s_content st m in
    let vs := map (view_of k st) (kids d m) in
    State (s_design st)
          (upd2 (s_done st) (cache_of k) m)
          (upd (s_content st) m (body k m vs c))
          (if k =? bf then upd (s_snap st) m (Some (bio c)) else s_snap st)
          (if k =? mk then upd (s_marked st) m true else s_marked st)
          (upd (s_stage st) m (next_eff caches (S k)))
          ((k, m, vs) :: s_log st)
          (s_err st).

  Definition set_err (st : state) : state :=
    State (s_design st) (s_done st) (s_content st) (s_snap st) (s_marked st) (s_stage st) (s_log st) true.

  (* elaborate_module_base *)
  Fixpoint visit (d : design) (fuel : nat) (k : nat) (m : mid) (st : state) : state :=
    if s_done st (cache_of k) m then st else
    match fuel with
    | 0 => set_err st
    | S f => run_body d k m (fold_left (fun s c => visit d f k c s) (kids d m) st)
    end.

  (* ElabPass.elaborate(tops) of entry k *)
  Definition pass_loop (d : design) (tops : list mid) (st : state) (k : nat) : state :=
    fold_left (fun s t => visit d (S t) k t s) tops st.

  (* Elaborator.elaborate(tops) *)
  Definition elab_call (tops : list mid) (st : state) : state :=
    fold_left (pass_loop (s_design st) tops) (seq 0 npass) st.

  (* ProtoExporter.export: dependencies first, every module once *)
  Fixpoint dfs (d : design) (fuel : nat) (m : mid) (acc : list mid) : list mid :=
    if nat_mem m acc then acc else
    match fuel with
    | 0 => acc
    | S f => m :: fold_left (fun a c => dfs d f c a) (kids d m) acc
    end.
  Definition export_order (d : design) (tops : list mid) : list mid :=
    rev (fold_left (fun a t => dfs d (S t) t a) tops []).
  Definition package (st : state) (tops : list mid) : list (mid * C) :=
    map (fun m => (m, s_content st m)) (export_order (s_design st) tops).

  Inductive resp :=
  | RDone | RPkg (p : list (mid * C)) | RNew (m : mid) | RRefused | RAccepted | RBad.

  Definition all_below (n : nat) (l : list mid) : bool := forallb (fun t => t <? n) l.

  Definition step (st : state) (o : op) : state * resp :=
    let n := List.length (s_design st) in
    match o with
    | Elaborate tops => if all_below n tops then (elab_call tops st, RDone) else (st, RBad)
    | Export tops | Netlist tops =>
        if all_below n tops then let st' := elab_call tops st in (st', RPkg (package st' tops)) else (st, RBad)
    | NewParent ks =>
        if all_below n ks
        then (State (s_design st ++ [ks]) (s_done st) (s_content st) (s_snap st) (s_marked st) (s_stage st)
                    (s_log st) (s_err st), RNew n)
        else (st, RBad)
    | Add m a =>
        if s_marked st m then (st, RRefused)       (* refused: NOTHING changes, whatever the attribute *)
        else if m <? n
        then (State (s_design st) (s_done st) (upd (s_content st) m (addc a (s_content st m))) (s_snap st)
                    (s_marked st) (s_stage st) (s_log st) (s_err st), RAccepted)
        else (st, RBad)
    end.

  Fixpoint run (st : state) (h : list op) : state * list resp :=
    match h with
    | [] => (st, [])
    | o :: h' => let '(st1, r) := step st o in let '(st2, rs) := run st1 h' in (st2, r :: rs)
    end.

  Definition is_edit (r : resp) : bool := match r with RAccepted => true | _ => false end.
  Definition log_keys (l : list (nat * mid * list view)) : list (nat * mid) := map fst l.
End Machine.

Arguments View {IO FIO}.
Arguments v_mid {IO FIO}.
Arguments v_bundle {IO FIO}.
Arguments v_flat {IO FIO}.
Arguments s_design {C IO FIO}.
Arguments s_done {C IO FIO}.
Arguments s_content {C IO FIO}.
Arguments s_snap {C IO FIO}.
Arguments s_marked {C IO FIO}.
Arguments s_stage {C IO FIO}.
Arguments s_log {C IO FIO}.
Arguments s_err {C IO FIO}.
