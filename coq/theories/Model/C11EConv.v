(* Model/C11EConv.v — C11E: the package the exporter model writes (Base/Package.v `package`, the type of
   Model/C01EElab.v:export_model and of the pipeline model Model/C01FElab.v:elab_export_model2), read in the types of the
   round-trip model Model/C11RoundTrip.v (`c11pkg`), and the round trip's normal form as ONE boolean predicate.

   to_c11 reads
     - module / instance / signal names, widths, literals, references, connection targets:           unchanged;
     - port directions: Base/Package.v holds the integer of vlsir.circuit.Port.Direction, c11pkg the member name; the table
       Hdl21Gen.C11EMaps.direction_codes is regenerated from the live enum (tools/translators/11e_dir_codes.py); a number that
       is no member becomes "?" (not a direction: the normal form is then false);
     - external modules: Base/Package.v keeps the PORT list (name, width, direction); c11pkg also has the SIGNAL list.
       export_external_module writes one signal per port, in port order; to_c11_ext rebuilds the signal list so
       (DROPPED by Base/Package.v: the order of `signals` of an external module where it differs from the port order - the
       exporter never writes such a message; the correspondence run compares the rebuilt list with the real one);
     - parameter values: Base/Package.v holds the TEXT harness/impl/designlib.py:pval_str prints for a ParamValue
       ("int:5", "dbl:0x1.8p+1", "str:..", "lit:..", "pre:MILLI:i5", "pre:UNIT:d<hex>", "pre:UNIT:s<text>");
       parse_pvalue reads it back.  Integers are read strictly (Python's str(int): the text must print back).
       The decimal text of a prefixed number with a string value ("pre:P:s1.5") is read by parse_dec into the Decimal's
       (sign, coefficient, exponent) triple - strictly: the text must be what that Decimal prints as (dec_str = Python's
       Decimal.__str__; the C11 harness demands the same: str(Decimal(s)) == s), otherwise it stays NRaw, which the round-trip
       model refuses (xinfo_c11_ok false: the theorems claim nothing there).  parse_pvalue is validated against the live
       ParamValue messages by the stream `ptext` of the tie (harness/impl/c11e.py).
       Text that is no pval_str output becomes VUnset (never normal);
     - parameter `desc`, module / external-module `parameters`, `desc`: in neither type. *)
Require Import Hdl21.Base.PyInt Hdl21.Spec.PySlice Hdl21.Model.Slice Hdl21.Model.Resolve Hdl21.Base.Design
               Hdl21.Base.Package Hdl21.Base.Dec Hdl21.Base.PrimTable Hdl21.Model.C11RoundTrip Hdl21.Proofs.C11Proofs
               Hdl21.Model.C01EElab.
Require Import Hdl21Gen.C11Maps Hdl21Gen.C11EMaps.
From Coq Require Import String Ascii DecimalString.
Open Scope string_scope.
Open Scope Z_scope.

(* ------------------------------------------------------------------------------------------ parameter text *)
(* Python's str(int), strictly: the text must be what the integer prints as *)
Definition parse_Z (s : string) : option Z :=
  match NilZero.int_of_string s with
  | Some i => let z := Z.of_int i in
              if String.eqb (NilZero.string_of_int (Z.to_int z)) s then Some z else None
  | None => None
  end.

(* ---- Decimal text: Python's str(Decimal) of a finite Decimal, and its strict reader ---- *)
Definition is_digit (c : ascii) : bool := let n := nat_of_ascii c in (48 <=? n)%nat && (n <=? 57)%nat.
Fixpoint all_digits (s : string) : bool := match s with EmptyString => true | String c r => is_digit c && all_digits r end.
(* the longest prefix of digits, and the rest *)
Fixpoint span_digits (s : string) : string * string :=
  match s with
  | EmptyString => (EmptyString, EmptyString)
  | String c r => if is_digit c then let '(a, b) := span_digits r in (String c a, b) else (EmptyString, s)
  end.
Definition digits_N (s : string) : option N :=
  match s with EmptyString => None | _ => if all_digits s then option_map N.of_uint (NilZero.uint_of_string s) else None end.
Definition N_str (n : N) : string := NilZero.string_of_uint (N.to_uint n).
Fixpoint zeros (n : nat) : string := match n with O => EmptyString | S k => String "0" (zeros k) end.
Fixpoint take (n : nat) (s : string) : string := match n, s with S k, String c r => String c (take k r) | _, _ => EmptyString end.
Fixpoint drop (n : nat) (s : string) : string := match n, s with S k, String _ r => drop k r | _, _ => s end.
Definition zlenS (s : string) : Z := Z.of_nat (String.length s).

(* decimal.Decimal.__str__ (scientific notation, not engineering) of a finite Decimal *)
Definition dec_str (d : Dec.dec) : string :=
  let ds := N_str (dcoef d) in
  let leftdigits := dexp d + zlenS ds in
  let dotplace := if (dexp d <=? 0) && (-6 <? leftdigits) then leftdigits else 1 in
  let body :=
    if dotplace <=? 0 then "0." ++ zeros (Z.to_nat (- dotplace)) ++ ds
    else if zlenS ds <=? dotplace then ds ++ zeros (Z.to_nat (dotplace - zlenS ds))
    else take (Z.to_nat dotplace) ds ++ "." ++ drop (Z.to_nat dotplace) ds in
  let e := leftdigits - dotplace in
  let ex := if e =? 0 then "" else "E" ++ (if e <? 0 then "-" else "+") ++ N_str (Z.to_N (Z.abs e)) in
  (if dsign d then "-" else "") ++ body ++ ex.

(* [-]digits[.digits][E(+|-)digits] -> (sign, coefficient, exponent) *)
Definition parse_dec_loose (s : string) : option Dec.dec :=
  let '(sg, s1) := match s with String "-" r => (true, r) | _ => (false, s) end in
  let '(ip, s2) := span_digits s1 in
  let '(fp, s3) := match s2 with String "." r => span_digits r | _ => (EmptyString, s2) end in
  match digits_N (ip ++ fp) with
  | None => None
  | Some c =>
      match s3 with
      | EmptyString => Some (mkDec sg c (- zlenS fp))
      | String "E" (String sc r) =>
          match digits_N r with
          | Some e => if Ascii.eqb sc "+" then Some (mkDec sg c (Z.of_N e - zlenS fp))
                      else if Ascii.eqb sc "-" then Some (mkDec sg c (- Z.of_N e - zlenS fp)) else None
          | None => None
          end
      | _ => None
      end
  end.

(* strictly: the text must be what the Decimal prints as (the harness's `str(Decimal(s)) == s`) *)
Definition parse_dec (s : string) : option Dec.dec :=
  match parse_dec_loose s with
  | Some d => if String.eqb (dec_str d) s then Some d else None
  | None => None
  end.

(* text before the first ':' and text after it *)
Fixpoint split_colon (s : string) : option (string * string) :=
  match s with
  | EmptyString => None
  | String c r =>
      if Ascii.eqb c ":"%char then Some (EmptyString, r)
      else match split_colon r with
           | Some (a, b) => Some (String c a, b)
           | None => None
           end
  end.

Definition parse_pvalue (s : string) : pvalue :=
  match split_colon s with
  | Some (tag, rest) =>
      if String.eqb tag "int" then match parse_Z rest with Some z => VInt z | None => VUnset end
      else if String.eqb tag "dbl" then VDbl rest
      else if String.eqb tag "str" then VStr rest
      else if String.eqb tag "lit" then VLit rest
      else if String.eqb tag "pre" then
        match split_colon rest with
        | Some (pre, String k txt) =>
            if Ascii.eqb k "i"%char then match parse_Z txt with Some z => VPre pre (NInt z) | None => VUnset end
            else if Ascii.eqb k "d"%char then VPre pre (NDbl txt)
            else if Ascii.eqb k "s"%char then VPre pre (match parse_dec txt with Some d => NDec d | None => NRaw txt end)
            else VUnset
        | _ => VUnset
        end
      else VUnset
  | None => VUnset
  end.

Definition to_c11_params (ps : list (name * string)) : params := map (fun kv => (fst kv, parse_pvalue (snd kv))) ps.

(* ------------------------------------------------------------------------------------------ directions *)
Definition dir_name (code : Z) : string := match zassoc code direction_codes with Some n => n | None => "?" end.

(* ------------------------------------------------------------------------------------------ the package *)
Definition to_c11_inst (i : pinst) : c11inst :=
  {| ci_name := pi_name i; ci_ref := pi_ref i; ci_params := to_c11_params (pi_params i); ci_conns := pi_conns i |}.

Definition to_c11_mod (m : pmodule) : c11mod :=
  {| cm_name := pm_name m; cm_sigs := pm_sigs m; cm_ports := map (fun pd => (fst pd, dir_name (snd pd))) (pm_ports m);
     cm_insts := map to_c11_inst (pm_insts m); cm_literals := pm_literals m |}.

Definition to_c11_ext (x : pext) : c11ext :=
  {| cx_domain := px_domain x; cx_name := px_name x;
     cx_sigs := map (fun pwd : name * Z * Z => (fst (fst pwd), snd (fst pwd))) (px_ports x);
     cx_ports := map (fun pwd : name * Z * Z => (fst (fst pwd), dir_name (snd pwd))) (px_ports x);
     cx_spicetype := px_spicetype x |}.

Definition to_c11 (p : package) : c11pkg :=
  {| ck_domain := pk_domain p; ck_exts := map to_c11_ext (pk_exts p); ck_mods := map to_c11_mod (pk_mods p) |}.

(* ------------------------------------------------------------------------------------------ the normal form, as a boolean *)
(* Every hypothesis of C11_pkg_roundtrip_partial / C11_mod_roundtrip, decidable:
     - external modules: distinct (domain, name), each ext_normal;
     - modules in package order, each against the modules BEFORE it: name not used before, signals = internal signals then
       ports in port order with distinct names and vlsir directions, distinct instance names;
     - an instance of a module: the module stands earlier (find_c11mod), no parameters, connections name its ports once, every
       target normal (signals of width >= 1, proper slices, flat non-empty concatenations);
     - an instance of a declared external module (domain not one of the three primitive domains): dict_params_normal;
     - an instance of a primitive: reference + parameter list are a fixed point of rt_ref BY COMPUTATION (the list-level
       theorem for primitive parameters is the part of C11 that is not proved: notes/C11.md), connections name ports of the
       primitive the importer finds. *)
Definition params_eqb (a b : params) : bool := list_eqb (pair_eqb String.eqb pvalue_eqb) a b.

Definition inst_normal (exts : list c11ext) (earlier : list c11mod) (sigs : list (name * Z)) (i : c11inst) : bool :=
  match ci_ref i with
  | PLocal nm =>
      match find_c11mod earlier nm with
      | Some m' => match ci_params i with [] => true | _ => false end &&
                   conns_normal sigs (map fst (cm_ports m')) (ci_conns i)
      | None => false
      end
  | PExt dom nm =>
      if is_prim_domain dom then
        match rt_ref [] [] (PExt dom nm) (ci_params i) with
        | Ok (r, ps, ports) => pref_eqb r (PExt dom nm) && params_eqb ps (ci_params i) && conns_normal sigs ports (ci_conns i)
        | Error _ => false
        end
      else
        match find_c11ext exts dom nm with
        | Some x => dict_params_normal (ci_params i) && conns_normal sigs (map fst (cx_sigs x)) (ci_conns i)
        | None => false
        end
  end.

Definition mod_normal (exts : list c11ext) (earlier : list c11mod) (m : c11mod) : bool :=
  mod_normal_head earlier m && forallb (inst_normal exts earlier (cm_sigs m)) (cm_insts m).

Fixpoint mods_normal (exts : list c11ext) (earlier : list c11mod) (ms : list c11mod) : bool :=
  match ms with
  | [] => true
  | m :: r => mod_normal exts earlier m && mods_normal exts (earlier ++ [m]) r
  end.

Definition c11_normal (p : c11pkg) : bool :=
  nodup_ext_names (ck_exts p) && forallb ext_normal (ck_exts p) && mods_normal (ck_exts p) [] (ck_mods p).

(* ------------------------------------------------------------------------------------------ what the side table must say *)
(* xinfo (Model/C01EElab.v) is where the pipeline model takes the VLSIR spelling of leaf devices, external-module
   declarations and port directions from.  Beyond xinfo_ok (identity strings and port lists agree with the design), the round
   trip needs of EVERY entry:
     - a device with its own declaration is not in a primitive domain, its declaration is ext_normal once read as c11ext
       (distinct port names, vlsir directions, a schema spice type), its parameter texts parse to normal dict values with
       distinct names;
     - a device without declaration is in a primitive domain and (reference, parsed parameters) is a fixed point of rt_ref by
       computation; the ports of the primitive-library entry the design's port list is checked against (dev_decl) are ports of
       the primitive the importer finds;
     - every direction code in x_dirs - and the code 0 export_module writes for a port the table does not list - is a member
       of vlsir.circuit.Port.Direction. *)
Definition dev_c11_ok (v : devinfo) : bool :=
  let ps := to_c11_params (dv_params v) in
  match dv_ext v with
  | Some e => negb (is_prim_domain (dv_dom v)) && ext_normal (to_c11_ext e) && dict_params_normal ps
  | None =>
      is_prim_domain (dv_dom v) &&
      match rt_ref [] [] (PExt (dv_dom v) (dv_name v)) ps, dev_decl v with
      | Ok (r, ps', ports), Some e =>
          pref_eqb r (PExt (dv_dom v) (dv_name v)) && params_eqb ps' ps &&
          forallb (fun pw : name * Z => C11RoundTrip.smem (fst pw) ports) (ext_ports e)
      | _, _ => false
      end
  end.

Definition dir_code_ok (c : Z) : bool := C11RoundTrip.smem (dir_name c) direction_names.

Definition xinfo_c11_ok (xi : xinfo) : bool :=
  forallb (fun dv : name * devinfo => dev_c11_ok (snd dv)) (x_devs xi) &&
  forallb (fun ml : name * list (name * Z) => forallb (fun pc : name * Z => dir_code_ok (snd pc)) (snd ml)) (x_dirs xi) &&
  dir_code_ok 0.
