(* Model/C07EConcrete.v — the CONCRETE instance of the pass manager of Model/C07PassMgr.v for the core fragment of
   Base/Design.v (signals, buses, slices / concatenations, whole-connection port references, no-connects, instance
   arrays, hierarchy, primitive / external leaves; no bundles).

     content of a module     ccont   = the module of Base/Design.v as it stands + the error that stopped its elaboration
                                       (base.py: `module._elab_failure`; once set, no pass touches the module again)
     bundle-level io = flattened io  = the module's port list (no bundle-valued ports in the fragment)
     body k m views c        cbody   = the per-module function of entry k of Hdl21Gen.DefaultPasses (dispatched on the entry's
                                       built-in kind), taken from Model/C01EElab.v (portrefs_module, arrays_module,
                                       slices_module) and Model/C02EPipeline.v (orphanage_check, conntypes_check,
                                       mark_check).  Those functions take a whole design `d` but look at it only through
                                       `target_ports d (i_of x)`; the body hands them `vdesign views`: a design made of
                                       NOTHING but the child views (port lists) - so a body cannot read anything else of a
                                       child, by construction; Proofs/C07EProofsExt.v proves that this is all the
                                       whole-design functions ever read (portrefs_module_ext, arrays_module_ext, ...).
     what a body reads of a child     vports  = io_for_resolving / io_for_checking / target.ports: the flattened io when the
                                       manager hands it out (from the flattening entry on), else the bundle-level io.

   `ck` switches the checking entries (Orphanage, ConnTypes and their post-flattening repeats, MarkModules' name check)
   on: with `ck = true` the manager computes Model/C02EPipeline.v:checked_elab, with `ck = false` Model/C01EElab.v:
   elab_model (Props/C07E.v). *)
From Coq Require Import String.
Require Import Hdl21.Base.PyInt Hdl21.Spec.PySlice Hdl21.Model.Slice Hdl21.Model.Resolve Hdl21.Base.Design
               Hdl21.Spec.WfDesign Hdl21.Base.Package Hdl21.Model.Checks Hdl21.Model.C02Checks Hdl21.Model.C01EElab
               Hdl21.Model.C02EPipeline.
Require Hdl21.Model.C07PassMgr.
Require Import Hdl21Gen.DefaultPasses.
Module PM := Hdl21.Model.C07PassMgr.
Open Scope string_scope.
Open Scope list_scope.
Open Scope Z_scope.

Definition ports := list (name * Z).
Definition cview := PM.view ports ports.

Record ccont := { cc_mod : module; cc_err : option err }.
Definition cbio (c : ccont) : ports := m_ports (cc_mod c).
Definition cok (m : module) : ccont := {| cc_mod := m; cc_err := None |}.

(* ------------------------------------------------------------------------------------------------ what a body sees *)
Definition vports (v : cview) : ports := match PM.v_flat v with Some f => f | None => PM.v_bundle v end.

Fixpoint find_view (k : nat) (vs : list cview) : option cview :=
  match vs with
  | [] => None
  | v :: r => if Nat.eqb (PM.v_mid v) k then Some v else find_view k r
  end.

Definition stub (ps : ports) : module := {| m_name := ""; m_ports := ps; m_sigs := []; m_insts := []; m_leaves := [] |}.

(* a design that holds the views and nothing else: module k = the port list of the view of child k *)
Definition vdesign (vs : list cview) : design :=
  {| d_mods := map (fun k => match find_view k vs with Some v => stub (vports v) | None => stub [] end)
                   (seq 0 (S (fold_right Nat.max 0%nat (map (@PM.v_mid ports ports) vs))));
     d_top := 0 |}.

(* ------------------------------------------------------------------------------------------------ the pass bodies *)
Definition chk_mod (f : module -> result unit) (m : module) : result module := _ <- f m ;; Ok m.

(* the per-module function of a built-in pass; `d` is all it may know about other modules *)
Definition kind_fn (ck : bool) (xi : xinfo) (kind : string) (self : nat) (d : design) (m : module) : result module :=
  if String.eqb kind "Orphanage" then (if ck then chk_mod (orphanage_check self) m else Ok m)
  else if String.eqb kind "InstBundleElabPass" then Ok m                    (* no instance bundles in the fragment *)
  else if String.eqb kind "ResolvePortRefs" then portrefs_module d (ncnames xi m) m
  else if String.eqb kind "ConnTypes" then (if ck then chk_mod (conntypes_check d self) m else Ok m)
  else if String.eqb kind "BundleFlattener" then Ok m                       (* no bundles in the fragment *)
  else if String.eqb kind "ArrayFlattener" then arrays_module d m
  else if String.eqb kind "SliceResolver" then slices_module m
  else if String.eqb kind "MarkModules" then (if ck then chk_mod (mark_check self) m else Ok m)
  else Error EOther.                                                        (* a pass this model does not know *)

Definition kind_at (k : nat) : string :=
  match nth_error default_passes k with Some e => snd (fst e) | None => "" end.

(* try: result = self.elaborate_module(module) / except: module._elab_failure = e *)
Definition lift (f : module -> result module) (c : ccont) : ccont :=
  match cc_err c with
  | Some _ => c
  | None => match f (cc_mod c) with
            | Ok m' => cok m'
            | Error e => {| cc_mod := cc_mod c; cc_err := Some e |}
            end
  end.

Definition cbody (ck : bool) (xi : xinfo) (k : nat) (m : PM.mid) (vs : list cview) (c : ccont) : ccont :=
  lift (kind_fn ck xi (kind_at k) m (vdesign vs)) c.

(* an accepted module.add(...): a new internal signal (only ever applies to modules no call has reached) *)
Definition caddc (a : nat) (c : ccont) : ccont :=
  {| cc_mod := {| m_name := m_name (cc_mod c); m_ports := m_ports (cc_mod c);
                  m_sigs := m_sigs (cc_mod c) ++ [("late_addition", Z.of_nat (S a))];
                  m_insts := m_insts (cc_mod c); m_leaves := m_leaves (cc_mod c) |};
     cc_err := cc_err c |}.

(* ------------------------------------------------------------------------------------------------ the design DAG *)
Definition inst_kid (x : inst) : list nat := match i_of x with TMod k => [k] | TDev _ _ => [] end.
(* elaborate_module_base: module.instances, then module.instarrays *)
Definition mod_kids (m : module) : list nat :=
  flat_map inst_kid (filter single (m_insts m) ++ filter (fun x => negb (single x)) (m_insts m)).
Definition ckids (d : design) : PM.design := map mod_kids (d_mods d).

Definition cinit (d : design) (m : PM.mid) : ccont :=
  match nth_error (d_mods d) m with
  | Some md => cok md
  | None => {| cc_mod := stub []; cc_err := Some EMissing |}
  end.

(* ------------------------------------------------------------------------------------------------ the pass list *)
Definition ccaches : list nat := PM.default_caches.
Definition cbf : nat := match PM.default_bf with Some b => b | None => 0%nat end.
Definition cmk : nat := match PM.default_mk with Some b => b | None => 0%nat end.
Definition cP : nat := Datatypes.length ccaches.

Definition cstate := PM.state ccont ports ports.
Definition cstep (ck : bool) (xi : xinfo) := PM.step ccont ports ports cbio cbio (cbody ck xi) caddc ccaches cbf cmk.
Definition crun (ck : bool) (xi : xinfo) := PM.run ccont ports ports cbio cbio (cbody ck xi) caddc ccaches cbf cmk.
Definition cfresh (d : design) : cstate := PM.init_state ccont ports ports (cinit d) (ckids d).

(* histories of elaborate / to_proto / netlist calls only *)
Definition is_call (o : PM.op) : bool :=
  match o with PM.Elaborate _ | PM.Export _ | PM.Netlist _ => true | _ => false end.
Definition op_tops (o : PM.op) : list PM.mid :=
  match o with PM.Elaborate t | PM.Export t | PM.Netlist t => t | _ => [] end.

(* ------------------------------------------------------------------------------------------------ module by module *)
(* the per-module function of the whole default list, reading the REAL design d (through target_ports only):
   what the whole-design pipeline does to module `self` *)
Definition stage_fn (ck : bool) (xi : xinfo) (d : design) (k : nat) (self : nat) (m : module) : result module :=
  kind_fn ck xi (kind_at k) self d m.
Definition run_stages (ck : bool) (xi : xinfo) (d : design) (self : nat) (ks : list nat) (c : ccont) : ccont :=
  fold_left (fun c k => lift (stage_fn ck xi d k self) c) ks c.
Definition eff_stages (n : nat) : list nat := filter (PM.eff ccaches) (seq 0 n).
Definition elab_mod (ck : bool) (xi : xinfo) (d : design) (self : nat) : ccont :=
  run_stages ck xi d self (eff_stages cP) (cinit d self).

(* ------------------------------------------------------------------------------------------------ reading a state *)
Definition cont_result (c : ccont) : result module :=
  match cc_err c with Some e => Error e | None => Ok (cc_mod c) end.
(* the design the manager holds: every module as it stands; an Error if elaboration failed in one of them *)
Definition state_design (d : design) (st : cstate) : result design :=
  ms <- traverse (fun k => cont_result (PM.s_content st k)) (seq 0 (Datatypes.length (d_mods d))) ;;
  Ok {| d_mods := ms; d_top := d_top d |}.
(* the package of the answer of an Export / Netlist call: the modules it lists replace the written ones *)
Fixpoint subst_mods (ms : list module) (p : list (PM.mid * ccont)) : result (list module) :=
  match p with
  | [] => Ok ms
  | (k, c) :: r =>
      m <- cont_result c ;;
      subst_mods (firstn k ms ++ m :: skipn (S k) ms) r
  end.
Definition answer_package (xi : xinfo) (d : design) (top : nat) (p : list (PM.mid * ccont)) : result package :=
  ms <- subst_mods (d_mods d) p ;; export_model xi {| d_mods := ms; d_top := top |}.

(* ------------------------------------------------------------------------------------------------ failure points (C08E) *)
(* the error the body of entry p raises in module m: the body runs on what the earlier entries left of m - if one of them
   failed, the module is refused before any body runs (base.py: `raise module._elab_failure`) and entry p fails nowhere *)
Definition fail_at (ck : bool) (xi : xinfo) (d : design) (m p : nat) : option err :=
  if negb (PM.eff ccaches p) then None else
  let c := run_stages ck xi d m (eff_stages p) (cinit d m) in
  match cc_err c with
  | Some _ => None
  | None => match stage_fn ck xi d p m (cc_mod c) with Error e => Some e | Ok _ => None end
  end.

Definition err_code (e : err) : Z :=
  match e with
  | EOutOfBounds => 1 | EEmptySlice => 2 | EZeroStep => 3 | EWidth => 4 | EBadKind => 5 | EUnresolved => 6 | EFuel => 7
  | EName => 8 | EMissing => 9 | EExtra => 10 | EOrphan => 11 | ENoConn => 12 | ECycle => 13 | EOther => 14
  end.

(* the failure oracle of Model/C08PassFail.v for a written design: (pass class = cache index, module, error identity) *)
Definition failure_points_with (enc : nat -> nat -> err -> Z) (ck : bool) (xi : xinfo) (d : design) : list (nat * nat * Z) :=
  flat_map (fun m => flat_map (fun p => match fail_at ck xi d m p with
                                        | Some e => [(PM.cache_of ccaches p, m, enc p m e)]
                                        | None => []
                                        end) (seq 0 cP))
           (seq 0 (Datatypes.length (d_mods d))).
Definition failure_points := failure_points_with (fun _ _ e => err_code e).
