(* Model/PdkSelect.v — device selection and parameter translation of the four PDK walkers, branch by branch
   (repaired code: fixes C15-1..8).  Every `raise` the code contains is an explicit error value; every exception
   that would ESCAPE from an internal lookup (KeyError of a default table, StopIteration, UnboundLocalError,
   TypeError of a parameter-class mismatch or of arithmetic on a non-number) is the distinct value EEscape,
   shown unreachable by the theorems of Props/C15.v.

   anchors: pdks/Sky130/sky130_hdl21/pdk_logic.py  Sky130Walker.{mos,res,cap,diode,bjt}_module{,_call}, use_defaults, scale_param
            pdks/Gf180/gf180_hdl21/pdk_logic.py    Gf180Walker (all methods)
            pdks/Asap7/asap7_hdl21/pdk.py          Asap7Walker.mos_module{,_call}
            hdl21/pdk/sample_pdk/pdk.py            SamplePdkWalker.mos_module, mos_params, mos_module_call *)
From Coq Require Import String Ascii.
Require Import Hdl21.Base.PyInt Hdl21.Spec.PdkSpec.
Require Import Hdl21Gen.PrimitivePorts Hdl21Gen.PdkTables_sample Hdl21Gen.PdkTables_sky130
               Hdl21Gen.PdkTables_gf180 Hdl21Gen.PdkTables_asap7.
Open Scope string_scope.
Open Scope list_scope.
Open Scope Z_scope.

Inductive perr :=
| ENoDevice      (* RuntimeError "No ... module for ..."            *)
| EAmbiguous     (* RuntimeError "Mos module choice not well-defined" (GF180) *)
| EBadParam      (* ValueError raised by a parameter class / int()   *)
| EEscape.       (* an internal exception escaping: never for table entries (theorems no_escape) *)

Inductive sel (A : Type) := SOk (a : A) | SErr (e : perr).
Arguments SOk {A} a.
Arguments SErr {A} e.
Definition sbind {A B} (r : sel A) (f : A -> sel B) : sel B := match r with SOk a => f a | SErr e => SErr e end.
Notation "x <~ r ;; k" := (sbind r (fun x => k)) (at level 61, r at next level, right associativity).

Definition of_opt {A} (o : option A) (e : perr) : sel A := match o with Some a => SOk a | None => SErr e end.

(* what a walker builds for one primitive call: the device and the parameter fields it sets explicitly *)
Definition callspec := (dev * list (string * pv))%type.

(* ---- selection *)
(* [v for k, v in xtors.items() if params.model in k][0]  /  IndexError -> RuntimeError *)
Definition by_model (tbl : list entry) (m : string) : sel entry :=
  of_opt (find (fun e => mem m (key_names (fst e))) tbl) ENoDevice.

(* ress.get(params.model) : exact dictionary key; a None model finds nothing *)
Definition get_exact (tbl : list entry) (m : option string) : sel entry :=
  match m with
  | Some m => of_opt (find (fun e => strs_eqb (fst e) [m]) tbl) ENoDevice
  | None => SErr ENoDevice
  end.

(* the subset loop: every one of (type, family, threshold) is a member of the key tuple *)
Definition subset (tbl : list entry) (args : list string) : list entry :=
  filter (fun e => forallb (fun a => mem a (fst e)) args) tbl.

Definition triple (prm : pparams) : list string := [pm_tp prm; pm_fam prm; pm_vth prm].

Definition sky_mos_module (prm : pparams) : sel entry :=
  match pm_model prm with
  | Some m => by_model sky130_xtors m
  | None => match subset sky130_xtors (triple prm) with
            | [] => SErr ENoDevice                  (* fix C15-4; was: StopIteration *)
            | e :: _ => SOk e                       (* first match in table order *)
            end
  end.

Definition gf_mos_module (prm : pparams) : sel entry :=
  match pm_model prm with
  | Some m => by_model gf180_xtors m
  | None => match subset gf180_xtors (triple prm) with
            | [] => SErr ENoDevice                  (* fix C15-1; was: StopIteration for every input *)
            | [e] => SOk e
            | _ => SErr EAmbiguous
            end
  end.

(* ---- sizes *)
(* use_defaults: the default table is only consulted for an absent size; a missing entry would be a KeyError *)
Definition use_default (given : option pv) (d : option pv) : sel pv :=
  match given with Some v => SOk v | None => of_opt d EEscape end.

Definition defaults2 (name : string) (t : list (string * size2)) : option pv * option pv :=
  match assoc name t with Some (w, l) => (Some (num_of w), Some (num_of l)) | None => (None, None) end.

(* scale_param of Sky130 / GF180 (for an already defaulted value) *)
Definition scale (v : pv) : sel pv :=
  match v with
  | PNum _ _ => SOk v
  | PLit s => SOk (PLit (grouped_scaled s))                    (* fix C15-9: `(({text}) * 1e6)` *)
  | _ => SErr EEscape
  end.

(* `x or default` on an optional Scalar (Prefixed and Literal objects are always truthy) *)
Definition or_dflt (o : option pv) (d : pv) : pv := match o with Some v => v | None => d end.
Definition one : pv := PNum 1 1.

Fixpoint contains (pat s : string) : bool :=
  String.prefix pat s || match s with EmptyString => false | String _ r => contains pat r end.

(* ExternalModuleCall.__post_init__ : isinstance(params, module.paramtype), else TypeError *)
Definition mkcall (e : entry) (cls : string) (fields : list (string * pv)) : sel callspec :=
  if String.eqb (dev_class (snd e)) cls then SOk (snd e, fields) else SErr EEscape.

(* int(params.mult) *)
Definition to_int (o : option pv) : sel pv :=
  match o with
  | None => SOk one
  | Some (PNum n d) => if (0 <? d) && (n mod d =? 0) then SOk (PNum (n / d) 1) else SErr EBadParam
  | Some _ => SErr EBadParam
  end.

Definition sky_sizes (prm : pparams) (e : entry) (t : list (string * size2)) : sel (pv * pv) :=
  let '(dw, dl) := defaults2 (dev_name (snd e)) t in
  w0 <~ use_default (pm_w prm) dw ;; l0 <~ use_default (pm_l prm) dl ;;
  w <~ scale w0 ;; l <~ scale l0 ;; SOk (w, l).

Definition num_pair (prm : pparams) : option ((Z * Z) * (Z * Z)) :=
  match pm_w prm, pm_l prm with Some (PNum a b), Some (PNum c d) => Some ((a, b), (c, d)) | _, _ => None end.

Definition sky130_call (g : group) (prm : pparams) : sel callspec :=
  match g with
  | GMos =>
      e <~ sky_mos_module prm ;;
      wl <~ sky_sizes prm e sky130_default_xtor_size ;;
      if contains "20v" (dev_name (snd e))
      then mkcall e "Sky130Mos20VParams" [("w", fst wl); ("l", snd wl); ("m", or_dflt (pm_mult prm) one)]
      else mkcall e "MosParams" [("w", fst wl); ("l", snd wl); ("nf", or_dflt (pm_nf prm) one); ("mult", or_dflt (pm_mult prm) one)]
  | GRes =>
      e <~ get_exact sky130_ress (pm_model prm) ;;
      if String.eqb (dev_class (snd e)) "Sky130GenResParams" then
        wl <~ sky_sizes prm e sky130_default_gen_res_size ;;
        mkcall e "Sky130GenResParams" [("w", fst wl); ("l", snd wl)]
      else if String.eqb (dev_class (snd e)) "Sky130PrecResParams" then
        l <~ of_opt (assoc (dev_name (snd e)) sky130_default_prec_res_L) EEscape ;;
        mkcall e "Sky130PrecResParams" [("l", num_of l)]
      else SErr EEscape                              (* modparams unbound *)
  | GCap =>
      e <~ get_exact sky130_caps (pm_model prm) ;;
      m <~ to_int (pm_mult prm) ;;
      if String.eqb (dev_class (snd e)) "Sky130MimParams" then
        wl <~ sky_sizes prm e sky130_default_cap_sizes ;;
        mkcall e "Sky130MimParams" [("w", fst wl); ("l", snd wl); ("mf", m)]
      else if String.eqb (dev_class (snd e)) "Sky130VarParams" then
        wl <~ sky_sizes prm e sky130_default_cap_sizes ;;
        mkcall e "Sky130VarParams" [("w", fst wl); ("l", snd wl); ("vm", m)]
      else SErr EEscape
  | GDiode =>
      e <~ get_exact sky130_diodes (pm_model prm) ;;
      match pm_w prm, pm_l prm with
      | Some w, Some l =>                            (* fix C15-5: both sizes must be present *)
          match w, l with
          | PNum a b, PNum c d =>
              mkcall e "Sky130DiodeParams" [("area", PNum (a * c * 1000000000000) (b * d));
                                            ("pj", PNum (2 * (a * d + c * b) * 1000000) (b * d))]
          | _, _ => SErr EEscape                     (* arithmetic on a Literal: TypeError *)
          end
      | _, _ => mkcall e "Sky130DiodeParams" []
      end
  | GBjt =>
      e <~ get_exact sky130_bjts (pm_model prm) ;;
      m <~ to_int (pm_mult prm) ;;
      mkcall e "Sky130BipolarParams" [("m", m)]
  end.

Definition gf_sizes (prm : pparams) (e : entry) (t : list (string * size2)) : sel (pv * pv) :=
  let '(dw, dl) := defaults2 (dev_name (snd e)) t in
  w <~ use_default (pm_w prm) dw ;; l <~ use_default (pm_l prm) dl ;; SOk (w, l).

Definition gf180_call (g : group) (prm : pparams) : sel callspec :=
  match g with
  | GMos =>
      e <~ gf_mos_module prm ;;
      wl <~ gf_sizes prm e gf180_default_xtor_size ;;
      mkcall e "MosParams" [("w", fst wl); ("l", snd wl); ("nf", or_dflt (pm_nf prm) one); ("m", or_dflt (pm_mult prm) one)]
  | GRes =>
      e <~ get_exact gf180_ress (pm_model prm) ;;
      wl <~ gf_sizes prm e gf180_default_res_size ;;
      mkcall e "GF180ResParams" [("r_width", fst wl); ("r_length", snd wl)]
  | GCap =>
      e <~ get_exact gf180_caps (pm_model prm) ;;
      w <~ scale (or_dflt (pm_w prm) one) ;; l <~ scale (or_dflt (pm_l prm) one) ;;
      mkcall e "GF180CapParams" [("c_width", w); ("c_length", l)]
  | GDiode =>
      e <~ get_exact gf180_diodes (pm_model prm) ;;
      wl <~ gf_sizes prm e gf180_default_diode_size ;;
      match fst wl, snd wl with
      | PNum a b, PNum c d =>
          mkcall e "GF180DiodeParams" [("area", PNum (a * c) (b * d)); ("pj", PNum (2 * (a * d + c * b)) (b * d))]
      | _, _ => SErr EEscape
      end
  | GBjt =>
      e <~ get_exact gf180_bjts (pm_model prm) ;;
      mkcall e "GF180BipolarParams" [("m", or_dflt (pm_mult prm) one)]
  end.

Definition opt_pv (o : option pv) : pv := match o with Some v => v | None => PNone end.

Definition asap7_call (prm : pparams) : sel callspec :=
  e <~ of_opt (find (fun e => strs_eqb (fst e) [pm_tp prm; pm_vth prm]) asap7_mos_modules) ENoDevice ;;
  (* asdict(params) without "vth" *)
  mkcall e "dict" [("w", opt_pv (pm_w prm)); ("l", opt_pv (pm_l prm)); ("nf", opt_pv (pm_nf prm)); ("mult", opt_pv (pm_mult prm));
                   ("tp", PStr (pm_tp prm)); ("family", PStr (pm_fam prm));
                   ("model", match pm_model prm with Some m => PStr m | None => PNone end)].

(* SamplePdkMosParams.__post_init__ : non-positive numeric sizes are a ValueError; a Literal is not compared (fix C15-7) *)
Definition positive (v : pv) : sel unit :=
  match v with
  | PNum n d => if (0 <? n) && (0 <? d) then SOk tt else SErr EBadParam
  | PLit _ => SOk tt
  | _ => SErr EEscape
  end.

Definition sample_call (prm : pparams) : sel callspec :=
  e <~ of_opt (find (fun e => strs_eqb (fst e) [if String.eqb (pm_tp prm) "MosType.PMOS" then "MosType.PMOS" else "MosType.NMOS"])
                    sample_mos_modules) EEscape ;;
  let mu := PNum 1 1000000 in
  let w := or_dflt (pm_w prm) mu in let l := or_dflt (pm_l prm) mu in let nf := or_dflt (pm_nf prm) one in
  _ <~ positive w ;; _ <~ positive l ;; _ <~ positive nf ;;
  mkcall e "SamplePdkMosParams" [("w", w); ("l", l); ("m", or_dflt (pm_mult prm) one); ("nf", nf)].

(* the device call built for a primitive of cache group g *)
Definition conv_g (k : pdk) (g : group) (prm : pparams) : sel callspec :=
  match k with
  | Sky130 => sky130_call g prm
  | Gf180 => gf180_call g prm
  | Asap7 => match g with GMos => asap7_call prm | _ => SErr EEscape end
  | Sample => match g with GMos => sample_call prm | _ => SErr EEscape end
  end.
