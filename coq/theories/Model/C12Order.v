(* Model/C12Order.v — the loops of the elaborator that iterate over hash-ordered back-reference SETS while
   rewriting the ordered connection dict of an instance, with the iteration order an explicit parameter `pi`.

   hdl21/elab/passes/flatten_bundles.py
     replace_bundle_inst :  for portref in list(bundle_inst._connected_ports): replace_bundle_conn(portref.inst, portref.portname, flat)
     resolve_bundleref   :  for connected_port in list(bref._connected_ports): replace_bundle_conn(...)
     replace_bundle_conn :  pinned   — inst.disconnect(portname); for each flattened port: inst.connect(flat_port.name, sig)
                            repaired — later = names after portname; disconnect; connect each; for name in later: conns[name] = conns.pop(name)
   hdl21/elab/helpers/resolve_ref_types.py
     update_ref_deps     :  for connected_port in list(ref._connected_ports): connected_port.inst.replace(portname, resolved)   (in place)
   hdl21/elab/passes/portrefs.py
     which_portref_to_name: pinned sorted(group, key=inst.name)[0]; repaired sorted(group, key=(inst.name, portname))[0]
   `conns` is Python's insertion-ordered dict: association list with `assign` (d[k] = v), `remove_key` (d.pop(k)).
   The model is restricted to the ports of ONE instance: steps on different instances touch different dicts. *)
Require Import Hdl21.Base.PyInt Hdl21.Spec.C12Repro.
From Coq Require Import String Ascii.
Open Scope string_scope.
Open Scope list_scope.

Fixpoint lookup (k : key) (c : conns) : option val :=
  match c with [] => None | (k', v) :: t => if String.eqb k k' then Some v else lookup k t end.

(* d.pop(k) for a present key *)
Fixpoint remove_key (k : key) (c : conns) : conns :=
  match c with [] => [] | (k', v) :: t => if String.eqb k k' then t else (k', v) :: remove_key k t end.

(* d[k] = v : in place when the key is present, appended otherwise *)
Fixpoint assign (k : key) (v : val) (c : conns) : conns :=
  match c with
  | [] => [(k, v)]
  | (k', v') :: t => if String.eqb k k' then (k, v) :: t else (k', v') :: assign k v t
  end.

Definition assign_all (new c : conns) : conns := fold_left (fun c kv => assign (fst kv) (snd kv) c) new c.

(* names after the first occurrence of k *)
Fixpoint after (k : key) (l : list key) : list key :=
  match l with [] => [] | x :: t => if String.eqb k x then t else after k t end.

(* conns[name] = conns.pop(name) *)
Definition move_to_end (c : conns) (n : key) : result conns :=
  match lookup n c with Some v => Ok (remove_key n c ++ [(n, v)]) | None => Error EMissing end.

Fixpoint move_all (ns : list key) (c : conns) : result conns :=
  match ns with [] => Ok c | n :: t => c' <- move_to_end c n ;; move_all t c' end.

(* `f k` = the flattened connections that replace the bundle-valued connection of port k
   (Error: a path of the bundle port has no counterpart in the connected bundle -> self.fail) *)
Definition flat_fn := key -> result conns.

(* replace_bundle_conn, pinned tree: pop, then append the flattened connections *)
Definition step_pinned (f : flat_fn) (c : conns) (k : key) : result conns :=
  if mem k (keys c) then
    match f k with Ok new => Ok (assign_all new (remove_key k c)) | Error _ => Error EMissing end
  else Error EMissing.

(* replace_bundle_conn, repaired tree *)
Definition step_repaired (f : flat_fn) (c : conns) (k : key) : result conns :=
  if mem k (keys c) then
    match f k with
    | Ok new => move_all (after k (keys c)) (assign_all new (remove_key k c))
    | Error _ => Error EMissing
    end
  else Error EMissing.

(* the loop over the back-reference set, visited in the order pi *)
Fixpoint run_loop (step : conns -> key -> result conns) (pi : list key) (c : conns) : result conns :=
  match pi with [] => Ok c | k :: t => c' <- step c k ;; run_loop step t c' end.

Definition run_pinned (f : flat_fn) := run_loop (step_pinned f).
Definition run_repaired (f : flat_fn) := run_loop (step_repaired f).

(* update_ref_deps: Instance.replace — assignment to a present key *)
Definition step_replace (v : val) (c : conns) (k : key) : result conns :=
  if mem k (keys c) then Ok (assign k v c) else Error EMissing.

(* ---- the flattening function, from the tables the code consults:
        bports: THE_CACHE.flat_bundle_ports[(inst.of, port)].signals  = ordered (path, flattened port name)
        flat  : the connected bundle's scope                          = path -> signal *)
Definition ptable := list (key * list (string * string)).
Fixpoint tlookup {A} (k : string) (t : list (string * A)) : option A :=
  match t with [] => None | (k', v) :: r => if String.eqb k k' then Some v else tlookup k r end.

Definition flat_of (bports : ptable) (flat : key -> list (string * string)) : flat_fn := fun k =>
  match tlookup k bports with
  | None => Error EMissing
  | Some fps => traverse (fun pf => match tlookup (fst pf) (flat k) with
                                    | Some s => Ok (snd pf, s)
                                    | None => Error EMissing end) fps
  end.

(* ---- which_portref_to_name *)
Definition unconnected (g : list pref) : list pref := filter (fun p => negb (pr_conn p)) g.

(* sorted(group, key)[0] with Python's stable sort = the FIRST minimal element *)
Definition first_min (lt : pref -> pref -> bool) (x : pref) (t : list pref) : pref :=
  fold_left (fun acc y => if lt y acc then y else acc) t x.

Definition inst_ltb (a b : pref) : bool := String.ltb (pr_inst a) (pr_inst b).
Definition pref_ltb (a b : pref) : bool := negb (pref_leb b a).

Definition which_with (lt : pref -> pref -> bool) (g : list pref) : result pref :=
  match unconnected g with
  | [x] => Ok x
  | _ :: _ :: _ => Error EOther                       (* self.fail("Invalid PortRef group") *)
  | [] => match g with [] => Error EOther | x :: t => Ok (first_min lt x t) end
  end.

Definition which_pinned := which_with inst_ltb.
Definition which_repaired := which_with pref_ltb.

(* ---- the same loops at module level: the back-reference set holds PortRefs (instance, port) of SEVERAL instances,
        each step rewrites the dict of its own instance *)
Definition mstate := list (string * conns).
Notation bref := (string * key)%type (only parsing).

Fixpoint upd_inst (i : string) (g : conns -> result conns) (m : mstate) : result mstate :=
  match m with
  | [] => Error EMissing
  | (j, c) :: t => if String.eqb i j then c' <- g c ;; Ok ((j, c') :: t)
                   else t' <- upd_inst i g t ;; Ok ((j, c) :: t')
  end.

Definition mstep (step : flat_fn -> conns -> key -> result conns) (f : string -> flat_fn) (m : mstate) (r : bref)
  : result mstate := upd_inst (fst r) (fun c => step (f (fst r)) c (snd r)) m.

Fixpoint mrun (step : flat_fn -> conns -> key -> result conns) (f : string -> flat_fn) (pi : list bref) (m : mstate)
  : result mstate :=
  match pi with [] => Ok m | r :: t => m' <- mstep step f m r ;; mrun step f t m' end.

(* the ports of instance i in a set of PortRefs, in the order of the enumeration *)
Definition ports_of (i : string) (pi : list bref) : list key :=
  map snd (filter (fun r => String.eqb (fst r) i) pi).
