(* Model/C16Flatten.v — model of hdl21/flatten.py (repaired: fixes/C16-1, C16-2), branch by branch.
   walk:     per instance, `new_conns` maps each connected port to the flat signal of the connected signal
             (`key in conns` -> the parent's flat signal; `key in m.signals` / `key in m.ports` -> a new signal named by
             the ':'-joined path; otherwise ValueError); a Slice/Concat connection raises NotImplementedError;
             primitive and external-module instances are yielded as leaves, sub-modules are walked with the new map.
   _claim:   every generated signal / instance name is claimed for the hierarchical object it was generated for
             (tuple of path names); a second claim of the same name by another object raises (C16-2).
   flatten:  an already flat module is returned as is; otherwise a new module with the top's ports, the signals of all
             leaf connections added BY NAME (a later signal of the same name replaces the earlier), and the leaves named by
             path and connected BY NAME.
   The model keeps hierarchical objects as name lists (innermost first) until the last step, where `flat_name` joins them. *)
Require Import Hdl21.Base.PyInt Hdl21.Base.Design Hdl21.Spec.C16Flat.
From Coq Require Import String.
Open Scope string_scope.
Open Scope list_scope.
Open Scope Z_scope.

Definition qsig := (hpath * name)%type.                 (* a signal of the hierarchy: path of its module, its name *)
Definition qn (q : qsig) : hpath := snd q :: fst q.     (* its qualified name, innermost first *)
Definition fsig := (qsig * Z)%type.                     (* ... with its width *)
Definition cenv := list (name * fsig).                  (* walk's `conns`: signal name of the current module -> flat signal *)

Record anode := { an_path : hpath; an_dev : name; an_dports : list (name * Z); an_conns : list (name * fsig) }.
Definition wout := (list anode * list hpath)%type.      (* yielded leaves, claimed qualified names in order *)

(* the body of walk's inner loop over inst.conns.items() *)
Fixpoint new_conns (p : hpath) (mports msigs : list (name * Z)) (env : cenv) (conns : list (name * hconn))
  : result (cenv * list hpath) :=
  match conns with
  | [] => Ok ([], [])
  | (port, c) :: rest =>
      match c with
      | COther => Error EBadKind
      | CSig key =>
          r <- match assoc key env with
               | Some f => Ok (f, [])
               | None =>
                   match assoc key msigs with
                   | Some w => Ok (((p, key), w), [key :: p])
                   | None => match assoc key mports with
                             | Some w => Ok (((p, key), w), [key :: p])
                             | None => Error EMissing
                             end
                   end
               end ;;
          rs <- new_conns p mports msigs env rest ;;
          Ok ((port, fst r) :: fst rs, snd r ++ snd rs)
      end
  end.

Section Collect.
Context {A : Type}.
Variable f : A -> result wout.
Fixpoint collect (l : list A) : result wout :=
  match l with
  | [] => Ok ([], [])
  | y :: l' => r1 <- f y ;; r2 <- collect l' ;; Ok (fst r1 ++ fst r2, snd r1 ++ snd r2)
  end.
End Collect.

Fixpoint walk_inst (p : hpath) (mports msigs : list (name * Z)) (env : cenv) (x : hinst) : result wout :=
  match x with
  | ILeaf nm dev dp conns =>
      nc <- new_conns p mports msigs env conns ;;
      Ok ([{| an_path := nm :: p; an_dev := dev; an_dports := dp; an_conns := fst nc |}], snd nc ++ [nm :: p])
  | ISub nm ports sigs body conns =>
      nc <- new_conns p mports msigs env conns ;;
      r <- collect (walk_inst (nm :: p) ports sigs (fst nc)) body ;;
      Ok (fst r, snd nc ++ snd r)
  end.

(* walk(m, parents=[]): conns = {**m.signals, **m.ports}, names = {name: (name,) for name in conns} *)
Definition top_env (t : hmod) : cenv := map (fun sw => (fst sw, (([], fst sw), snd sw))) (h_ports t ++ h_sigs t).
Definition top_claims (t : hmod) : list hpath := map (fun sw => [fst sw]) (h_ports t ++ h_sigs t).
Definition walk_top (t : hmod) : result wout := collect (walk_inst [] (h_ports t) (h_sigs t) (top_env t)) (h_body t).

(* _claim over the claims in order: names.setdefault(flat_name, qualname) != qualname -> raise *)
Fixpoint check_claims (reg : list (name * hpath)) (cl : list hpath) : result unit :=
  match cl with
  | [] => Ok tt
  | q :: cl' =>
      match assoc (flat_name q) reg with
      | Some q' => if hnames_eqb q' q then check_claims reg cl' else Error EName
      | None => check_claims ((flat_name q, q) :: reg) cl'
      end
  end.

Definition is_leafb (x : hinst) : bool := match x with ILeaf _ _ _ _ => true | ISub _ _ _ _ _ => false end.
Definition is_flat (t : hmod) : bool := forallb is_leafb (h_body t).

(* the flattened module *)
Record finst := { fi_name : name; fi_dev : name; fi_dports : list (name * Z); fi_conns : list (name * name) }.
Record fmod := { f_ports : list (name * Z); f_sigs : list (name * Z); f_insts : list finst }.

(* Module.add of a signal: a name denotes one attribute - a later signal of the same name replaces the earlier *)
Fixpoint put_sig (l : list (name * Z)) (s : name) (w : Z) : list (name * Z) :=
  match l with
  | [] => [(s, w)]
  | (s', w') :: l' => if String.eqb s s' then (s, w) :: l' else (s', w') :: put_sig l' s w
  end.

Definition fsig_name (f : fsig) : name := flat_name (qn (fst f)).

Definition add_sigs (ports : list (name * Z)) (sigs : list (name * Z)) (an : anode) : list (name * Z) :=
  fold_left (fun acc c => let f := snd c in if has_key (fsig_name f) ports then acc else put_sig acc (fsig_name f) (snd f))
            (an_conns an) sigs.

Definition build (t : hmod) (nodes : list anode) : fmod :=
  {| f_ports := h_ports t;
     f_sigs := fold_left (add_sigs (h_ports t)) nodes [];
     f_insts := map (fun an => {| fi_name := flat_name (an_path an); fi_dev := an_dev an; fi_dports := an_dports an;
                                  fi_conns := map (fun c => (fst c, fsig_name (snd c))) (an_conns an) |}) nodes |}.

Inductive fresult := FSame | FNew (f : fmod).

Definition flatten (t : hmod) : result fresult :=
  if is_flat t then Ok FSame else
  r <- walk_top t ;;
  _ <- check_claims [] (top_claims t ++ snd r) ;;
  Ok (FNew (build t (fst r))).

(* the flattened module read as a hierarchy (of depth one) *)
Definition finst_hinst (fi : finst) : hinst :=
  ILeaf (fi_name fi) (fi_dev fi) (fi_dports fi) (map (fun c => (fst c, CSig (snd c))) (fi_conns fi)).
Definition fmod_hmod (f : fmod) : hmod :=
  {| h_ports := f_ports f; h_sigs := f_sigs f; h_body := map finst_hinst (f_insts f) |}.
