(* Model/C04EPipe.v — the pipeline model run from a state of the connection books.
   The elaborator is handed the parent module as the books describe it: the pipeline model (Model/C01FElab.v:
   elab_export_model2 = ResolvePortRefs incl. nested references ; ArrayFlattener ; SliceResolver ; proto export) is run on
   the design Model/C04EBridge.v:state_design reads off `conns`.  It looks at `conns` only; that the code's group discovery,
   which ALSO walks the back-reference sets `_connected_ports`, sees the same groups is Props/C04E.v:C04E_groups_agree. *)
Require Import Hdl21.Base.PyInt Hdl21.Base.Design Hdl21.Base.Package Hdl21.Model.C04ConnOps Hdl21.Model.C01EElab
               Hdl21.Model.C01FElab Hdl21.Model.C04EBridge.

Definition pkg_of_state (xi : xinfo) (u : universe) (s : state) : result package :=
  elab_export_model2 xi (state_design u s).
