(* Model/BundleFlat.v — the algorithm of hdl21/elab/passes/flatten_bundles.py, function by function.

   flatten_bundle_inst_helper  -> flat_helper   (flip state threaded and toggled per level, role of the CONTAINING
                                                  instance, port-ness of the top instance, add_subscope with its collision error)
   BundleScope.signals          -> scope         (insertion-ordered dict keyed by Path = association list, appended at the end)
   base.py:flatname             -> flatname      (append "_" until free; fails beyond maxlen; explicit fuel)
   replace_bundle_inst          -> name_scope / replace_bundle_inst
   BundleFlattener.elaborate_module (while module.bundles: popitem) -> flatten_module  (last added instance first)
   replace_bundle_conn          -> replace_bundle_conn (child port paired with the parent-side member BY PATH)
   resolve_path                 -> resolve_path
   flatten_anonymous_bundle     -> flatten_anon
   signal.py:PortDir.flipped    -> dir_flipped ;  bundle.py:flipped() -> toggling of the instance's flag (Nat.iter) *)
From Coq Require Import String Ascii.
Require Import Hdl21.Base.PyInt Hdl21.Spec.BundleSpec.
Open Scope string_scope.
Open Scope list_scope.
Open Scope Z_scope.

(* PortDir.flipped *)
Definition dir_flipped (d : dir) : dir :=
  match d with
  | DIn => DOut
  | DOut => DIn
  | _ => d
  end.

(* BundleInstance.flipped after the constructor flag and k applications of h.flipped() (cp.flipped = not cp.flipped) *)
Definition inst_flipped (t : btree) : bool := Nat.iter (bnflip t) negb (bcflip t).

Definition role_is (r : role) (o : option role) : bool :=     (* bundle_inst.role == newsig.src *)
  match o with Some x => String.eqb r x | None => false end.

(* visibility and direction of one copied leaf *)
Definition leaf_vis_dir (is_port flip_state : bool) (r : option role) (l : leaf) : vis * dir :=
  if is_port then
    (VPort,
     if lport l then (if flip_state then dir_flipped (ldir l) else ldir l)
     else match r with
          | None => DNone
          | Some r => if role_is r (lsrc l) then DOut else if role_is r (ldest l) then DIn else DNone
          end)
  else (VInternal, DNone).

Definition pmem {A} (p : path) (sc : list (path * A)) : bool :=
  match passoc p sc with Some _ => true | None => false end.

(* the loop over bundle_def.signals *)
Fixpoint add_sigs (is_port flip_state : bool) (r : option role) (sigs : list leaf) (sc : scope) : result scope :=
  match sigs with
  | [] => Ok sc
  | l :: rest =>
      let p := [lname l] in
      if pmem p sc then Error EName       (* "Doubly defined Signal" *)
      else let '(v, d) := leaf_vis_dir is_port flip_state r l in
           add_sigs is_port flip_state r rest (sc ++ [(p, {| fname := lname l; fwidth := lwidth l; fvis := v; fdir := d |})])
  end.

(* BundleScope.add_subscope: prefix every path of the sub-scope; collision = error *)
Fixpoint add_subscope {A} (name : string) (sub : list (path * A)) (sc : list (path * A)) : result (list (path * A)) :=
  match sub with
  | [] => Ok sc
  | (suffix, s) :: rest =>
      let p := name :: suffix in
      if pmem p sc then Error EName       (* "colliding flattened Signal names" *)
      else add_subscope name rest (sc ++ [(p, s)])
  end.

Fixpoint flat_helper (is_port flip_state : bool) (t : btree) : result scope :=
  match t with
  | BT _ _ _ r sigs subs =>
      s0 <- add_sigs is_port flip_state r sigs [] ;;
      (fix go (l : list btree) (sc : scope) : result scope :=
         match l with
         | [] => Ok sc
         | sub :: rest =>
             let sub_flip := if inst_flipped sub then negb flip_state else flip_state in
             ss <- flat_helper is_port sub_flip sub ;;
             sc' <- add_subscope (bname sub) ss sc ;;
             go rest sc'
         end) subs s0
  end.

Definition flatten_bundle_inst (port : bool) (t : btree) : result scope :=
  flat_helper port (inst_flipped t) t.

(* ElabPass.flatname *)
Fixpoint flatname_loop (fuel : nat) (name : string) (avoid : list string) (maxlen : Z) : result string :=
  match fuel with
  | O => Error EFuel
  | S f =>
      if maxlen <? Z.of_nat (String.length name) then Error EName
      else if smem name avoid then flatname_loop f (name ++ "_")%string avoid maxlen
      else Ok name
  end.
Definition flatname (segs : list string) (avoid : list string) (maxlen : Z) : result string :=
  flatname_loop (Z.to_nat (maxlen + 2)) (join_us segs) avoid maxlen.

(* Path.to_name *)
Definition to_name (p : path) : string := join_us p.

(* replace_bundle_inst, naming part: rename every flattened signal and add it to the module namespace *)
Fixpoint name_scope (inst : string) (maxlen : Z) (sc : scope) (ns : list string) (acc : scope) : result (scope * list string) :=
  match sc with
  | [] => Ok (acc, ns)
  | (p, f) :: rest =>
      nm <- flatname [inst; to_name p] ns maxlen ;;
      name_scope inst maxlen rest (ns ++ [nm])
                 (acc ++ [(p, {| fname := nm; fwidth := fwidth f; fvis := fvis f; fdir := fdir f |})])
  end.

Definition replace_bundle_inst (maxlen : Z) (port : bool) (t : btree) (ns : list string) : result (scope * list string) :=
  flat <- flatten_bundle_inst port t ;;
  name_scope (bname t) maxlen flat ns [].

(* BundleFlattener.elaborate_module: `while module.bundles: popitem()` takes the most recently added instance first;
   its name leaves the namespace before its signals are named *)
Fixpoint remove_name (n : string) (l : list string) : list string :=
  match l with [] => [] | x :: xs => if String.eqb x n then xs else x :: remove_name n xs end.

Fixpoint flatten_insts (maxlen : Z) (insts : list (bool * btree)) (ns : list string) : result (list (string * scope) * list string) :=
  match insts with
  | [] => Ok ([], ns)
  | (port, t) :: rest =>
      r <- replace_bundle_inst maxlen port t (remove_name (bname t) ns) ;;
      let '(sc, ns') := r in
      r' <- flatten_insts maxlen rest ns' ;;
      let '(out, ns'') := r' in
      Ok ((bname t, sc) :: out, ns'')
  end.

(* ns0 = the names of everything else in the module; insts in the order they were added *)
Definition flatten_module (maxlen : Z) (ns0 : list string) (insts : list (bool * btree)) : result (list (string * scope) * list string) :=
  flatten_insts maxlen (rev insts) (ns0 ++ map (fun pt => bname (snd pt)) insts).

(* resolve_path on a flattened scope: a path names either one signal or the sub-scope below it.
   (The code walks nested scopes; every nested scope's signals are exactly the entries of the root scope below its path,
   re-keyed relative to it — that is what add_subscope establishes — so the sub-scope is computed from the root dict.) *)
Fixpoint strip_prefix (pre p : path) : option path :=
  match pre, p with
  | [], _ => Some p
  | x :: pre', y :: p' => if String.eqb x y then strip_prefix pre' p' else None
  | _ :: _, [] => None
  end.
Fixpoint subscope {A} (pre : path) (sc : list (path * A)) : list (path * A) :=
  match sc with
  | [] => []
  | (p, a) :: rest =>
      match strip_prefix pre p with
      | Some (x :: q) => (x :: q, a) :: subscope pre rest
      | _ => subscope pre rest
      end
  end.

(* replace_bundle_conn: for every flattened port of the child (in its order) look the SAME PATH up on the parent side *)
Fixpoint replace_bundle_conn {A} (child : scope) (parent : list (path * A)) : result (list (string * A)) :=
  match child with
  | [] => Ok []
  | (p, port) :: rest =>
      match passoc p parent with
      | None => Error EMissing          (* "Missing connection to `path`" *)
      | Some s => cs <- replace_bundle_conn rest parent ;; Ok ((fname port, s) :: cs)
      end
  end.

(* replace_bundle_conn as repaired (8fdfa58): everything the connected bundle brings along must have a place in the port's
   bundle - an anonymous bundle with a member the port does not have is refused - then the pairing above *)
Definition extra_members {A} (child : scope) (parent : list (path * A)) : list path :=
  filter (fun p => negb (pmem p child)) (map fst parent).
Definition replace_bundle_conn_checked {A} (child : scope) (parent : list (path * A)) : result (list (string * A)) :=
  match extra_members child parent with
  | [] => replace_bundle_conn child parent
  | _ :: _ => Error EExtra
  end.

(* flatten_anonymous_bundle: members are signals (kept by name), flattened bundle instances / resolved bundle references
   (sub-scopes) or nested anonymous bundles *)
Inductive anon (A : Type) :=
| ASig (a : A)
| AScope (sc : list (path * A))
| AAnon (members : list (string * anon A)).
Arguments ASig {A} a.
Arguments AScope {A} sc.
Arguments AAnon {A} members.

Fixpoint passign {A} (p : path) (a : A) (l : list (path * A)) : list (path * A) :=   (* dict[p] = a *)
  match l with
  | [] => [(p, a)]
  | (q, b) :: xs => if path_eqb q p then (q, a) :: xs else (q, b) :: passign p a xs
  end.

Fixpoint flatten_anon {A} (x : anon A) : result (list (path * A)) :=
  match x with
  | ASig _ => Error EBadKind              (* the port itself must be connected to a bundle, not a signal *)
  | AScope sc => Ok sc
  | AAnon members =>
      (fix go (l : list (string * anon A)) (sc : list (path * A)) : result (list (path * A)) :=
         match l with
         | [] => Ok sc
         | (n, ASig a) :: rest => go rest (passign [n] a sc)
         | (n, sub) :: rest => ss <- flatten_anon sub ;; sc' <- add_subscope n ss sc ;; go rest sc'
         end) members []
  end.
