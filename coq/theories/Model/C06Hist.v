(* Model/C06Hist.v — what reaches a RETURNED package after a history of elaborations, exports and re-targetings.

   hdl21/elab/elab.py Elaborator.elaborate runs every pass on the tops it is given; hdl21/elab/passes/base.py ElabPass.elaborate_tops
   visits the tops (a Module the pass completed in an earlier call is skipped, with everything below it) and then sweeps
   modules_below(tops): every Module reachable from the tops through Instance targets, each once, whatever was completed before.
   A Module a pass meets for the first time is checked (ConnTypes, Orphanage, ... : `hm_ok` = its own body passes) and completed; one
   failing check ends the call with an error.  hdl21/proto/exporting.py to_proto elaborates its tops and then writes every Module
   reachable from them.  Between calls `inst.of = other_module` may re-target any instance (HierarchyWalker, PDK compilation, a
   designer), and new Modules may be created.

   The model keeps the NET EFFECT of one elaborate call (the branch-by-branch model of the pass manager, its caches and failure
   records is Model/C08PassFail.v, property C08): the set completed grows by everything below the tops, provided every Module not
   completed before passes its checks.  What it adds for C06 is the package: the modules a returned package contains. *)
Require Import Hdl21.Base.PyInt.

Record hmod := { hm_kids : list nat;      (* targets of its instances that are Modules, in order *)
                 hm_ok : bool }.          (* its own body passes the checks elaboration makes *)

Record est := { e_heap : list hmod; e_done : list nat }.

Definition est0 : est := {| e_heap := []; e_done := [] |}.

Definition kids (hp : list hmod) (m : nat) : list nat := match nth_error hp m with Some x => hm_kids x | None => [] end.
Definition ok_at (hp : list hmod) (m : nat) : bool := match nth_error hp m with Some x => hm_ok x | None => false end.
Definition memn (m : nat) (l : list nat) : bool := existsb (Nat.eqb m) l.

(* ElabPass.modules_below / the exporter's depth-first walk: every module reachable from `m`, each once (latest first) *)
Fixpoint walk (fuel : nat) (hp : list hmod) (seen : list nat) (m : nat) : list nat :=
  match fuel with
  | O => seen
  | S f => if memn m seen then seen else fold_left (walk f hp) (kids hp m) (m :: seen)
  end.

Definition below (hp : list hmod) (tops : list nat) : list nat := fold_left (walk (S (List.length hp)) hp) tops [].

Fixpoint upd {A} (l : list A) (k : nat) (f : A -> A) : list A :=
  match l, k with
  | [], _ => []
  | x :: r, O => f x :: r
  | x :: r, S k' => x :: upd r k' f
  end.

(* one elaborate call. `visit` = the modules the call reaches *)
Definition elab_on (st : est) (visit : list nat) : option est :=
  if forallb (fun m => memn m (e_done st) || ok_at (e_heap st) m) visit
  then Some {| e_heap := e_heap st; e_done := visit ++ e_done st |} else None.

Definition elaborate (st : est) (tops : list nat) : option est := elab_on st (below (e_heap st) tops).

(* to_proto: elaborate, then write every module below the tops *)
Definition export (st : est) (tops : list nat) : option (est * list nat) :=
  match elaborate st tops with Some st' => Some (st', below (e_heap st') tops) | None => None end.

Inductive eop :=
| ONew (m : hmod)                              (* a new Module object *)
| ORetarget (parent idx child : nat)           (* parent.instances[idx].of = child *)
| OElab (tops : list nat)                      (* h.elaborate / a netlist / a simulation: result discarded *)
| OExport (tops : list nat).                   (* h.to_proto: result discarded here *)

Definition set_kid (idx child : nat) (x : hmod) : hmod :=
  {| hm_kids := upd (hm_kids x) idx (fun _ => child); hm_ok := hm_ok x |}.

Definition estep (st : est) (op : eop) : est :=
  match op with
  | ONew m => {| e_heap := e_heap st ++ [m]; e_done := e_done st |}
  | ORetarget p i c => {| e_heap := upd (e_heap st) p (set_kid i c); e_done := e_done st |}
  | OElab tops => match elaborate st tops with Some st' => st' | None => st end
  | OExport tops => match export st tops with Some (st', _) => st' | None => st end
  end.

Definition erun (ops : list eop) : est := fold_left estep ops est0.

(* the variant of the seeded change C06r4-B: tops that carry the mark of an earlier elaboration are not walked again *)
Definition elaborate_skipping_marked (st : est) (tops : list nat) : option est :=
  elab_on st (below (e_heap st) (filter (fun t => negb (memn t (e_done st))) tops)).
Definition export_skipping_marked (st : est) (tops : list nat) : option (est * list nat) :=
  match elaborate_skipping_marked st tops with Some st' => Some (st', below (e_heap st') tops) | None => None end.
