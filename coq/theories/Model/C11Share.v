(* Model/C11Share.v — C11, strengthening round: the importer as a STATEFUL translation, and Python equality of imported values.

   Model/C11RoundTrip.v:rt_ref is import and export of one instance's target fused into one function; nothing an instance
   leaves behind can reach a later instance.  The code is not built that way: ProtoImporter is an object that lives for
   the whole package, and import_instance creates a `Call` (ExternalModuleCall / PrimitiveCall: target + Python parameter
   values) that the exporter reads later.  This file
     1. splits rt_ref into the two halves the code has:  imp_ref (import_instance: the Call, holding PYTHON values
        `hvalue`) and exp_call (export_instance on that Call), and
     2. models the family of importers that keep the Calls they made and hand an EARLIER Call to a later instance whose
        own Call is `keq`-equal to it (first one wins; the cache lives as long as the importer: across the instances of a
        module and across modules) — `rt_pkg_s keq`.  The importer of the tree under test is the member that never shares
        (`keq = fun _ _ => false`); Proofs/C11ShareProofs.v shows for which `keq` sharing is harmless (exactly when
        keq-equal Calls are exported identically) and that Python's `==` on parameter values is NOT such a key;
     3. models Python's `==` on the values import_parameter_value returns (`py_eq`): int/float by exact value
        (the double is given by float.hex()), Prefixed by hdl21.prefix.Prefixed.__eq__ (Model/Prefixed.v:pcmp OEq: both numbers
        at the smaller prefix, rounded to EPSILON places), Prefixed against int through to_prefixed.  Prefixed against
        float / str goes through str(float) / Decimal(text) and is NOT modelled (None). *)
Require Import Hdl21.Base.PyInt Hdl21.Base.Design Hdl21.Base.Package Hdl21.Base.Dec Hdl21.Model.C11RoundTrip.
Require Hdl21.Model.Prefixed.
Require Import Hdl21Gen.PrefixTable Hdl21Gen.PrefixMaps Hdl21Gen.Primitives Hdl21Gen.C11Maps.
From Coq Require Import String Ascii.
Open Scope string_scope.
Open Scope Z_scope.

(* ------------------------------------------------------------------------------------------ 1. the two halves of rt_ref *)
Definition hparams := list (name * hvalue).

(* what import_instance hands to Instance(of=...): a Module, or a Call = target + parameter values + the target's ports *)
Inductive ctarget := TMod (nm : name) | TExt (dom nm : name) | TPrim (hname : string).
Record icall := { ic_target : ctarget; ic_params : hparams; ic_ports : list string }.

(* import_parameters on a dict-typed parameter list *)
Definition import_dict_params (ps : params) : result hparams :=
  _ <- chk (snodup (map fst ps)) EName ;;
  traverse (fun kv : name * pvalue => h <- import_value (snd kv) ;; Ok (fst kv, h)) ps.

(* export_instance's loop over params.items() *)
Definition export_dict_params (hs : hparams) : result params :=
  traverse (fun kv : name * hvalue => o <- export_value (snd kv) ;; v <- ofopt EOther o ;; Ok (fst kv, v)) hs.

Definition imp_prim (hname : string) (ps : params) : result icall :=
  sc <- schema_of hname ;; st <- import_prim_params sc ps ;; pp <- prim_ports_of hname ;;
  Ok {| ic_target := TPrim hname; ic_params := st; ic_ports := pp |}.

Definition imp_ref (exts : list c11ext) (earlier : list c11mod) (r : pref) (ps : params) : result icall :=
  match r with
  | PLocal nm =>
      m <- ofopt EMissing (find_c11mod earlier nm) ;;
      _ <- chk (match ps with [] => true | _ => false end) EExtra ;;
      Ok {| ic_target := TMod nm; ic_params := []; ic_ports := map fst (cm_ports m) |}
  | PExt dom nm =>
      if String.eqb dom "vlsir.primitives" then
        hname <- ofopt EBadKind (assoc nm prim_map_import) ;; hname' <- lookup_prim hname ;; imp_prim hname' ps
      else if String.eqb dom "hdl21.primitives" || String.eqb dom "hdl21.ideal" then
        hname <- lookup_prim nm ;; imp_prim hname ps
      else
        x <- ofopt EMissing (find_c11ext exts dom nm) ;;
        hs <- import_dict_params ps ;;
        Ok {| ic_target := TExt dom nm; ic_params := hs; ic_ports := map fst (cx_sigs x) |}
  end.

Definition exp_call (c : icall) : result (pref * params * list string) :=
  match ic_target c with
  | TMod nm => Ok (PLocal (rt_name nm), [], ic_ports c)
  | TExt dom nm => ps <- export_dict_params (ic_params c) ;; Ok (PExt dom nm, ps, ic_ports c)
  | TPrim hname =>
      sc <- schema_of hname ;; ps <- export_prim_params sc (ic_params c) ;; r <- export_prim_ref hname ;;
      Ok (r, ps, ic_ports c)
  end.

Definition rt_ref_split (exts : list c11ext) (earlier : list c11mod) (r : pref) (ps : params) : result (pref * params * list string) :=
  c <- imp_ref exts earlier r ps ;; exp_call c.

(* the part of rt_inst after the reference: port-name check, connections *)
Definition finish_inst (sigs : list (name * Z)) (i : c11inst) (rpp : pref * params * list string) : result c11inst :=
  let '(r, ps, ports) := rpp in
  _ <- chk (forallb (fun c : name * ptarget => smem (fst c) ports) (ci_conns i)) EExtra ;;
  _ <- chk (snodup (map fst (ci_conns i))) EExtra ;;
  cs <- traverse (fun c : name * ptarget => t <- rt_target sigs (snd c) ;; Ok (fst c, t)) (ci_conns i) ;;
  Ok {| ci_name := ci_name i; ci_ref := r; ci_params := ps; ci_conns := cs |}.

(* ------------------------------------------------------------------------------------------ 2. importers that share Calls *)
Section Sharing.
  (* keq stored new: does the importer take the Call `stored` it made earlier for an instance whose own Call is `new`? *)
  Variable keq : icall -> icall -> bool.

  Definition share (cc : list icall) (c : icall) : icall * list icall :=
    match find (fun c' => keq c' c) cc with
    | Some c' => (c', cc)
    | None => (c, (cc ++ [c])%list)
    end.

  Definition rt_inst_s (exts : list c11ext) (earlier : list c11mod) (sigs : list (name * Z)) (cc : list icall) (i : c11inst)
    : result (c11inst * list icall) :=
    c <- imp_ref exts earlier (ci_ref i) (ci_params i) ;;
    rpp <- exp_call (fst (share cc c)) ;;
    i' <- finish_inst sigs i rpp ;;
    Ok (i', snd (share cc c)).

  Fixpoint rt_insts_s (exts : list c11ext) (earlier : list c11mod) (sigs : list (name * Z)) (cc : list icall) (l : list c11inst)
    : result (list c11inst * list icall) :=
    match l with
    | [] => Ok ([], cc)
    | i :: l' =>
        r <- rt_inst_s exts earlier sigs cc i ;;
        r' <- rt_insts_s exts earlier sigs (snd r) l' ;;
        Ok (fst r :: fst r', snd r')
    end.

  Definition rt_mod_s (exts : list c11ext) (earlier : list c11mod) (cc : list icall) (m : c11mod) : result (c11mod * list icall) :=
    _ <- chk (negb (existsb (fun m' => String.eqb (cm_name m') (cm_name m)) earlier)) EName ;;
    hs <- import_sigs (cm_sigs m) (cm_ports m) ;;
    _ <- chk (snodup (map ci_name (cm_insts m))) EName ;;
    r <- rt_insts_s exts earlier (cm_sigs m) cc (cm_insts m) ;;
    ports <- export_ports hs ;;
    let sw := fun h => (hs_name h, hs_width h) in
    Ok ({| cm_name := rt_name (cm_name m);
           cm_sigs := (map sw (filter (fun h => negb (is_port h)) hs) ++ map sw (filter is_port hs))%list;
           cm_ports := ports; cm_insts := fst r; cm_literals := cm_literals m |}, snd r).

  Fixpoint rt_mods_s (exts : list c11ext) (earlier : list c11mod) (cc : list icall) (ms : list c11mod) : result (list c11mod * list icall) :=
    match ms with
    | [] => Ok ([], cc)
    | m :: ms' =>
        r <- rt_mod_s exts earlier cc m ;;
        r' <- rt_mods_s exts (earlier ++ [m])%list (snd r) ms' ;;
        Ok (fst r :: fst r', snd r')
    end.

  (* the Calls live in the importer: one cache for the whole package, empty at the start *)
  Definition rt_pkg_s (p : c11pkg) : result c11pkg :=
    _ <- chk (nodup_ext_names (ck_exts p)) EName ;;
    xs <- traverse rt_ext (ck_exts p) ;;
    r <- rt_mods_s (ck_exts p) [] [] (ck_mods p) ;;
    Ok {| ck_domain := ck_domain p; ck_exts := xs; ck_mods := fst r |}.
End Sharing.

(* ------------------------------------------------------------------------------------------ 3. Python equality of imported values *)
(* float.hex():  [-]0x<h>.<hhh...>p<+|-><ddd>  ->  (m, e) with value m * 2^e ;  inf / nan: None *)
Definition hexval (c : ascii) : option Z :=
  let n := Z.of_N (N_of_ascii c) in
  if (48 <=? n) && (n <=? 57) then Some (n - 48)
  else if (97 <=? n) && (n <=? 102) then Some (n - 87)
  else None.

Definition decval (c : ascii) : option Z :=
  let n := Z.of_N (N_of_ascii c) in if (48 <=? n) && (n <=? 57) then Some (n - 48) else None.

(* digits up to the stop character: accumulated value, number of digits, the rest after the stop character *)
Fixpoint hexdigits (s : string) (acc cnt : Z) : option (Z * Z * string) :=
  match s with
  | EmptyString => None
  | String c s' =>
      if Ascii.eqb c "p"%char then Some (acc, cnt, s')
      else match hexval c with Some d => hexdigits s' (acc * 16 + d) (cnt + 1) | None => None end
  end.

Fixpoint decdigits (s : string) (acc : Z) : option Z :=
  match s with
  | EmptyString => Some acc
  | String c s' => match decval c with Some d => decdigits s' (acc * 10 + d) | None => None end
  end.

Definition float_val (h : string) : option (Z * Z) :=
  let '(neg, s) := match h with String "-"%char s' => (true, s') | _ => (false, h) end in
  match s with
  | String "0"%char (String "x"%char (String i (String "."%char s1))) =>
      match hexval i, hexdigits s1 0 0 with
      | Some iv, Some (frac, cnt, s2) =>
          let '(eneg, s3) := match s2 with
                             | String "-"%char s' => (true, s') | String "+"%char s' => (false, s') | _ => (false, s2) end in
          match s3, decdigits s3 0 with
          | String _ _, Some e =>
              let m := iv * 16 ^ cnt + frac in
              Some (if neg then - m else m, (if eneg then - e else e) - 4 * cnt)
          | _, _ => None
          end
      | _, _ => None
      end
  | _ => None
  end.

(* m1 * 2^e1 = m2 * 2^e2 *)
Definition dyadic_eqb (a b : Z * Z) : bool :=
  let e := Z.min (snd a) (snd b) in fst a * 2 ^ (snd a - e) =? fst b * 2 ^ (snd b - e).

Definition pre_eqb (d : dec) (e : Z) (d' : dec) (e' : Z) : bool :=
  Prefixed.pcmp Prefixed.OEq (Prefixed.mkP d e) (Prefixed.mkP d' e').

(* a == b for the values import_parameter_value / the parameter classes hold; None: not modelled (see the header) *)
Definition py_eq (a b : hvalue) : option bool :=
  match a, b with
  | HInt x, HInt y => Some (x =? y)
  | HInt x, HFloat h | HFloat h, HInt x => match float_val h with Some f => Some (dyadic_eqb (x, 0) f) | None => None end
  | HFloat g, HFloat h => match float_val g, float_val h with Some x, Some y => Some (dyadic_eqb x y) | _, _ => None end
  | HPre d e, HPre d' e' => Some (pre_eqb d e d' e')
  | HPre d e, HInt z | HInt z, HPre d e => Some (pre_eqb d e (of_int z 0) 0)        (* to_prefixed: Decimal(str(z)) * UNIT *)
  | HPre _ _, _ | _, HPre _ _ => None
  | HStr x, HStr y => Some (String.eqb x y)
  | HLit x, HLit y => Some (String.eqb x y)
  | HNone, HNone => Some true
  | _, _ => Some false
  end.

(* tuple(params.items()) == tuple(params'.items()) : same length, names and values pairwise equal, left to right *)
Fixpoint py_eq_params (a b : hparams) : option bool :=
  match a, b with
  | [], [] => Some true
  | (k, v) :: a', (k', v') :: b' =>
      if negb (String.eqb k k') then Some false else
      match py_eq v v' with
      | Some true => py_eq_params a' b'
      | o => o
      end
  | _, _ => Some false
  end.

Definition ctarget_eqb (a b : ctarget) : bool :=
  match a, b with
  | TMod x, TMod y => String.eqb x y
  | TExt d x, TExt e y => String.eqb d e && String.eqb x y
  | TPrim x, TPrim y => String.eqb x y
  | _, _ => false
  end.

(* the key of a cache of external-module Calls:  ((domain, name), tuple(params.items()))  compared with == *)
Definition call_py_eq (a b : icall) : bool :=
  match ic_target a, ic_target b with
  | TExt _ _, TExt _ _ =>
      ctarget_eqb (ic_target a) (ic_target b) &&
      match py_eq_params (ic_params a) (ic_params b) with Some true => true | _ => false end
  | _, _ => false
  end.

(* ... and the same cache extended to primitive Calls (PrimitiveCall compares its parameter class field by field) *)
Definition call_py_eq_all (a b : icall) : bool :=
  match ic_target a with
  | TMod _ => false
  | _ => ctarget_eqb (ic_target a) (ic_target b) &&
         match py_eq_params (ic_params a) (ic_params b) with Some true => true | _ => false end
  end.

(* structural equality: same target, same names, same values of the same Python type written the same way *)
Definition hvalue_eqb (a b : hvalue) : bool :=
  match a, b with
  | HInt x, HInt y => x =? y
  | HFloat x, HFloat y => String.eqb x y
  | HStr x, HStr y => String.eqb x y
  | HLit x, HLit y => String.eqb x y
  | HPre d e, HPre d' e' => dec_eqb d d' && (e =? e')
  | HNone, HNone => true
  | _, _ => false
  end.

Definition call_struct_eqb (a b : icall) : bool :=
  ctarget_eqb (ic_target a) (ic_target b) &&
  list_eqb (pair_eqb String.eqb hvalue_eqb) (ic_params a) (ic_params b) &&
  list_eqb String.eqb (ic_ports a) (ic_ports b).
