(* Model/C19EDesign.v — the module hdl21/generators.py:Series / Wrapper builds, as a WRITTEN DESIGN of the shared design
   language (Base/Design.v), so that Spec/Nets.v gives it a meaning (a partition of terminal bits) and the pipeline model
   (Model/C01FElab.v) elaborates and exports it.

   series_design_gen nm io a b n iw   one module: ports = the unit's leaf-level ports io (name, width), one internal bus
       `sn_i nm` of width iw, one instance array `sn_units nm` of n units (a leaf device with the ports io), connected
           port b  : Concat(i, b)      port a : Concat(a, i)      every other port p : the same-named port of the stack
       (Model/C19Series.v:series_conn, later assignment wins, with the width of the internal bus as a parameter).
   series_design       iw = (n - 1) * w  what generators.py builds (fixes/C19W-1: `(params.nser - 1) * series_conns[0].width`):
                                         the bit-by-bit chain for series ports of width w; it IS the module of
                                         Model/C19Series.v:series_module for every w (Props/C19E.v:C19E_design_is_model).
   series_design_code  iw = n - 1        what the PINNED generators.py built (`h.Signal(width=params.nser - 1)`); for w = 1 the
                                         same design; for w > 1 NOT a valid design (Concat width w + n - 1 is neither w nor
                                         n * w: Props/C19E.v:C19E_pinned_code_wide_refuted) - the pinned implementation
                                         refused every such call in the array flattener, against the property.
   wrapper_design nm io : Wrapper / nser = 1: one plain instance, every port on the same-named port. *)
Require Import Hdl21.Base.PyInt Hdl21.Spec.PySlice Hdl21.Model.Slice Hdl21.Model.Resolve Hdl21.Base.Design Hdl21.Spec.Nets
               Hdl21.Spec.C19Topology Hdl21.Model.C19Series.
From Coq Require String.
Open Scope string_scope.
Open Scope Z_scope.

(* the four names of the generated module: its own, the identity string of the unit (Base/Design.v:TDev), the internal
   bus (`i`, or the first unused i_, i__, ...), the instance (array) (`units` / `inner`, or the first unused variant) *)
Record snames := { sn_mod : name; sn_dev : name; sn_i : name; sn_units : name }.

Definition series_conn_w (iid : N) (iw : Z) (a b : name) (e : N * (name * Z)) : name * sx :=
  let '(id, (p, w)) := e in
  (p, if String.eqb p b then XConcat [XSig iid iw; XSig id w]
      else if String.eqb p a then XConcat [XSig id w; XSig iid iw]
      else XSig id w).

Definition series_inst (nm : snames) (io : list (name * Z)) (a b : name) (n iw : Z) : inst :=
  {| i_name := sn_units nm; i_n := n; i_of := TDev (sn_dev nm) io;
     i_conns := map (series_conn_w (N.of_nat (List.length io)) iw a b) (number io 0%N) |}.

Definition series_top (nm : snames) (io : list (name * Z)) (a b : name) (n iw : Z) : module :=
  {| m_name := sn_mod nm; m_ports := io; m_sigs := [(sn_i nm, iw)];
     m_insts := [ series_inst nm io a b n iw ];
     m_leaves := leaves_of (io ++ [(sn_i nm, iw)]) |}.

Definition series_design_gen (nm : snames) (io : list (name * Z)) (a b : name) (n iw : Z) : design :=
  {| d_mods := [series_top nm io a b n iw]; d_top := 0%nat |}.

Definition series_design_code (nm : snames) (io : list (name * Z)) (a b : name) (n : Z) : design :=
  series_design_gen nm io a b n (n - 1).

Definition series_design (nm : snames) (io : list (name * Z)) (a b : name) (w n : Z) : design :=
  series_design_gen nm io a b n ((n - 1) * w).

Definition mosstack_design (nm : snames) (io : list (name * Z)) (n : Z) : design := series_design nm io "d" "s" 1 n.

Definition wrapper_inst (nm : snames) (io : list (name * Z)) : inst :=
  {| i_name := sn_units nm; i_n := 0; i_of := TDev (sn_dev nm) io;
     i_conns := map (fun e : N * (name * Z) => (fst (snd e), XSig (fst e) (snd (snd e)))) (number io 0%N) |}.

Definition wrapper_top (nm : snames) (io : list (name * Z)) : module :=
  {| m_name := sn_mod nm; m_ports := io; m_sigs := []; m_insts := [ wrapper_inst nm io ]; m_leaves := leaves_of io |}.

Definition wrapper_design (nm : snames) (io : list (name * Z)) : design :=
  {| d_mods := [wrapper_top nm io]; d_top := 0%nat |}.

(* the inputs the theorems range over: the unit has distinct port names of width >= 1 (any number of ports, any widths),
   a and b are distinct ports of one width w, the names invented by the generator are not port names, n >= 2 *)
Definition series_ok (nm : snames) (io : list (name * Z)) (a b : name) (w n : Z) : bool :=
  forallb (fun pw => 1 <=? snd pw) io && nodup_names (map fst io) &&
  negb (String.eqb a b) &&
  match assoc a io, assoc b io with Some wa, Some wb => (wa =? w) && (wb =? w) | _, _ => false end &&
  negb (mem (sn_i nm) (map fst io)) && negb (mem (sn_units nm) (map fst io)) && negb (String.eqb (sn_units nm) (sn_i nm)) &&
  negb (String.eqb (sn_mod nm) "") && (2 <=? n).

Definition wrapper_ok (nm : snames) (io : list (name * Z)) : bool :=
  forallb (fun pw => 1 <=? snd pw) io && nodup_names (map fst io) &&
  negb (mem (sn_units nm) (map fst io)) && negb (String.eqb (sn_mod nm) "").

(* ---- the documented topology on the nodes of Spec/Nets.v: the representative of the net of a terminal bit ----
   bit k of port p of unit e:   p = b: e = n-1 -> the stack's port b, bit k;  else bit e*w + k of the private bus
                                p = a: e = 0   -> the stack's port a, bit k;  else bit (e-1)*w + k of the private bus
                                else the stack's port p, bit k.
   Every other node (bits of the stack's own ports, bits of the private bus) represents itself.
   Bit c*w + k of the private bus is "chain net c, bit k": it carries exactly b[k] of unit c and a[k] of unit c+1. *)
Definition series_root (nm : snames) (a b : name) (w n : Z) (x : node) : node :=
  match x with
  | NPort [] i e p k =>
      if String.eqb p b then (if e =? n - 1 then NSig [] b k else NSig [] (sn_i nm) (e * w + k))
      else if String.eqb p a then (if e =? 0 then NSig [] a k else NSig [] (sn_i nm) ((e - 1) * w + k))
      else NSig [] p k
  | _ => x
  end.

Definition wrapper_root (x : node) : node :=
  match x with NPort [] i e p k => NSig [] p k | _ => x end.

(* the terminal bits of the stack: bits of its ports, bits of the ports of its n units *)
Definition stack_port (io : list (name * Z)) (x : node) : Prop :=
  exists p wp k, x = NSig [] p k /\ In (p, wp) io /\ 0 <= k < wp.
Definition unit_port (nm : snames) (io : list (name * Z)) (n : Z) (x : node) : Prop :=
  exists e p wp k, x = NPort [] (sn_units nm) e p k /\ In (p, wp) io /\ 0 <= k < wp /\ 0 <= e < n.
Definition stack_term (nm : snames) (io : list (name * Z)) (n : Z) (x : node) : Prop :=
  stack_port io x \/ unit_port nm io n x.
Definition wrapper_term (nm : snames) (io : list (name * Z)) (x : node) : Prop :=
  stack_port io x \/ exists p wp k, x = NPort [] (sn_units nm) 0 p k /\ In (p, wp) io /\ 0 <= k < wp.

(* the key Spec/C19Topology.v gives a terminal bit: a bit of a port of the stack is its own net key; bit k of port p of
   unit e has the key series_key n a b e p k (KPort: a net of a stack port; KChain c k: bit k of private chain net c) *)
Definition series_node_key (n : Z) (a b : name) (x : node) : netkey :=
  match x with
  | NPort _ _ e p k => series_key n a b e p k
  | NSig _ s k => KPort s k
  | NNc _ _ k => KPort "" k
  end.

Definition wrapper_node_key (x : node) : netkey :=
  match x with
  | NPort _ _ e p k => wrapper_key e p k
  | NSig _ s k => KPort s k
  | NNc _ _ k => KPort "" k
  end.

(* the node of the stack that carries a net key *)
Definition key_node (nm : snames) (w : Z) (key : netkey) : node :=
  match key with KPort p j => NSig [] p j | KChain c j => NSig [] (sn_i nm) (c * w + j) end.
