(* Model/C13Dispatch.v — Python objects as the isinstance chains of the parameter path see them (property C13,
   strengthening round).

   `value` of Model/C13Params.v is a disjoint sum: a value is a str OR an Enum member OR an int ...  Python objects are
   not: a member of `class Corner(str, Enum)` is a str AND an Enum member, an IntEnum member is an int AND an Enum member,
   True is an int, `class L(Literal)` instances are Literals whatever else their class says.  What the exporter does with
   such an object is decided by the ORDER of the isinstance tests in

       hdl21/proto/exporting.py:export_param_value     None, str, Enum, Literal, Prefixed, Decimal, int, float, else TypeError
       hdl21/scalar.py:to_scalar                       (Prefixed, Literal) as they are; str; else Prefixed(number=v), whose
                                                       pydantic validation takes Decimal, int (not bool), float (through str())

   A `pyobj` records, per base class the chains ask for, whether the object is an instance of it and the content that
   base class gives it (the characters of the str part, `.value` of the Enum member, `.text`, `.number`/`.prefix`, the
   Decimal / int / double value).  Only content the C-level base classes hold is recorded: `__str__`, `__repr__`,
   `__format__` overridden by the object's class are NOT part of the model, because the repaired code never asks for them
   (protobuf reads the characters of a str subclass instance, not str() of it).
   Each branch body is the corresponding case of `export_param_value` / `to_scalar` on plain values. *)
From Coq Require Import String Ascii.
Require Import Hdl21.Base.PyInt Hdl21.Base.Dec Hdl21.Model.Prefixed Hdl21.Model.C13Params.
Open Scope list_scope.
Open Scope Z_scope.
Notation length := List.length.

Record pyobj := mkObj {
  o_none : bool;                      (* val is None *)
  o_str  : option str;                (* isinstance(val, str): its characters *)
  o_enum : option (option str);       (* isinstance(val, Enum): Some s = val.value is the string s, None = not a string *)
  o_lit  : option str;                (* isinstance(val, Literal): val.text *)
  o_pre  : option pfx;                (* isinstance(val, Prefixed): val.number, val.prefix *)
  o_dec  : option dec;                (* isinstance(val, Decimal), finite *)
  o_int  : option (Z * bool);         (* isinstance(val, int): its value, and whether it is a bool *)
  o_flt  : option (Z * str)           (* isinstance(val, float): binary64 pattern, repr of the double (see VFloat) *)
}.

Definition no_obj : pyobj := mkObj false None None None None None None None.

(* ---- the isinstance tests, each with the plain value its branch works on *)
Definition branch := pyobj -> option value.
Definition br_none : branch := fun o => if o_none o then Some VNone else None.
Definition br_str  : branch := fun o => option_map VStr (o_str o).
Definition br_enum : branch := fun o => option_map VEnum (o_enum o).
Definition br_lit  : branch := fun o => option_map VLit (o_lit o).
Definition br_pre  : branch := fun o => option_map VPrefixed (o_pre o).
Definition br_dec  : branch := fun o => option_map VDecimal (o_dec o).
Definition br_int  : branch := fun o => option_map (fun zb : Z * bool => VInt (fst zb)) (o_int o).
Definition br_flt  : branch := fun o => option_map (fun br : Z * str => VFloat (fst br) (snd br)) (o_flt o).

(* an if / isinstance chain: the first test that holds decides; none holds: the final `raise TypeError` (VOther) *)
Fixpoint first_match (bs : list branch) (o : pyobj) : value :=
  match bs with
  | [] => VOther
  | b :: r => match b o with Some v => v | None => first_match r o end
  end.

(* export_param_value's order *)
Definition export_order : list branch := [br_none; br_str; br_enum; br_lit; br_pre; br_dec; br_int; br_flt].
Definition export_view (o : pyobj) : value := first_match export_order o.
Definition export_param_value_obj (o : pyobj) : result (option pvalue) := export_param_value (export_view o).

(* a plain value as an object: exactly one facet (none for a foreign object) *)
Definition as_obj (v : value) : pyobj :=
  match v with
  | VNone       => mkObj true  None None None None None None None
  | VStr s      => mkObj false (Some s) None None None None None None
  | VEnum e     => mkObj false None (Some e) None None None None None
  | VLit s      => mkObj false None None (Some s) None None None None
  | VPrefixed p => mkObj false None None None (Some p) None None None
  | VDecimal d  => mkObj false None None None None (Some d) None None
  | VInt z      => mkObj false None None None None None (Some (z, false)) None
  | VFloat b r  => mkObj false None None None None None None (Some (b, r))
  | VOther      => no_obj
  end.

(* ---- to_scalar on objects.  A Prefixed / Literal instance is returned as it is (the same object, with all its
        facets); a str is read through its characters; everything else goes to Prefixed(number=v), i.e. pydantic's
        Decimal validation: Decimal instance, int but not bool, float (through the text Python prints for it).
        str, Decimal, int and float have conflicting instance lay-outs, so no object has two of those facets and their
        relative order cannot be observed. *)
Definition is_some {A} (o : option A) : bool := match o with Some _ => true | None => false end.
Definition has_scalar (o : pyobj) : bool := is_some (o_pre o) || is_some (o_lit o).
Definition fresh (v : value) : result pyobj := x <- to_scalar v ;; Ok (as_obj x).

Definition to_scalar_obj (o : pyobj) : result pyobj :=
  if has_scalar o then Ok o
  else match o_str o with
       | Some s => fresh (VStr s)
       | None =>
           match o_dec o with
           | Some d => fresh (VDecimal d)
           | None =>
               match o_int o with
               | Some (z, false) => fresh (VInt z)
               | Some (_, true) => Error EBadKind                  (* pydantic: a bool is no Decimal input *)
               | None => match o_flt o with
                         | Some (b, r) => fresh (VFloat b r)
                         | None => Error EBadKind
                         end
               end
           end
       end.

(* ---- construction of the parameter object (see `store` of Model/C13Params.v for the kinds).
        Kind 2 (Optional[str]): pydantic stores the characters as an exact str.  Kinds 2 and 3 on well-typed arguments only. *)
Definition store_obj (kind : Z) (o : pyobj) : result pyobj :=
  if kind =? 0 then to_scalar_obj o
  else if kind =? 1 then (if o_none o then Ok o else to_scalar_obj o)
  else if kind =? 2 then (if o_none o then Ok o else match o_str o with Some s => Ok (as_obj (VStr s)) | None => Error EBadKind end)
  else if kind =? 3 then match o_enum o with Some (Some _) => Ok o | _ => Error EBadKind end
  else Ok o.

Record ocall := mkOCall { oc_tgt : target; oc_params : list (str * Z * pyobj) }.

Fixpoint store_all_obj (ps : list (str * Z * pyobj)) : result (list (str * pyobj)) :=
  match ps with
  | [] => Ok []
  | (k, kind, o) :: r => x <- store_obj kind o ;; rest <- store_all_obj r ;; Ok ((k, x) :: rest)
  end.

Definition export_instance_obj (c : ocall) : result (str * str * list (str * pvalue)) :=
  stored <- store_all_obj (oc_params c) ;;
  export_stored (oc_tgt c) (map fst (oc_params c)) (fun pc => post_init_by o_pre pc stored)
                (map (fun kv : str * pyobj => (fst kv, export_view (snd kv))) stored).
