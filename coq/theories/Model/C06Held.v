(* Model/C06Held.v — the names a Module HOLDS its attributes under vs. the names the attributes CARRY.

   hdl21/module.py: Module.__setattr__(key, val) / Module.add(val, name=key) give `val` the name `key` (val.name = key) and store it
   under `key` in the type-based container and in `namespace` (Python dicts: one entry per key, insertion order kept, a second
   assignment to a key replaces the value in place).  Nothing stops the same OBJECT from being stored under two keys
   (`inv1 = inv2 = Inv(..)` in a class body, `m.second = m.first`), nor `obj.name = ...` afterwards.
   hdl21/proto/exporting.py: export_module writes, for every VALUE of module.instances / signals / ports, the name the value CARRIES
   (vckt.Instance(name=inst.name), vckt.Signal(name=sig.name)).
   hdl21/elab/passes/orphanage.py: Orphanage.elaborate_module refuses a Module in which some value of `namespace` carries another
   name than the key it is held under.  That check is the only thing between "keys are unique" (a dict) and "exported names are
   unique" (the property). *)
Require Import Hdl21.Base.PyInt.
From Coq Require Import String.

Definition objid := nat.

Record hstate := {
  h_names : list (objid * string);     (* obj.name, latest assignment first *)
  h_ns    : list (string * objid)      (* the dict: key -> object, insertion order, one entry per key *)
}.

Definition h_empty : hstate := {| h_names := []; h_ns := [] |}.

Inductive hop :=
| HSet (key : string) (o : objid)       (* setattr(m, key, o) / m.add(o, name=key):  o.name = key;  ns[key] = o *)
| HRename (o : objid) (name : string).  (* o.name = name, behind the Module's back *)

Fixpoint name_of (l : list (objid * string)) (o : objid) : option string :=
  match l with
  | [] => None
  | (o', n) :: r => if Nat.eqb o' o then Some n else name_of r o
  end.

(* Python: d[key] = o *)
Fixpoint dict_set (d : list (string * objid)) (key : string) (o : objid) : list (string * objid) :=
  match d with
  | [] => [(key, o)]
  | (k, v) :: r => if String.eqb k key then (k, o) :: r else (k, v) :: dict_set r key o
  end.

Definition hstep (st : hstate) (op : hop) : hstate :=
  match op with
  | HSet key o => {| h_names := (o, key) :: h_names st; h_ns := dict_set (h_ns st) key o |}
  | HRename o n => {| h_names := (o, n) :: h_names st; h_ns := h_ns st |}
  end.

Definition hrun (ops : list hop) : hstate := fold_left hstep ops h_empty.

(* Orphanage: every value carries the key it is held under *)
Definition orphanage_ok (st : hstate) : bool :=
  forallb (fun ko => match name_of (h_names st) (snd ko) with Some n => String.eqb n (fst ko) | None => false end) (h_ns st).

(* the exporter: the carried name of every value of the container; `sel` picks the objects of one container (instances, signals ...) *)
Definition export_names (sel : objid -> bool) (st : hstate) : list (option string) :=
  map (fun ko => name_of (h_names st) (snd ko)) (filter (fun ko => sel (snd ko)) (h_ns st)).
