(* Model/C02Checks.v — the remaining checking code C02 is anchored in, beside Model/Checks.v:
   orphanage.py (ownership of every attribute and of everything a connection is built from),
   portrefs.py handle_noconn (a no-connect group has exactly the port and the NoConn),
   arrays.py (width rule w or n*w, connection to a port the target lacks),
   mark_modules.py (a Module must be named), and the composition of these checks, in the order of the
   default pass list, on the fragment of Base/Design.v whose connections are expressions over Signals. *)
Require Import Hdl21.Base.PyInt Hdl21.Spec.PySlice Hdl21.Model.Slice Hdl21.Model.Resolve Hdl21.Base.Design
               Hdl21.Spec.WfDesign Hdl21.Model.Checks.

(* ---------------- orphanage.py ---------------- *)
(* what check_connectable looks at: `owner` is the `_parent_module` of the object (None: never added) *)
Inductive oconn :=
| OOwned (owner : option nat)        (* Signal, BundleInstance: assert_parentage(module, conn) *)
| OSlice (parent : oconn)            (* check_connectable(module, conn.parent) *)
| OConcat (parts : list oconn)       (* every part *)
| ONoConn                            (* exempt *)
| ORef (inst_owner : option nat)     (* PortRef: conn.inst;  BundleRef: conn.root() *)
| OAnon (members : list oconn).      (* AnonymousBundle: every value of its namespace *)

(* assert_parentage: fails if `_parent_module is None`, fails if it `is not module` *)
Definition owned_by (m : nat) (o : option nat) : bool :=
  match o with None => false | Some k => Nat.eqb k m end.

Fixpoint orphan_ok (m : nat) (c : oconn) : bool :=
  match c with
  | OOwned o => owned_by m o
  | OSlice p => orphan_ok m p
  | OConcat ps => forallb (orphan_ok m) ps
  | ONoConn => true
  | ORef o => owned_by m o
  | OAnon ms => forallb (orphan_ok m) ms
  end.

(* every object the connection is built from, with its owner *)
Fixpoint owners (c : oconn) : list (option nat) :=
  match c with
  | OOwned o => [o]
  | OSlice p => owners p
  | OConcat ps => concat (map owners ps)
  | ONoConn => []
  | ORef o => [o]
  | OAnon ms => concat (map owners ms)
  end.

(* Orphanage.elaborate_module: every namespace attribute, then every connection of every
   instance, array and instance bundle *)
Definition orphanage_module (m : nat) (attrs : list (option nat)) (insts : list (list oconn)) : bool :=
  forallb (owned_by m) attrs && forallb (forallb (orphan_ok m)) insts.

(* ---------------- portrefs.py: handle_group / handle_noconn ---------------- *)
Inductive gitem := GRef (inst port : name) | GNoConn | GSource.
Definition is_gnc (g : gitem) : bool := match g with GNoConn => true | _ => false end.
Definition is_gsrc (g : gitem) : bool := match g with GSource => true | _ => false end.

(* handle_group: a group with a NoConn must have at most two entries (handle_noconn);
   otherwise at most one declared Source (find_source) *)
Definition handle_group_ok (g : list gitem) : bool :=
  if existsb is_gnc g then zlen g <=? 2 else zlen (filter is_gsrc g) <=? 1.

(* the group `follow` builds from the reference of a no-connected port: the reference, its connection (the
   NoConn), then whatever following each port connected to it contributes — at least that port's own reference *)
Definition noconn_group (i p : name) (followed : list (list gitem)) : list gitem :=
  GRef i p :: GNoConn :: concat followed.

(* ---------------- arrays.py ---------------- *)
(* per connection of an n-array: the target must have the port; the width must be w or n*w *)
Definition array_conn_ok (n : Z) (ports : list (name * Z)) (c : name * Z) : bool :=
  match assoc (fst c) ports with
  | None => false
  | Some w => (snd c =? w) || (snd c =? n * w)
  end.

(* ---------------- the checks in pass order on the signal-expression fragment ---------------- *)
(* the fragment: every leaf is a Signal reference (no port reference, no no-connect) *)
Definition leaf_is_sig (m : module) (lw : N * Z) : bool :=
  match assocN (fst lw) (m_leaves m) with Some (LSig _) => true | _ => false end.

Definition frag_module (m : module) : bool :=
  forallb (fun x => forallb (fun c => forallb (leaf_is_sig m) (sx_leaves (snd c))) (i_conns x)) (m_insts m).
Definition frag (d : design) : bool := forallb frag_module (d_mods d).

(* the owner of what a leaf denotes: a Signal declared in module `self` is owned by it; the harness prints
   Signals of other modules or of none under names that are not declared *)
Definition leaf_owner (self : nat) (m : module) (lw : N * Z) : option nat :=
  match assocN (fst lw) (m_leaves m) with
  | Some (LSig s) => match sig_width m s with Some _ => Some self | None => None end
  | _ => None
  end.

Fixpoint oconn_of (self : nat) (m : module) (x : sx) : oconn :=
  match x with
  | XSig id w => OOwned (leaf_owner self m (id, w))
  | XSlice p _ => OSlice (oconn_of self m p)
  | XConcat ps => OConcat (map (oconn_of self m) ps)
  end.

(* widths of the connections as ConnTypes / ArrayFlattener read them: `width(conn)`, which fails on an
   out-of-range or empty index (slice.py:_slice_inner through Model/Resolve.xwidth) *)
Definition conn_widths (x : inst) : result (list (name * Z)) :=
  traverse (fun c => w <- xwidth (snd c) ;; Ok (fst c, w)) (i_conns x).

Definition inst_accepts (d : design) (self : nat) (m : module) (x : inst) : bool :=
  (* base.py: the target has been elaborated before (no cycle); here: it precedes *)
  match i_of x with TMod k => (k <? self)%nat | TDev _ _ => true end &&
  (* Orphanage *)
  forallb (fun c => orphan_ok self (oconn_of self m (snd c))) (i_conns x) &&
  match target_ports d (i_of x), conn_widths x with
  | Ok ports, Ok cws =>
      if 0 <? i_n x then
        (* ArrayFlattener: per connection port lookup and width rule; then every flat instance carries a
           connection of the port's width on each connected port, and PostFlattenConnTypes checks it *)
        forallb (array_conn_ok (i_n x) ports) cws &&
        check_instance ports (map (fun c => (fst c, match assoc (fst c) ports with Some w => w | None => snd c end)) cws)
      else check_instance ports cws
  | _, _ => false
  end.

Definition module_accepts (d : design) (self : nat) (m : module) : bool :=
  negb (String.eqb (m_name m) "") &&                       (* MarkModules *)
  forallb (inst_accepts d self m) (m_insts m).

Fixpoint mods_accept (d : design) (k : nat) (ms : list module) : bool :=
  match ms with
  | [] => true
  | m :: ms' => module_accepts d k m && mods_accept d (S k) ms'
  end.

(* export_module_name: one name per exported Module *)
Definition model_accepts (d : design) : bool :=
  (d_top d <? Datatypes.length (d_mods d))%nat && nodup_names (map m_name (d_mods d)) && mods_accept d 0 (d_mods d).

(* what Python guarantees by construction and the harness printer by its invariant:
   dict keys are unique (ports of a target, connections of an instance, names of a Module namespace),
   declared widths are positive (Signal's validator), an array has n >= 1 (checked by ArrayFlattener, never
   generated otherwise), and every leaf is annotated with the width of the Signal it names *)
Definition annot_ok (m : module) (lw : N * Z) : bool :=
  match assocN (fst lw) (m_leaves m) with
  | Some (LSig s) => match sig_width m s with Some w => w =? snd lw | None => true end
  | _ => true
  end.

Definition given_inst (d : design) (m : module) (x : inst) : bool :=
  nodup_names (map fst (i_conns x)) &&
  match target_ports d (i_of x) with Ok ports => nodup_names (map fst ports) | Error _ => true end &&
  forallb (fun c => forallb (annot_ok m) (sx_leaves (snd c))) (i_conns x).

Definition given_module (d : design) (m : module) : bool :=
  nodup_names (map fst (m_ports m) ++ map fst (m_sigs m) ++ map i_name (m_insts m)) &&
  forallb (fun pw => 1 <=? snd pw) (m_ports m ++ m_sigs m) &&
  forallb (given_inst d m) (m_insts m).

Definition given (d : design) : bool := forallb (given_module d) (d_mods d).
