(* Model/Prefixed.v — model of hdl21/prefix.py (repaired tree): Prefix, Prefixed and their operators.
   Follows the code function by function.  The table of prefixes and EPSILON are the GENERATED ones.

   A Prefixed is (number : Decimal, prefix : member of Prefix); prefixes are represented by their exponent
   (`Prefix.value`), membership in the enumeration by `is_prefix`.  Errors (`raise`) are explicit. *)
Require Import Hdl21.Base.PyInt Hdl21.Base.Dec Hdl21Gen.PrefixTable.
From Coq Require Import String.
Open Scope Z_scope.
Notation length := List.length.

Definition prefix_values : list Z := map snd prefix_table.
Definition is_prefix (q : Z) : bool := existsb (Z.eqb q) prefix_values.

Fixpoint lookup_name (s : string) (t : list (string * Z)) : result Z :=
  match t with
  | [] => Error EName
  | (n, v) :: r => if String.eqb s n then Ok v else lookup_name s r
  end.
(* `Prefix.UNIT`, as the code names it *)
Definition unit_prefix : result Z := lookup_name "UNIT"%string prefix_table.

Record pfx := mkP { number : dec; prefix : Z }.
Definition pwf (p : pfx) : bool := is_prefix (prefix p).

(* the exact value number * 10^prefix as one decimal, and as an integer multiple of 10^e *)
Definition pval (p : pfx) : dec := dscaleb (number p) (prefix p).
Definition pexp (p : pfx) : Z := dexp (number p) + prefix p.
Definition vat (e : Z) (p : pfx) : Z := at_ e (pval p).

(* ---- Prefix.closest(exp), exp an integer:  min(members, key=lambda x: abs(x.value - exp)),
        i.e. the FIRST member (definition order) of minimal distance *)
Definition closer_int (t best v : Z) : Z := if Z.abs (v - t) <? Z.abs (best - t) then v else best.
Definition closest_int (t : Z) : result Z :=
  match prefix_values with
  | [] => Error EOther                      (* min() of an empty sequence *)
  | v :: r => Ok (fold_left (closer_int t) r v)
  end.

(* ---- Prefix.closest(log10(|number|) + prefix.value): the member closest to L = log10 |value|, decided exactly:
        |v - L| < |best - L|  <=>  (best < v  and  10^(v+best) < value^2)  or  (v < best  and  value^2 < 10^(v+best)).
        value^2 = c^2 * 10^(2k).  For zero, log10 is -Infinity, all distances are infinite and min() keeps the first member.
        (The code evaluates log10 in the ambient 28-digit context; the correspondence run accepts either neighbour when
        value^2 is within 10^-24 (relative) of a boundary 10^(v+best), see Corr/C14.v.) *)
Definition sq_cmp (c2 k s : Z) : comparison :=      (* c2 = c^2 : compare c^2 * 10^(2k) with 10^s *)
  let t := s - 2 * k in if 0 <=? t then (c2 ?= pow10 t) else (c2 * pow10 (- t) ?= 1).
Definition closer_log (c2 k best v : Z) : Z :=
  if best <? v then match sq_cmp c2 k (v + best) with Gt => v | _ => best end
  else if v <? best then match sq_cmp c2 k (v + best) with Lt => v | _ => best end
  else best.
Definition closest_log (p : pfx) : result Z :=
  match prefix_values with
  | [] => Error EOther
  | v :: r =>
      let c := Z.abs (dint (number p)) in
      if c =? 0 then Ok v else Ok (fold_left (closer_log (c * c) (pexp p)) r v)
  end.

(* ---- Prefixed.scale(prefix): number * Decimal(10) ** (self.prefix - prefix), the product in the exact context *)
Definition pscale (p : pfx) (q : Z) : pfx := mkP (dscale10 (number p) (prefix p - q)) q.
(* ---- Prefixed.scale(): to the closest prefix *)
Definition pscale_auto (p : pfx) : result pfx := q <- closest_log p ;; Ok (pscale p q).

(* ---- Prefix.__rmul__(Prefixed), e.g. (5*n) * G: e(targ).symbol = closest(targ); residual is the integer rest *)
Definition prefix_rmul (p : pfx) (q : Z) : result pfx :=
  let targ := q + prefix p in
  sym <- closest_int targ ;;
  Ok (mkP (dscale10 (number p) (targ - sym)) sym).

(* ---- Prefixed.__mul__(Prefixed): (self.number * other.number * self.prefix * other.prefix).scale() *)
Definition pmul (a b : pfx) : result pfx :=
  let n := dmul (number a) (number b) in
  let p1 := mkP n (prefix a) in                  (* Decimal * Prefix -> Prefixed(number, prefix) *)
  p2 <- prefix_rmul p1 (prefix b) ;;
  pscale_auto p2.
(* Prefixed * scalar *)
Definition pmul_scalar (a : pfx) (d : dec) : result pfx := pscale_auto (mkP (dmul (number a) d) (prefix a)).

(* ---- _add / _subtract *)
Definition smaller_prefix (a b : pfx) : Z := if prefix a <? prefix b then prefix a else prefix b.
Definition padd_raw (a b : pfx) : pfx :=
  if prefix a =? prefix b then mkP (dadd (number a) (number b)) (prefix a)
  else let s := smaller_prefix a b in mkP (dadd (number (pscale a s)) (number (pscale b s))) s.
Definition psub_raw (a b : pfx) : pfx :=
  if prefix a =? prefix b then mkP (dsub (number a) (number b)) (prefix a)
  else let s := smaller_prefix a b in mkP (dsub (number (pscale a s)) (number (pscale b s))) s.
(* Prefixed.__add__/__sub__(Prefixed): _add(...).scale() *)
Definition padd (a b : pfx) : result pfx := pscale_auto (padd_raw a b).
Definition psub (a b : pfx) : result pfx := pscale_auto (psub_raw a b).

Definition pneg (a : pfx) : pfx := mkP (dneg (number a)) (prefix a).
Definition pabs (a : pfx) : pfx := mkP (dabs (number a)) (prefix a).

(* ---- to_prefixed(Decimal) / number * Prefix *)
Definition to_prefixed (d : dec) : result pfx := u <- unit_prefix ;; Ok (mkP d u).

(* ---- comparison: _rounded_to_smaller then the Decimal comparison.  `prec` is the precision of the context in which
        round(number, EPSILON) is evaluated: None for the exact context of the repaired code, Some 28 for the default
        context (the pinned tree) in which quantize raises InvalidOperation beyond 28 digits. *)
Definition rounded_to_smaller (prec : option Z) (a b : pfx) : (dec * dec) + dec_err :=
  let s := smaller_prefix a b in
  match quantize_ctx prec (number (pscale a s)) (- EPSILON), quantize_ctx prec (number (pscale b s)) (- EPSILON) with
  | inl x, inl y => inl (x, y)
  | _, _ => inr InvalidOperation
  end.

Inductive cmpop := OLt | OLe | OEq | ONe | OGt | OGe.
Definition dec_op (o : cmpop) (x y : dec) : bool :=
  match o with
  | OLt => dltb x y | OLe => negb (dltb y x) | OEq => deqb x y
  | ONe => negb (deqb x y) | OGt => dltb y x | OGe => negb (dltb x y)
  end.
Definition pcmp_ctx (prec : option Z) (o : cmpop) (a b : pfx) : bool + dec_err :=
  match rounded_to_smaller prec a b with
  | inl (x, y) => inl (dec_op o x y)
  | inr e => inr e
  end.

(* the repaired operators: never raise *)
Definition rkey (a b : pfx) : Z * Z :=
  let s := smaller_prefix a b in
  (dq_int (number (pscale a s)) (- EPSILON), dq_int (number (pscale b s)) (- EPSILON)).
Definition int_op (o : cmpop) (x y : Z) : bool :=
  match o with
  | OLt => x <? y | OLe => x <=? y | OEq => x =? y | ONe => negb (x =? y) | OGt => y <? x | OGe => y <=? x
  end.
Definition pcmp (o : cmpop) (a b : pfx) : bool := let '(x, y) := rkey a b in int_op o x y.

(* ---- hash / int: of self.scale(Prefix.UNIT).number *)
Definition unit_number (p : pfx) : result dec := u <- unit_prefix ;; Ok (number (pscale p u)).
(* hash(Decimal) is a function of the VALUE of the Decimal (CPython: numeric hash); the model returns the normal form
   of the value (None = fuel exhausted, unreachable: Dec.dnorm_total) *)
Definition phash (p : pfx) : result (option (Z * Z)) := x <- unit_number p ;; Ok (dnorm x).
Definition pint (p : pfx) : result Z := x <- unit_number p ;; Ok (dtrunc x).
(* float(Decimal) : one rounding of the exact value; `rnd` stands for CPython's correctly rounded float(Decimal) *)
Definition pfloat {F : Type} (rnd : dec -> F) (p : pfx) : result F := x <- unit_number p ;; Ok (rnd x).
