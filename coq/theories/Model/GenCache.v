(* Model/GenCache.v — hdl21/generator.py: run(call) and the GeneratorCache (repaired tree).

   A generator call is identified by a key k : K = (generator identity, validated parameter value);
   keqb is GeneratorCall.__eq__ (identity of the generator, == of the parameters).  The state is the
   GeneratorCache (done / pending / stack) plus the part of the Python heap the property observes:
   the modules returned by generator calls, each with its name and the call whose body created it,
   plus a ghost log of body executions.

   What a generator body does is described by prog : K -> body (bodies are deterministic functions of
   their parameters): the generator calls it makes, in order, and what it returns —
     RFresh o : a Module created by this body run, anonymous (o = None) or named by the body (o = Some n);
     RPass i  : the Module returned by its i-th nested generator call (MosStack -> Series).
   Exceptions end the history HERE; Model/C09GenFail.v keeps the state a raising call leaves behind and lets the history go
   on (refused, and refused again; naming that fails after the body ran), and extends this model on answered calls.
   Generators declared with enable_cache=False are outside the property and not modelled. *)
Require Import Hdl21.Base.PyInt.
From Coq Require Import String.
Open Scope string_scope.

Inductive ret := RFresh (o : option string) | RPass (i : nat).
Record body (K : Type) := { b_calls : list K; b_ret : ret }.
Arguments b_calls {K} b.
Arguments b_ret {K} b.

Record gmodule (K : Type) := { m_name : string; m_creator : K }.
Arguments m_name {K} g.
Arguments m_creator {K} g.

Record state (K : Type) := {
  done : list (K * nat);        (* Cache.done: call -> module (index into heap) *)
  pending : list K;             (* Cache.pending *)
  stack : list K;               (* Cache.stack *)
  heap : list (gmodule K);      (* modules returned by generator calls so far, in creation order *)
  runs : list K                 (* ghost: body executions, latest first *)
}.
Arguments done {K} s.
Arguments pending {K} s.
Arguments stack {K} s.
Arguments heap {K} s.
Arguments runs {K} s.

Section Cache.
Variable K : Type.
Variable keqb : K -> K -> bool.
Variable prog : K -> body K.
Variable gen_name : K -> string.      (* call.gen.name *)
Variable has_params : K -> bool.      (* hasparams(call.gen.Params) *)
Variable suffix : K -> string.        (* _unique_name(call.params) *)

Fixpoint lookup (k : K) (l : list (K * nat)) : option nat :=
  match l with
  | [] => None
  | (k', m) :: l' => if keqb k k' then Some m else lookup k l'
  end.

Definition memk (k : K) (l : list K) : bool := existsb (keqb k) l.
Definition removek (k : K) (l : list K) : list K := filter (fun x => negb (keqb k x)) l.

(* the naming lines of run(): only applied to a module that no generator call has named before *)
Definition fresh_name (k : K) (o : option string) : string :=
  let base := match o with Some n => n | None => gen_name k end in
  if has_params k then base ++ "(" ++ suffix k ++ ")" else base.

Fixpoint fold_calls (r : state K -> K -> result (state K * nat)) (st : state K) (ks : list K)
  : result (state K * list nat) :=
  match ks with
  | [] => Ok (st, [])
  | k :: ks' =>
      p <- r st k ;;
      q <- fold_calls r (fst p) ks' ;;
      Ok (fst q, snd p :: snd q)
  end.

Fixpoint run (fuel : nat) (st : state K) (k : K) : result (state K * nat) :=
  match fuel with
  | O => Error EFuel
  | S f =>
      match lookup k (done st) with
      | Some m => Ok (st, m)                                   (* cache hit: body not run *)
      | None =>
          if memk k (pending st) then Error ECycle else        (* circular dependency *)
          let st1 := {| done := done st; pending := k :: pending st; stack := k :: stack st;
                        heap := heap st; runs := k :: runs st |} in
          p <- fold_calls (run f) st1 (b_calls (prog k)) ;;    (* the body runs; its nested calls *)
          let st2 := fst p in
          q <- match b_ret (prog k) with
               | RFresh o =>                                   (* not handed on: named here *)
                   Ok ((heap st2 ++ [{| m_name := fresh_name k o; m_creator := k |}])%list, List.length (heap st2))
               | RPass i =>                                    (* handed on: keeps its name *)
                   match nth_error (snd p) i with
                   | Some m => Ok (heap st2, m)
                   | None => Error EOther
                   end
               end ;;
          Ok ({| done := (k, snd q) :: done st2; pending := removek k (pending st2);
                 stack := tl (stack st2); heap := fst q; runs := runs st2 |}, snd q)
      end
  end.

Definition init : state K := {| done := []; pending := []; stack := []; heap := []; runs := [] |}.

(* a history: a sequence of top-level calls in one interpreter *)
Definition run_hist (fuel : nat) (ks : list K) : result (state K * list nat) := fold_calls (run fuel) init ks.

(* the name given to the module created by the body run for k *)
Definition created_name (k : K) : string :=
  match b_ret (prog k) with RFresh o => fresh_name k o | RPass _ => "" end.

(* the call whose body creates the module that call k returns: follow the hand-on chain *)
Inductive Origin : K -> K -> Prop :=
| O_fresh k o : b_ret (prog k) = RFresh o -> Origin k k
| O_pass k i k' c : b_ret (prog k) = RPass i -> nth_error (b_calls (prog k)) i = Some k' -> Origin k' c -> Origin k c.

Fixpoint origin (fuel : nat) (k : K) : option K :=
  match fuel with
  | O => None
  | S f => match b_ret (prog k) with
           | RFresh _ => Some k
           | RPass i => match nth_error (b_calls (prog k)) i with Some k' => origin f k' | None => None end
           end
  end.

End Cache.

Arguments lookup {K} keqb k l.
Arguments memk {K} keqb k l.
Arguments removek {K} keqb k l.
Arguments run {K} keqb prog gen_name has_params suffix fuel st k.
Arguments run_hist {K} keqb prog gen_name has_params suffix fuel ks.
Arguments fold_calls {K} r st ks.
Arguments init {K}.
Arguments fresh_name {K} gen_name has_params suffix k o.
Arguments created_name {K} prog gen_name has_params suffix k.
Arguments Origin {K} prog _ _.
Arguments origin {K} prog fuel k.
