(* Model/C04Groups.v — what ResolvePortRefs (hdl21/elab/passes/portrefs.py) can reach from a state of
   the connection books: `follow` as written (depth first, the group is an ordered set), with explicit
   fuel; fuel exhaustion is `None`.
     follow(pref, group):  if pref in group: return
                           group.add(pref)
                           conn = pref.inst.conns.get(pref.portname)
                           if conn is a PortRef: follow(conn, group)  else: group.add(conn)
                           for cp in pref._connected_ports (instances of the module only): follow(cp, group)
   The seeds are the handed-out references (`_refs.portrefs`) and the ports connected to a NoConn. *)
Require Import Hdl21.Base.PyInt Hdl21.Model.C04ConnOps.

Inductive gitem := GRef (q : pid) | GConn (c : conn).

Definition gitem_eqb (a b : gitem) : bool :=
  match a, b with
  | GRef q, GRef r => pid_eqb q r
  | GConn c, GConn d => conn_eqb c d
  | _, _ => false
  end.
Definition gmem (x : gitem) (g : list gitem) : bool := existsb (gitem_eqb x) g.
Definition gadd (x : gitem) (g : list gitem) : list gitem := if gmem x g then g else g ++ [x].

Fixpoint follow (s : state) (inmod : Z -> bool) (fuel : nat) (q : pid) (g : list gitem) : option (list gitem) :=
  match fuel with
  | O => None
  | S f =>
      if gmem (GRef q) g then Some g else
      let g1 := g ++ [GRef q] in
      let r := match lookup q (st_conns s) with
               | Some (CRef i p) => follow s inmod f (i, p) g1
               | Some c => Some (gadd (GConn c) g1)
               | None => Some g1                                    (* group.add(None), filtered out later *)
               end in
      fold_left (fun acc q' => match acc with Some g' => follow s inmod f q' g' | None => None end)
                (filter (fun q' => inmod (fst q')) (back_of (CRef (fst q) (snd q)) (st_back s))) r
  end.

Definition is_noconn (c : conn) : bool := match c with CObj KNoConn _ => true | _ => false end.
Definition seeds (s : state) : list pid :=
  fold_left (fun acc q => set_add q acc)
            (map fst (filter (fun e => is_noconn (snd e)) (st_conns s))) (st_handed s).

(* ports joined by the FINAL mapping: q is connected to the reference of r, or r to the reference of q *)
Definition adj (s : state) (a b : pid) : Prop :=
  lookup a (st_conns s) = Some (CRef (fst b) (snd b)) \/ lookup b (st_conns s) = Some (CRef (fst a) (snd a)).
Inductive reach (s : state) (a : pid) : pid -> Prop :=
| reach_refl : reach s a a
| reach_step b c : reach s a b -> adj s b c -> reach s a c.
