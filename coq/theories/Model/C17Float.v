(* Model/C17Float.v — C17 (strengthening round): the float fields of the exported SimInput, concretely.

   Model/SimExport.v emits a float field as the symbol `FDec m e` ("float() of the prefixed value m*10^e") and leaves
   HOW the double is obtained to a function variable.  This file models that mechanism of hdl21/sim/proto.py:

     export_float(num):  None -> 0.0 | float -> num | int, str, Decimal, Prefixed -> float(num) | else TypeError

   on the values a validated Sim holds: every Scalar field is a `Prefixed` (number : Decimal of ANY number of digits,
   prefix : member of Prefix) or a `Literal`; LogSweep.npts is an int.  float(Prefixed) is Prefixed.__float__ =
   float(self.scale(Prefix.UNIT).number), modelled in Model/Prefixed.v (`pfloat`): the number is multiplied by
   Decimal(10) ** prefix in the EXACT context and handed to CPython's float(Decimal) once.
   `rnd : dec -> dbl` stands for CPython's float() on the exact Decimal (or int) it is given, digit for digit.

   `export_float_ctx prec` is the same conversion with the product evaluated in a decimal context of precision `prec`
   (Some 28 = the default context, what an inline `float(num.number * Decimal(10) ** num.prefix.value)` does);
   `prec = None` is the code.  The concrete exporter `export_all_c` is Model/SimExport.v with every float field
   computed by `export_float` instead of emitted as a symbol. *)
From Coq Require Import String Ascii.
Require Import Hdl21.Base.PyInt Hdl21.Base.Dec Hdl21.Model.Prefixed Hdl21.Spec.SimSpec Hdl21.Model.SimExport.
Open Scope Z_scope.

(* the Prefixed held by a Sim field: number = nm * 10^ne (coefficient and exponent of the Decimal), prefix exponent pe *)
Definition num_pfx (nm ne pe : Z) : pfx := mkP (of_int nm ne) pe.

Section Float.
Variable rnd : dec -> dbl.

(* ---- export_float on a Scalar *)
Definition export_float (x : num) : result dbl :=
  match x with
  | NPre nm ne pe => pfloat rnd (num_pfx nm ne pe)          (* isinstance(num, Prefixed): float(num) *)
  | NLit _ => Error EBadKind                                (* a Literal: TypeError *)
  end.
(* ---- export_float(None) (Tran.tstep absent) and export_float(int) (LogSweep.npts) *)
Definition export_float_none : dbl := DFin false 0 (-1074).      (* the literal 0.0 *)
Definition export_float_int (n : Z) : dbl := rnd (of_int n 0).   (* float(int): the int is an exact decimal with exponent 0 *)

(* ---- the conversion with the power of ten applied in a context of precision prec *)
Definition unit_number_ctx (prec : option Z) (p : pfx) : dec :=
  let x := dscale10 (number p) (prefix p - 0) in
  match prec with None => x | Some k => round_prec k x end.
Definition export_float_ctx (prec : option Z) (x : num) : result dbl :=
  match x with
  | NPre nm ne pe => Ok (rnd (unit_number_ctx prec (num_pfx nm ne pe)))
  | NLit _ => Error EBadKind
  end.

(* ---- Model/SimExport.v with concrete float fields *)
Definition xf_c (x : num) : result fnum := d <- export_float x ;; Ok (FDbl d).
Definition xf_opt_c (x : option num) : result fnum :=
  match x with None => Ok (FDbl export_float_none) | Some y => xf_c y end.
Definition xf_int_c (n : Z) : fnum := FDbl (export_float_int n).

Definition xsweep_c (s : sweep) : result osweep :=
  match s with
  | SwLin a b c => a' <- xf_c a ;; b' <- xf_c b ;; c' <- xf_c c ;; Ok (OLin a' b' c')
  | SwLog a b n => a' <- xf_c a ;; b' <- xf_c b ;; Ok (OLog a' b' (xf_int_c n))
  | SwPts l => l' <- traverse xf_c l ;; Ok (OPts l')
  end.

Fixpoint xan_c (a : analysis) (k : N) : result (oan * N) :=
  match a with
  | AOp n => let '(nm, k1) := pick_name n k in Ok (OOp nm, k1)
  | ADc v sw n => let '(nm, k1) := pick_name n k in sw' <- xsweep_c sw ;; Ok (ODc nm (xvar v) sw', k1)
  | AAc a b np n =>
      let '(nm, k1) := pick_name n k in
      a' <- xf_c a ;; b' <- xf_c b ;; _ <- chk (in_u64 np) ;; Ok (OAc nm a' b' np, k1)
  | ATran t ts n =>
      let '(nm, k1) := pick_name n k in t' <- xf_c t ;; ts' <- xf_opt_c ts ;; Ok (OTran nm t' ts', k1)
  | ANoise o src a b np n =>
      let '(nm, k1) := pick_name n k in
      pn <- xnout o ;; a' <- xf_c a ;; b' <- xf_c b ;; _ <- chk (in_u64 np) ;;
      Ok (ONoise nm (fst pn) (snd pn) (nsrc_name src) a' b' np, k1)
  | ASweep inner v sw n =>
      let '(nm, k1) := pick_name n k in
      sw' <- xsweep_c sw ;; r <- thread xan_c inner k1 ;; Ok (OSweep nm (xvar v) sw' (fst r), snd r)
  | AMonte inner np n =>
      let '(nm, k1) := pick_name n k in
      r <- thread xan_c inner k1 ;; _ <- chk (in_i64 np) ;; Ok (OMonte nm np 0 (fst r), snd r)
  | ACustom cmd n => let '(nm, k1) := pick_name n k in Ok (OCustom nm cmd, k1)
  end.

Fixpoint xattrs_c (l : list attr) (k : N) : result outs :=
  match l with
  | [] => Ok ([], [], [])
  | AtOpt n v :: l' =>
      p <- xoval v ;; r <- xattrs_c l' k ;;
      let '(os, ans, cs) := r in Ok ((n, p) :: os, ans, cs)
  | AtAn a :: l' =>
      r1 <- xan_c a k ;; r <- xattrs_c l' (snd r1) ;;
      let '(os, ans, cs) := r in Ok (os, fst r1 :: ans, cs)
  | AtCtrl c :: l' =>
      c' <- xctrl c ;; r <- xattrs_c l' k ;;
      let '(os, ans, cs) := r in Ok (os, ans, c' :: cs)
  end.

Definition export_one_c (pkg : list (N * string)) (s : sim) : result siminput :=
  if negb (one_scalar_port (tb_ports (s_tb s))) then Error EBadKind
  else
    r <- xattrs_c (s_attrs s) 0 ;;
    let '(os, ans, cs) := r in
    Ok {| o_top := mod_name (tb_mod (s_tb s)); o_pkg := pkg; o_opts := os; o_an := ans; o_ctrls := cs |}.

Definition export_all_c (l : list sim) : result (list siminput) :=
  st <- seq_fold xmod (map (fun s => tb_mod (s_tb s)) l) {| reserved := []; done := [] |} ;;
  traverse (export_one_c (done st)) l.
End Float.

(* ---- the nearest double, computed (round-half-even): a correctly rounding float() in Coq.
   a / b > 0 is scaled to units of 2^-1076 (V / b = q + r / b); the spacing 2^s of the doubles around it follows from the bit
   length of q (never below 2^2 = the subnormal spacing 2^-1074); the mantissa is q / 2^s rounded half-even on the remainders;
   a mantissa of 2^53 moves to the next binade; beyond E = 971 the result is an infinity. *)
Definition round_abs_ref (a b : Z) : option (Z * Z) :=
  let V := a * 2 ^ 1076 in
  let q := V / b in let r := V mod b in
  let s := Z.max 2 (Z.log2 q - 52) in
  let H := 2 ^ (s - 1) in
  let M0 := q / (2 * H) in let rem := q mod (2 * H) in
  let up := if rem <? H then false else if (H <? rem) || (0 <? r) then true else Z.odd M0 in
  let M1 := if up then M0 + 1 else M0 in
  let Ms := if M1 =? 2 ^ 53 then (2 ^ 52, s + 1) else (M1, s) in
  if 2047 <? snd Ms then None else Some (fst Ms, snd Ms - 1076).
(* the same function with one Euclidean division and shifts for the powers of two (what the correspondence run
   evaluates; equal to round_abs_ref by Proofs/C17RoundProofs.v: round_abs_fast) *)
Definition round_abs (a b : Z) : option (Z * Z) :=
  let V := Z.shiftl a 1076 in
  let qr := Z.div_eucl V b in
  let q := fst qr in let r := snd qr in
  let s := Z.max 2 (Z.log2 q - 52) in
  let H := Z.shiftl 1 (s - 1) in
  let M0 := Z.shiftr q s in let rem := q - Z.shiftl M0 s in
  let up := if rem <? H then false else if (H <? rem) || (0 <? r) then true else Z.odd M0 in
  let M1 := if up then M0 + 1 else M0 in
  let Ms := if M1 =? 2 ^ 53 then (2 ^ 52, s + 1) else (M1, s) in
  if 2047 <? snd Ms then None else Some (fst Ms, snd Ms - 1076).
Definition round_dbl (m e : Z) : dbl :=
  let ab := scale10 (Z.abs m) e in
  match round_abs (fst ab) (snd ab) with
  | Some (M, E) => DFin (m <? 0) M E
  | None => DInf (m <? 0)
  end.
(* float() of a Decimal, as a function *)
Definition round_dec (d : dec) : dbl := round_dbl (dint d) (dexp d).
