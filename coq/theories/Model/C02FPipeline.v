(* Model/C02FPipeline.v — the default pass list WITH its checking passes, over the per-module functions of C01F
   (Model/C01FElab.v): ResolvePortRefs follows references NESTED in slices and concatenations (update_ref_deps).

   Same stages, same order as Model/C02EPipeline.v (the regenerated Hdl21Gen.DefaultPasses; Props/C02F.v re-proves the
   order against the table), with two differences:

     SPortRefs   Model/C01FElab.v:portrefs2_design  instead of  Model/C01EElab.v:portrefs_design
                 (module_portrefs holds every reference handed out, also those taken inside Slices / Concats; after the
                 groups are resolved every reference leaf that is left is re-parented onto the source of its group);
     build       a stage in FRONT of the pass list: what the public constructors refuse before any pass runs.
                 hdl21/concat.py:Concat.__init__ registers itself on every part (`part._concats`): a NoConn has no such
                 attribute (AttributeError), and a NoConn is not subscriptable (TypeError) - a no-connect can only ever be
                 a WHOLE connection.  The design language of Base/Design.v can write a no-connect leaf inside an
                 expression; build_design refuses it (ENoConn), as Spec/WfDesign.v:wf_conn does (has_nc_inside).

   The checks themselves are the definitions of Model/C02EPipeline.v, unchanged (hier_design, orphanage_design,
   conntypes_design, mark_design), so is the reading of a leaf (leaf_oconn, ct_width). *)
From Coq Require Import String.
Require Import Hdl21.Base.PyInt Hdl21.Spec.PySlice Hdl21.Model.Slice Hdl21.Model.Resolve Hdl21.Base.Design
               Hdl21.Spec.WfDesign Hdl21.Base.Package Hdl21.Model.Checks Hdl21.Model.C02Checks Hdl21.Model.C01EElab
               Hdl21.Model.C01FElab Hdl21.Model.C02EPipeline.
Open Scope string_scope.
Open Scope list_scope.
Open Scope Z_scope.

(* ------------------------------------------------------------------------------------------------ the constructors *)
(* a no-connect is a whole connection or nothing *)
Definition build_conn (m : module) (c : name * sx) : bool :=
  match is_nc m (snd c) with Some _ => true | None => negb (has_nc_inside m (snd c)) end.
Definition build_check (self : nat) (m : module) : result unit :=
  check (forallb (fun x => forallb (build_conn m) (i_conns x)) (m_insts m)) ENoConn.
Definition build_design (d : design) : result unit := each_module build_check d.

(* ------------------------------------------------------------------------------------------------ the pass list *)
Inductive stage2 := SBuild | SOf (s : stage).

Definition checked_elab2 (xi : xinfo) (d : design) : result design :=
  _ <- build_design d ;;
  _ <- hier_design d ;;
  _ <- orphanage_design d ;;
  d1 <- portrefs2_design xi d ;;
  _ <- conntypes_design d1 ;;
  d2 <- arrays_design d1 ;;
  d3 <- slices_design d2 ;;
  _ <- conntypes_design d3 ;;
  _ <- orphanage_design d3 ;;
  _ <- mark_design d3 ;;
  Ok d3.

Definition checked_pipeline2 (xi : xinfo) (d : design) : result package :=
  d3 <- checked_elab2 xi d ;; export_model xi d3.

(* the same computation, naming the stage that stopped it *)
Definition checked_run2 (xi : xinfo) (d : design) : stage2 * result package :=
  match build_design d with
  | Error e => (SBuild, Error e)
  | Ok _ =>
  match (_ <- hier_design d ;; orphanage_design d) with
  | Error e => (SOf SOrphanage, Error e)
  | Ok _ =>
  match portrefs2_design xi d with
  | Error e => (SOf SPortRefs, Error e)
  | Ok d1 =>
  match conntypes_design d1 with
  | Error e => (SOf SConnTypes, Error e)
  | Ok _ =>
  match arrays_design d1 with
  | Error e => (SOf SArrays, Error e)
  | Ok d2 =>
  match slices_design d2 with
  | Error e => (SOf SSlices, Error e)
  | Ok d3 =>
  match conntypes_design d3 with
  | Error e => (SOf SPostConnTypes, Error e)
  | Ok _ =>
  match orphanage_design d3 with
  | Error e => (SOf SPostOrphanage, Error e)
  | Ok _ =>
  match mark_design d3 with
  | Error e => (SOf SMark, Error e)
  | Ok _ =>
  match export_model xi d3 with
  | Error e => (SOf SExport, Error e)
  | Ok p => (SOf SDone, Ok p)
  end end end end end end end end end end.

(* ------------------------------------------------------------------------------------------------ the wider fragment *)
(* What is left of Model/C02EPipeline.v:frag_e:
     (1) is GONE: a port reference may sit inside slices and concatenations, at any depth; a no-connect inside an
         expression is no restriction of the theorem any more but a fault the model rejects (build_design);
     (2) stays: a reference names a port of a single instance (or of no instance of the module at all).
         Spec/WfDesign.v calls a reference to a port of an instance ARRAY faulty (EBadKind), which is none of the fault
         classes of the statement and which the implementation accepts (broadcast); Model/C01FElab.v keeps the universe of
         groups to the ports of single instances (all_keys), so it does not model them either;
     (3) `all_used` is needed only for the ONE conjunct of wf_design that speaks about modules the exporter never
         sees (names of modules that are listed but not below the top module): Props/C02F.v states the theorem without
         it for the reachable modules (C02F_reject_complete_reach_partial) and with it for wf_design. *)
Definition frag_f (d : design) : bool :=
  forallb (fun m => forallb (fun x => forallb (fun c : name * sx => forallb (ref_single m) (sx_leaves (snd c)))
                                              (i_conns x)) (m_insts m)) (d_mods d).

(* the modules below the top module: what the exporter walks *)
Inductive reach (d : design) : nat -> Prop :=
| reach_top : reach d (d_top d)
| reach_child j k m x : reach d j -> nth_error (d_mods d) j = Some m -> In x (m_insts m) -> i_of x = TMod k -> reach d k.

(* Spec/WfDesign.v:wf_design with the name-clash conjunct restricted to the reachable modules *)
Definition wf_design_reach (d : design) : Prop :=
  (d_top d < Datatypes.length (d_mods d))%nat /\
  (forall i j mi mj, reach d i -> reach d j -> i <> j -> nth_error (d_mods d) i = Some mi -> nth_error (d_mods d) j = Some mj ->
     m_name mi <> m_name mj) /\
  wf_mods d 0 (d_mods d) = Ok tt.
