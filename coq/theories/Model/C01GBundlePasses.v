(* Model/C01GBundlePasses.v — the bundle passes of hdl21/elab, function by function, on the bundle design language
   (Base/C01BDesign.v):   bundle_passes : bdesign -> result design  =  ib_design ; flat_design.

   hdl21/elab/passes/inst_bundles.py
     InstBundleElabPass.elaborate_module        -> ib_module   (`while module.instbundles: popitem()`: the Pair added last first;
                                                                 its name leaves the namespace before its members are named)
     elaborate_instance_bundle                  -> ib_pairs / pair_conn
        one Instance per Signal of the Pair's bundle (h.Diff: p, n), named flatname([pair, member], avoid = module.namespace)
        and added to the module (behind the existing instances); every connection of the Pair is split:
          a BundleInstance          -> member p / n of it (`_bundle_ref(conn, signame)`)                       BXInst b [] -> BXInst b [e]
          an AnonymousBundle        -> its member NAMED p / n (`conn.get(signame)`); other members are refused  BXAnon
          any other connectable     -> the same object to both (scalar, Slice, Concat, NoConn, PortRef, BundleRef)
   hdl21/elab/passes/flatten_bundles.py
     BundleFlattener.elaborate_module           -> flat_module: `while module.bundles: popitem()` + naming = Model/BundleFlat.v:
                                                   flatten_module (re-used: flatten_bundle_inst, name_scope, flatname with
                                                   avoid = the module namespace at that moment), then every instance connection
     replace_bundle_inst / THE_CACHE            -> mscopes m: bundle instance -> its flattened scope (path -> named signal);
                                                   flat_bundle_ports[(module, port)] = port_scope (the CHILD's own flattening)
     replace_bundle_conn (repaired: 8fdfa58 extras refused, 0e3c50b in place)
                                                -> BundleFlat.replace_bundle_conn_checked child parent, BY PATH, in the child's order
     resolve_bundleref / resolve_path           -> resolve_ref: a reference b.pre is a Signal (passoc) or the sub-scope below pre
     flatten_anonymous_bundle                   -> to_anon + BundleFlat.flatten_anon (members: scalars kept, bundle instances /
                                                   references -> sub-scopes, nested anonymous bundles, port references)
   hdl21/elab/passes/portrefs.py (bundle-valued cases only) and the order of passes — DEVIATION, stated in notes/C01G.md:
     the implementation runs ResolvePortRefs BEFORE BundleFlattener: a group of references to a bundle-valued port is
     resolved to ONE BundleInstance (copied from the port, named inst_port) or to the group's declared bundle, a no-connect on a
     bundle-valued port to a fresh BundleInstance (arrays: an AnonymousBundle of n-times-wider Signals, repair 44298fc), and
     these are flattened afterwards.  The model flattens first and hands the references / no-connects on MEMBER-WISE
     (`LRef i flat_port`, `LNc`) to the scalar ResolvePortRefs model (Model/C01FElab.v), which then makes one implicit /
     private signal per member.  Same nets, same flattened names of declared bundles; names and order of the INVENTED
     signals may differ (not fixed by the property; compared as information by the tie).
   PostFlattenConnTypes (width check of every flattened connection)       -> conn_widths (EWidth)

   Leaves invented by the flattening are kept symbolic and numbered at the end (Spec/C01GLower.v:finish_module), the way
   Spec/C01BLower.v numbers them: leaf ids are an artefact of the design language (object identity), not of the code. *)
From Coq Require Import String Ascii.
Require Import Hdl21.Base.PyInt Hdl21.Spec.PySlice Hdl21.Model.Slice Hdl21.Model.Resolve Hdl21.Base.Design
               Hdl21.Spec.Nets Hdl21.Spec.WfDesign Hdl21.Base.C01BDesign Hdl21.Spec.C01BNets Hdl21.Spec.C01BWf
               Hdl21.Spec.C01BLower Hdl21.Spec.C01GLower.
Require Hdl21.Spec.BundleSpec.
Require Import Hdl21.Model.BundleFlat.
Notation scope := BundleSpec.scope.
Notation fsig := BundleSpec.fsig.
Notation fname := BundleSpec.fname.
Notation fwidth := BundleSpec.fwidth.
Notation passoc := BundleSpec.passoc.
Notation bname := BundleSpec.bname.
Require Hdl21Gen.C10Tables.
Open Scope string_scope.
Open Scope list_scope.
Open Scope Z_scope.

Definition maxlen : Z := Hdl21Gen.C10Tables.flatname_maxlen.

(* ------------------------------------------------------------------------------------------------ InstBundleElabPass *)
(* module.namespace: every named attribute of the module *)
Definition mod_ns (m : bmodule) : list string :=
  map fst (bm_ports m) ++ map fst (bm_sigs m) ++ map (fun pt : bool * btree => bname (snd pt)) (bm_bundles m) ++ map bi_name (bm_insts m).

(* the connection of member e (0 = p, 1 = n) of a Pair *)
Definition pair_conn (e : Z) (c : name * bexpr) : result (name * bexpr) :=
  match snd c with
  | BXInst b [] => Ok (fst c, BXInst b [pair_elem e])
  | BXAnon ms =>
      _ <- check (forallb (fun nb : name * bexpr => String.eqb (fst nb) (pair_elem 0) || String.eqb (fst nb) (pair_elem 1)) ms) EExtra ;;
      v <- ofopt EMissing (bassoc (pair_elem e) ms) ;; Ok (fst c, v)
  | bx => Ok (fst c, bx)
  end.

Definition pair_member (x : binst) (nm : name) (cs : list (name * bexpr)) : binst :=
  {| bi_name := nm; bi_n := 0; bi_pair := false; bi_of := bi_of x; bi_conns := cs |}.

(* prs: the Pairs in the order they are popped; acc: the new instances; names: Pair -> (name of p, name of n) *)
Fixpoint ib_pairs (prs : list binst) (ns : list string) (acc : list binst) (names : list (name * (name * name)))
  : result (list binst * list (name * (name * name))) :=
  match prs with
  | [] => Ok (acc, names)
  | x :: rest =>
      let ns1 := remove_name (bi_name x) ns in
      np <- flatname [bi_name x; pair_elem 0] ns1 maxlen ;;
      nn <- flatname [bi_name x; pair_elem 1] (ns1 ++ [np]) maxlen ;;
      cp <- traverse (pair_conn 0) (bi_conns x) ;;
      cn <- traverse (pair_conn 1) (bi_conns x) ;;
      ib_pairs rest (ns1 ++ [np; nn]) (acc ++ [pair_member x np cp; pair_member x nn cn]) (names ++ [(bi_name x, (np, nn))])
  end.

Definition ib_run (m : bmodule) : result (list binst * list (name * (name * name))) :=
  ib_pairs (rev (filter bi_pair (bm_insts m))) (mod_ns m) [] [].

Definition ib_module (m : bmodule) : result bmodule :=
  r <- ib_run m ;;
  Ok {| bm_name := bm_name m; bm_ports := bm_ports m; bm_sigs := bm_sigs m; bm_bundles := bm_bundles m;
        bm_insts := filter (fun x => negb (bi_pair x)) (bm_insts m) ++ fst r; bm_leaves := bm_leaves m |}.

Definition ib_design (d : bdesign) : result bdesign :=
  ms <- traverse ib_module (bd_mods d) ;; Ok {| bd_mods := ms; bd_top := bd_top d |}.

(* ------------------------------------------------------------------------------------------------ BundleFlattener: names *)
(* the names of everything in the module that is not a bundle instance, when BundleFlattener runs *)
Definition flat_ns0 (m : bmodule) : list string := map fst (bm_ports m) ++ map fst (bm_sigs m) ++ map bi_name (bm_insts m).

(* THE_CACHE.bundle_insts of one module: bundle instance -> flattened scope, in the order they are popped *)
Definition mscopes (m : bmodule) : result (list (string * scope)) :=
  r <- flatten_module maxlen (flat_ns0 m) (bm_bundles m) ;; Ok (fst r).

Definition scope_name (scs : list (string * scope)) (b : name) (q : mpath) : name :=
  match assoc b scs with
  | Some sc => match passoc q sc with Some f => fname f | None => b end
  | None => b
  end.

(* the naming the passes compute for module m *)
Definition fl_impl (m : bmodule) : naming :=
  match mscopes m with Ok scs => scope_name scs | Error _ => fun b _ => b end.

Definition scope_sigs (sc : scope) : list (name * Z) := map (fun e : mpath * fsig => (fname (snd e), fwidth (snd e))) sc.

(* the flattened Signals added to module.ports (port = true) / module.signals, in the order they are added *)
Definition flat_sigs (port : bool) (m : bmodule) (scs : list (string * scope)) : list (name * Z) :=
  flat_map (fun bs : string * scope =>
              match find_bundle (bm_bundles m) (fst bs) with
              | Some (p, _) => if Bool.eqb p port then scope_sigs (snd bs) else []
              | None => []
              end) scs.

(* THE_CACHE.flat_bundle_ports[(target, port)] *)
Definition port_scope (d : bdesign) (t : target) (port : name) : result scope :=
  match t with
  | TDev _ _ => Error EBadKind
  | TMod k =>
      c <- nth_bmod d k ;;
      match find_bundle (bm_bundles c) port with
      | Some (true, _) => scs <- mscopes c ;; ofopt EMissing (assoc port scs)
      | _ => Error EMissing
      end
  end.

(* ------------------------------------------------------------------------------------------------ BundleFlattener: connections *)
Definition scope_pvals (mk : fsig -> leaf) (sc : scope) : list (mpath * pval) :=
  map (fun e : mpath * fsig => (fst e, PLeaf (mk (snd e)) (fwidth (snd e)))) sc.

Definition sig_leaf (f : fsig) : leaf := LSig (fname f).

Section Conns.
Variable d : bdesign.
Variable m : bmodule.
Variable own : list (string * scope).      (* mscopes m *)

(* resolve_bundleref / resolve_path: b.pre is a Signal of the flattened bundle or the scope of a sub-bundle *)
Definition resolve_ref (b : name) (pre : mpath) : result (pval + list (mpath * pval)) :=
  bt <- ofopt EOrphan (find_bundle (bm_bundles m) b) ;;
  sc <- ofopt EOrphan (assoc b own) ;;
  match pre with
  | [] => Ok (inr (scope_pvals sig_leaf sc))
  | _ :: _ =>
      match passoc pre sc with
      | Some f => Ok (inl (PLeaf (sig_leaf f) (fwidth f)))
      | None => match subtree pre (snd bt) with
                | Some _ => Ok (inr (scope_pvals sig_leaf (subscope pre sc)))
                | None => Error EMissing                (* "Cannot resolve path" *)
                end
      end
  end.

(* the bundle-valued port p of the sibling instance i: one reference per flat port of the sibling *)
Definition sibling_pvals (i p : name) : result (list (mpath * pval)) :=
  y <- ofopt EMissing (find_binst (bm_insts m) i) ;;
  sc <- port_scope d (bi_of y) p ;;
  Ok (scope_pvals (fun f => LRef i (fname f)) sc).

(* what flatten_anonymous_bundle sees: every attribute after the references have been resolved *)
Fixpoint to_anon (bx : bexpr) : result (anon pval) :=
  match bx with
  | BXSx cx => match bis_nc m cx with
               | Some _ => Error ENoConn             (* "Invalid AnonymousBundle NoConn attribute" *)
               | None => Ok (ASig (PSx cx))
               end
  | BXInst b pre => r <- resolve_ref b pre ;; Ok (match r with inl v => ASig v | inr sc => AScope sc end)
  | BXAnon ms =>
      ms' <- (fix go (l : list (name * bexpr)) : result (list (string * anon pval)) :=
                match l with
                | [] => Ok []
                | (n, sub) :: r => a <- to_anon sub ;; r' <- go r ;; Ok ((n, a) :: r')
                end) ms ;;
      Ok (AAnon ms')
  | BXRef i p => sc <- sibling_pvals i p ;; Ok (AScope sc)
  | BXNc _ => Error ENoConn                           (* "Invalid AnonymousBundle NoConn attribute" *)
  end.

(* the parent side of a connection to a bundle-valued port whose flattened scope is csc *)
Definition parent_map (csc : scope) (bx : bexpr) : result (list (mpath * pval)) :=
  match bx with
  | BXNc _ => Ok (scope_pvals (fun _ => LNc 0) csc)
  | _ => a <- to_anon bx ;; flatten_anon a
  end.

(* PostFlattenConnTypes on the flattened connections that are whole Signals / ports: same width as the flat port *)
Definition conn_widths (csc : scope) (pm : list (mpath * pval)) : result unit :=
  all_ok (fun e : mpath * fsig => match passoc (fst e) pm with
                                 | Some (PLeaf _ w) => check (w =? fwidth (snd e)) EWidth
                                 | _ => Ok tt
                                 end) csc.

Definition flat_conn (x : binst) (c : name * bexpr) : result (list (name * pval)) :=
  pk <- port_kind_of d (bi_of x) (fst c) ;;
  match pk with
  | PKScalar w =>
      match snd c with
      | BXSx cx => Ok [(fst c, PSx cx)]
      | BXInst b pre =>
          r <- resolve_ref b pre ;;
          match r with
          | inl (PLeaf lf w') => _ <- check (w' =? w) EWidth ;; Ok [(fst c, PLeaf lf w')]
          | _ => Error EBadKind
          end
      | _ => Error EBadKind                           (* "Invalid Port Connection": not a bundle-valued port *)
      end
  | PKBundle _ =>
      csc <- port_scope d (bi_of x) (fst c) ;;
      pm <- parent_map csc (snd c) ;;
      cs <- replace_bundle_conn_checked csc pm ;;
      _ <- conn_widths csc pm ;;
      Ok cs
  end.

Definition flat_xinst (x : binst) : result xinst :=
  css <- traverse (flat_conn x) (bi_conns x) ;;
  Ok {| xi_name := bi_name x; xi_n := bi_n x; xi_of := bi_of x; xi_conns := concat css |}.
End Conns.

Definition flat_module (d : bdesign) (m : bmodule) : result module :=
  own <- mscopes m ;;
  xs <- traverse (flat_xinst d m own) (bm_insts m) ;;
  Ok (finish_module m (scope_name own) (bm_ports m ++ flat_sigs true m own) (bm_sigs m ++ flat_sigs false m own) xs).

Definition flat_design (d : bdesign) : result design :=
  ms <- traverse (flat_module d) (bd_mods d) ;; Ok {| d_mods := ms; d_top := bd_top d |}.

(* ------------------------------------------------------------------------------------------------ the passes *)
Definition bundle_passes (d : bdesign) : result design := d1 <- ib_design d ;; flat_design d1.

(* ------------------------------------------------------------------------------------------------ terminals *)
(* where InstBundleElabPass puts the nodes of a design: element e of Pair i is the instance it created for member e *)
Definition pair_name (m : bmodule) (i : name) (e : Z) : option name :=
  match ib_run m with
  | Ok r => match assoc i (snd r) with Some pn => Some (if e =? 0 then fst pn else snd pn) | None => None end
  | Error _ => None
  end.

Definition up_elem (m : bmodule) (ie : pelem) : pelem :=
  match find_binst (bm_insts m) (fst ie) with
  | Some x => if bi_pair x then match pair_name m (fst ie) (snd ie) with Some n => (n, 0) | None => ie end else ie
  | None => ie
  end.

Fixpoint up_down (d : bdesign) (m : bmodule) (p : list pelem) : list pelem :=      (* p outermost first *)
  match p with
  | [] => []
  | ie :: p' =>
      up_elem m ie ::
      match find_binst (bm_insts m) (fst ie) with
      | Some x => match bi_of x with
                  | TMod k => match nth_error (bd_mods d) k with Some m' => up_down d m' p' | None => p' end
                  | TDev _ _ => p'
                  end
      | None => p'
      end
  end.

Definition up_path (d : bdesign) (p : path) : path :=
  match nth_error (bd_mods d) (bd_top d) with Some top => rev (up_down d top (rev p)) | None => p end.

Definition up_node (d : bdesign) (n : bnode) : bnode :=
  match n with
  | NBSig p s mp k => NBSig (up_path d p) s mp k
  | NBPort p i e port mp k =>
      match bmod_at d p with
      | Ok m => let ie := up_elem m (i, e) in NBPort (up_path d p) (fst ie) (snd ie) port mp k
      | Error _ => n
      end
  | NBNc p s k => n
  end.
