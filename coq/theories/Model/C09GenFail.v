(* Model/C09GenFail.v — hdl21/generator.py: run / _generate and the GeneratorCache over histories in which calls may
   RAISE and the history GOES ON (the exception is caught by the caller: a notebook cell run again, a try / except
   fallback).  Model/GenCache.v ends a history at the first exception; this file keeps the state a failed call leaves
   behind, so that "refused, and refused again", "a failed call hands out no module later" and "no module of a
   parametric generator ever lacks its suffix" are statements about ALL histories.

   What can raise in a call k (bodies stay deterministic functions of their parameters, as in GenCache.v):
     ECycle  k is pending (circular dependency);
     EName   NAMING the result fails AFTER the body ran: `_unique_name(call.params)` raises for parameters that have no
             JSON form (a function, a lambda, an object of a user type, an Instance ...): suffix k = None.  Only a module
             that this body created is named (a handed-on module keeps its name and is not touched);
     EOther  the body hands on the result of a nested call it did not make (table error);
     EFuel   the model's recursion bound (an artefact: theorems about refusals exclude it explicitly);
     any error of a nested call ends the calling body with the same error.
   `run` (repaired tree, fix C08-2): try / finally around the body restores `pending` and `stack` however the call ends,
   and the result enters `Cache.done` only after `_generate` returned it, i.e. after it was named.

   The policy says WHEN the result is stored:
     StoreNamed — the code: `the_cache.done[call] = m` after `_generate` (run, check, name) returned;
     StoreFirst — the seeded changes C09r2-A / C08r2-A, literally: the result is stored (and `m.name = gen.name` is set)
                  BEFORE `_unique_name` is called; when that raises, the un-suffixed module stays in the cache.
                  Refuted in Props/C09.v. *)
Require Import Hdl21.Base.PyInt Hdl21.Model.GenCache.
From Coq Require Import String.
Open Scope string_scope.

Inductive outcome := Ret (m : nat) | Raise (e : err).
Inductive folded := FRet (ms : list nat) | FRaise (e : err).
Inductive store_policy := StoreNamed | StoreFirst.

Section CacheF.
Variable K : Type.
Variable keqb : K -> K -> bool.
Variable prog : K -> body K.
Variable gen_name : K -> string.      (* call.gen.name *)
Variable has_params : K -> bool.      (* hasparams(call.gen.Params) *)
Variable suffix : K -> option string. (* _unique_name(call.params); None: it raises *)
Variable pol : store_policy.

Definition sfx (k : K) : string := match suffix k with Some s => s | None => "" end.
(* naming the module created by k's body does not raise *)
Definition name_ok (k : K) : bool := negb (has_params k) || match suffix k with Some _ => true | None => false end.

Definition base_name (k : K) (o : option string) : string := match o with Some n => n | None => gen_name k end.

Definition enter (k : K) (st : state K) : state K :=
  {| done := done st; pending := k :: pending st; stack := k :: stack st; heap := heap st; runs := k :: runs st |}.
(* the two `finally` clauses *)
Definition leave (k : K) (st : state K) : state K :=
  {| done := done st; pending := removek keqb k (pending st); stack := tl (stack st); heap := heap st; runs := runs st |}.
(* ... and `the_cache.done[call] = m` *)
Definition store (k : K) (m : nat) (hp : list (gmodule K)) (st : state K) : state K :=
  {| done := (k, m) :: done st; pending := removek keqb k (pending st); stack := tl (stack st); heap := hp; runs := runs st |}.

Fixpoint fold_f (r : state K -> K -> state K * outcome) (st : state K) (ks : list K) : state K * folded :=
  match ks with
  | [] => (st, FRet [])
  | k :: ks' =>
      match r st k with
      | (st1, Raise e) => (st1, FRaise e)
      | (st1, Ret m) => match fold_f r st1 ks' with
                        | (st2, FRaise e) => (st2, FRaise e)
                        | (st2, FRet ms) => (st2, FRet (m :: ms))
                        end
      end
  end.

Fixpoint run_f (fuel : nat) (st : state K) (k : K) : state K * outcome :=
  match fuel with
  | O => (st, Raise EFuel)
  | S f =>
      match lookup keqb k (done st) with
      | Some m => (st, Ret m)                                         (* cache hit: the body is not run *)
      | None =>
          if memk keqb k (pending st) then (st, Raise ECycle) else    (* pushed, refused, popped *)
          match fold_f (run_f f) (enter k st) (b_calls (prog k)) with
          | (st2, FRaise e) => (leave k st2, Raise e)                 (* a nested call raised: so does this body *)
          | (st2, FRet ms) =>
              match b_ret (prog k) with
              | RPass i =>                                            (* handed on: not named again *)
                  match nth_error ms i with
                  | Some m => (store k m (heap st2) st2, Ret m)
                  | None => (leave k st2, Raise EOther)
                  end
              | RFresh o =>
                  let m := List.length (heap st2) in
                  if name_ok k
                  then (store k m (heap st2 ++ [{| m_name := fresh_name gen_name has_params sfx k o; m_creator := k |}])%list st2, Ret m)
                  else match pol with
                       | StoreNamed => (leave k st2, Raise EName)     (* nothing is stored, the module is garbage *)
                       | StoreFirst =>                                (* stored and half named when _unique_name raises *)
                           (store k m (heap st2 ++ [{| m_name := base_name k o; m_creator := k |}])%list st2, Raise EName)
                       end
              end
          end
      end
  end.

(* a history: top-level calls in one interpreter, every exception caught, the next call made *)
Fixpoint hist_from (fuel : nat) (st : state K) (ks : list K) : state K * list outcome :=
  match ks with
  | [] => (st, [])
  | k :: ks' => let p := run_f fuel st k in
                let q := hist_from fuel (fst p) ks' in
                (fst q, snd p :: snd q)
  end.
Definition hist_f (fuel : nat) (ks : list K) : state K * list outcome := hist_from fuel init ks.

(* number of executions of the body of k *)
Definition nruns (k : K) (st : state K) : nat := List.length (filter (keqb k) (runs st)).

(* calls that can never complete, whatever the history: naming their own result raises, they hand on a call they do
   not make, or they call such a call *)
Inductive Doomed : K -> Prop :=
| D_name k o : b_ret (prog k) = RFresh o -> name_ok k = false -> Doomed k
| D_pass k i : b_ret (prog k) = RPass i -> nth_error (b_calls (prog k)) i = None -> Doomed k
| D_call k k' : In k' (b_calls (prog k)) -> Doomed k' -> Doomed k.

(* the call graph *)
Definition Calls (a b : K) : Prop := In b (b_calls (prog a)).
Inductive CallsPlus : K -> K -> Prop :=
| CP_one a b : Calls a b -> CallsPlus a b
| CP_step a b c : Calls a b -> CallsPlus b c -> CallsPlus a c.

(* ... or they reach a call that lies on a cycle of the call graph *)
Inductive Bad : K -> Prop :=
| B_doomed k : Doomed k -> Bad k
| B_cycle k : CallsPlus k k -> Bad k
| B_call k k' : Calls k k' -> Bad k' -> Bad k.

End CacheF.

Arguments run_f {K} keqb prog gen_name has_params suffix pol fuel st k.
Arguments fold_f {K} r st ks.
Arguments hist_from {K} keqb prog gen_name has_params suffix pol fuel st ks.
Arguments hist_f {K} keqb prog gen_name has_params suffix pol fuel ks.
Arguments name_ok {K} has_params suffix k.
Arguments sfx {K} suffix k.
Arguments nruns {K} keqb k st.
Arguments enter {K} k st.
Arguments leave {K} keqb k st.
Arguments store {K} keqb k m hp st.
Arguments base_name {K} gen_name k o.
Arguments Doomed {K} prog has_params suffix _.
Arguments Calls {K} prog _ _.
Arguments CallsPlus {K} prog _ _.
Arguments Bad {K} prog has_params suffix _.
