(* Model/C09SetName.v — the set branch of hdl21/params.py:hdl21_naming_encoder (repair C09-5), on its own value type.

     if isinstance(obj, (set, frozenset)):
         return sorted(json.dumps(x, default=hdl21_naming_encoder, sort_keys=True) for x in obj)

   A set has no order of its own: `for x in obj` visits the members in an order that depends on the process (string
   hashing is randomised per PYTHONHASHSEED) and on how the set was built.  A value is therefore modelled AS ITERATED:
   `SSet ms` lists the members in the order this interpreter iterates over them; the same set value in another
   interpreter is `SSet` of a permutation of `ms`, at every level of nesting (`shuffle`).  `enc` is the JSON text that
   json.dumps(v, default=hdl21_naming_encoder, sort_keys=True) writes: an int by its decimal text, a str in double quotes with
   the double quote and the backslash escaped (printable ASCII only occurs in the correspondence run), a set as the JSON list of the SORTED texts of
   its members - each text again a JSON string.  `sorted` on str is the code-point order: String.leb on ASCII.

   `enc_by_str` is the seeded change C09r3-A: `return sorted(obj, key=str)` - the members themselves, stably sorted by
   str(member), encoded in place.  str() of a member that is a set is written in ITS iteration order, and members with
   equal str() (1 and '1') keep their iteration order. *)
Require Import Hdl21.Base.PyInt Hdl21.Model.ParamName.
From Coq Require Import String Ascii.
Open Scope string_scope.

Inductive sval := SInt (z : Z) | SStr (s : string) | SSet (ms : list sval).

(* json.dumps of a str (ensure_ascii, printable ASCII): only the double quote and the backslash are escaped *)
Fixpoint escape (s : string) : string :=
  match s with
  | EmptyString => EmptyString
  | String a r => if Ascii.eqb a """" then String "\" (String """" (escape r))
                  else if Ascii.eqb a "\" then String "\" (String "\" (escape r))
                  else String a (escape r)
  end.
Definition quote (s : string) : string := String """" (escape s ++ String """" EmptyString).

(* sorted(): insertion sort by the code-point order *)
Fixpoint insert (x : string) (l : list string) : list string :=
  match l with
  | [] => [x]
  | y :: l' => if String.leb x y then x :: l else y :: insert x l'
  end.
Fixpoint sort (l : list string) : list string := match l with [] => [] | x :: l' => insert x (sort l') end.

(* the item separator of json.dumps without indent *)
Fixpoint join (l : list string) : string :=
  match l with
  | [] => EmptyString
  | x :: l' => match l' with [] => x | _ => x ++ ", " ++ join l' end
  end.

Fixpoint enc (v : sval) : string :=
  match v with
  | SInt z => dec z
  | SStr s => quote s
  | SSet ms => "[" ++ join (map quote (sort (map enc ms))) ++ "]"
  end.

(* the same value in another interpreter: every set iterates in another order (pi: any function that permutes) *)
Fixpoint shuffle (pi : list sval -> list sval) (v : sval) : sval :=
  match v with
  | SSet ms => SSet (pi (map (shuffle pi) ms))
  | _ => v
  end.

(* ---------- the seeded encoder: sorted(obj, key=str), members encoded in place ---------- *)
(* repr() of a member (simple strings: single quotes), str() of a frozenset: frozenset({ members }) in iteration order *)
Fixpoint pyrepr (v : sval) : string :=
  match v with
  | SInt z => dec z
  | SStr s => "'" ++ s ++ "'"
  | SSet ms => match ms with [] => "frozenset()" | _ => "frozenset({" ++ join (map pyrepr ms) ++ "})" end
  end.
Definition pystr (v : sval) : string := match v with SStr s => s | _ => pyrepr v end.

(* stable: a member goes before the first member whose key is not smaller (it came earlier in the iteration); the
   members travel as (str(member), text of the member) *)
Fixpoint insert_by (x : string * string) (l : list (string * string)) : list (string * string) :=
  match l with
  | [] => [x]
  | y :: l' => if String.leb (fst x) (fst y) then x :: l else y :: insert_by x l'
  end.
Fixpoint sort_by (l : list (string * string)) : list (string * string) :=
  match l with [] => [] | x :: l' => insert_by x (sort_by l') end.

Fixpoint enc_by_str (v : sval) : string :=
  match v with
  | SInt z => dec z
  | SStr s => quote s
  | SSet ms => "[" ++ join (map snd (sort_by (map (fun m => (pystr m, enc_by_str m)) ms))) ++ "]"
  end.
