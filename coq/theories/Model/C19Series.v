(* Model/C19Series.v — hdl21/generators.py: Series, MosStack, Wrapper (as repaired by fixes/C19-1..4 and fixes/C19W-1),
   branch by branch, followed by what elaboration makes of the generated module
   (Model/Arrays.v: the connection element k of the instance array receives; Model/Resolve.v: its bits).

   A unit cell is seen through its IO (generators.py:_unit_io): Signal-valued ports (name, width) and
   Bundle-valued ports (name, members); a bundle-valued port is cloned as a bundle instance and appears in
   the exported module as the flattened signals  <bundle>_<member>  (C10 is the property about those names).
   The generated module is a Base/Design.v `module` with one instance (array) whose target is the unit,
   seen as a device with the unit's leaf-level ports. *)
Require Import Hdl21.Base.PyInt Hdl21.Spec.PySlice Hdl21.Model.Slice Hdl21.Model.Resolve Hdl21.Model.Arrays
               Hdl21.Base.Design Hdl21.Spec.C19Topology.
From Coq Require String.
Open Scope string_scope.
Open Scope Z_scope.

(* generators.py:_unused_name — `while name in m.namespace: name += "_"`; fuel = 1 + longest name *)
Fixpoint unused_name (fuel : nat) (names : list name) (c : name) : result name :=
  if mem c names then
    match fuel with O => Error EFuel | S f => unused_name f names (sapp c "_") end
  else Ok c.

Definition maxlen (l : list name) : nat := fold_right (fun s m => Nat.max (String.length s) m) 0%nat l.
Definition name_fuel (names : list name) : nat := S (maxlen names).

(* the names _unused_name may try *)
Fixpoint cands (fuel : nat) (c : name) : list name :=
  c :: match fuel with O => [] | S f => cands f (sapp c "_") end.

Fixpoint nodup_names (l : list name) : bool :=
  match l with [] => true | x :: t => negb (mem x t) && nodup_names t end.

(* a unit the theorems (and the harness) range over: positive widths, at least one port, distinct leaf-level
   port names, distinct attribute names, and no flattened bundle member carries a name the generator may
   invent for its internal bus unless the unit's own attributes already block that name *)
Definition wf_unit (u : unit) : bool :=
  forallb (fun pw => 1 <=? snd pw) (unit_io u) && nodup_names (map fst (unit_io u)) && nodup_names (unit_names u)
  && negb (Nat.eqb (List.length (unit_io u)) 0)
  && forallb (fun c => mem c (unit_names u) || negb (mem c (map fst (unit_io u)))) (cands (name_fuel (unit_names u)) "i").

Fixpoint number {A} (l : list A) (k : N) : list (N * A) :=
  match l with [] => [] | x :: t => (k, x) :: number t (k + 1)%N end.

Definition leaves_of (sigs : list (name * Z)) : list (N * leaf) :=
  map (fun e => (fst e, LSig (fst (snd e)))) (number sigs 0%N).

(* generators.py:_seriesconn — m.ports.get(name): only a Signal-valued port of the unit qualifies *)
Definition series_port (u : unit) (c : name) : result Z :=
  match assoc c (u_sigs u) with Some w => Ok w | None => Error EBadKind end.

(* unit_conns: parallel ports by name; then [first] = Concat(first, i); then [second] = Concat(i, second)
   (the later assignment wins when both name one port); iw = the width of the internal bus i *)
Definition series_conn (iid : N) (iw : Z) (a b : name) (e : N * (name * Z)) : name * sx :=
  let '(id, (p, w)) := e in
  (p, if String.eqb p b then XConcat [XSig iid iw; XSig id w]
      else if String.eqb p a then XConcat [XSig id w; XSig iid iw]
      else XSig id w).

Definition unit_dev : name := "unit".

(* the stack module with an internal bus of width iw *)
Definition series_module_gen (u : unit) (a b : name) (iw n : Z) (iname uname : name) : module :=
  let io := unit_io u in
  let iid := N.of_nat (List.length io) in
  {| m_name := ""; m_ports := io; m_sigs := [(iname, iw)];
     m_insts := [ {| i_name := uname; i_n := n; i_of := TDev unit_dev io;
                     i_conns := map (series_conn iid iw a b) (number io 0%N) |} ];
     m_leaves := leaves_of (io ++ [(iname, iw)]) |}.

(* generators.py (fixes/C19W-1): `width = (params.nser - 1) * series_conns[0].width` - one private net per bit of the
   series ports between each pair of neighbouring units; w = the width of the FIRST series port.  (When the second
   series port has another width the generator still returns this module; Concat(i, second) then has width
   (n-1)*w + w', neither w' nor n*w', and elaboration refuses it in the array flattener: Props/C19W.v.) *)
Definition series_module (u : unit) (a b : name) (w n : Z) (iname uname : name) : module :=
  series_module_gen u a b ((n - 1) * w) n iname uname.

(* the PINNED generators.py: `h.Signal(width=params.nser - 1)` whatever the width of the series ports
   (= series_module at w = 1); for series ports wider than one bit elaboration refuses it: Props/C19W.v *)
Definition series_module_pinned (u : unit) (a b : name) (n : Z) (iname uname : name) : module :=
  series_module_gen u a b (n - 1) n iname uname.

(* Wrapper: clones of io(m), one instance (`inner`, or the first unused inner_, inner__, ...) connected port by port *)
Definition wrapper_module (u : unit) (iname : name) : module :=
  let io := unit_io u in
  {| m_name := ""; m_ports := io; m_sigs := [];
     m_insts := [ {| i_name := iname; i_n := 0; i_of := TDev unit_dev io;
                     i_conns := map (fun e : N * (name * Z) => (fst (snd e), XSig (fst e) (snd (snd e)))) (number io 0%N) |} ];
     m_leaves := leaves_of io |}.

Definition wrapper_gen (u : unit) : result module :=
  iname <- unused_name (name_fuel (unit_names u)) (unit_names u) "inner" ;; Ok (wrapper_module u iname).

(* Series(unit, conns=(a,b), nser=n) *)
Definition series_gen (u : unit) (a b : name) (n : Z) : result module :=
  if n <? 1 then Error EOther
  else if n =? 1 then wrapper_gen u
  else
    w <- series_port u a ;; _ <- series_port u b ;;
    iname <- unused_name (name_fuel (unit_names u)) (unit_names u) "i" ;;
    uname <- unused_name (name_fuel (iname :: unit_names u)) (iname :: unit_names u) "units" ;;
    Ok (series_module u a b w n iname uname).

(* the pinned tree's Series (after fixes/C19-1..4, before fixes/C19W-1) *)
Definition series_gen_pinned (u : unit) (a b : name) (n : Z) : result module :=
  if n <? 1 then Error EOther
  else if n =? 1 then wrapper_gen u
  else
    _ <- series_port u a ;; _ <- series_port u b ;;
    iname <- unused_name (name_fuel (unit_names u)) (unit_names u) "i" ;;
    uname <- unused_name (name_fuel (iname :: unit_names u)) (iname :: unit_names u) "units" ;;
    Ok (series_module_pinned u a b n iname uname).

(* MosStack(unit, nser) = Series(unit, nser, conns=("d","s")) *)
Definition mosstack_gen (u : unit) (n : Z) : result module := series_gen u "d" "s" n.

(* ---- elaboration of the generated module: the bits bit 0.. of port p of unit k sit on ---- *)
Definition leaf_name (m : module) (b : bit) : result (name * Z) :=
  lf <- ofopt EMissing (assocN (fst b) (m_leaves m)) ;;
  match lf with LSig s => Ok (s, snd b) | _ => Error EBadKind end.

Definition inst_ports (x : inst) : list (name * Z) := match i_of x with TDev _ ps => ps | TMod _ => [] end.

(* ConnTypes on a plain instance: widths must agree; ArrayFlattener on an array: Model/Arrays.v *)
Definition elem_conn (x : inst) (k : Z) (p : name) : result sx :=
  c <- ofopt EMissing (assoc p (i_conns x)) ;;
  w <- ofopt EMissing (assoc p (inst_ports x)) ;;
  if i_n x =? 0 then (cw <- xwidth c ;; if cw =? w then Ok c else Error EWidth)
  else array_elem_conn (i_n x) w c k.

Definition unit_bits (m : module) (x : inst) (k : Z) (p : name) : result (list (name * Z)) :=
  c <- elem_conn x k p ;; bs <- xbits c ;; traverse (leaf_name m) bs.

Definition elems_of (x : inst) : list Z := if i_n x =? 0 then [0] else iota (Z.to_nat (i_n x)) 0 1.

(* every port of every unit, in order: the model of "elaboration accepts, and this is what is exported" *)
Definition all_unit_bits (m : module) : result (list (list (list (name * Z)))) :=
  match m_insts m with
  | [x] => traverse (fun k => traverse (fun pw => unit_bits m x k (fst pw)) (inst_ports x)) (elems_of x)
  | _ => Error EOther
  end.
