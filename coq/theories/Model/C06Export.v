(* Model/C06Export.v — hdl21/proto/exporting.py:ProtoExporter, the part C06 is anchored in:
   the depth-first, definition-before-use walk over the Module graph with its by-id and by-name maps
   (export / export_module / export_module_name / export_instance) and the table of declared ExternalModules
   (export_external_module, as repaired by fixes/C06-1: one declaration per (domain, name)).

   The input is the elaborated design as an object graph: Modules are identified by their position in `heap`
   (the model of id(module)), carry their qualified name (hdl21/qualname.py: "<python module>.<name>") and their
   instances in declaration order with the array count of each (0 = single Instance); ArrayFlattener re-inserts
   the elements of the arrays after the single instances, last array first (`module.instarrays.popitem()`), which
   `elab_order` follows - the order matters because it is the order in which child Modules are first visited.
   ExternalModule OBJECTS are identified by their position in `xheap` (the model of id(emod)); the entry is the
   declaration that export_external_module() writes for that object.  Two positions may hold equal declarations (two
   objects, one interface) or declarations of one (domain, name) that differ.  Signals, ports and connections are not part of this model (C01/C01E). *)
Require Import Hdl21.Base.PyInt Hdl21.Spec.PySlice Hdl21.Model.Slice Hdl21.Model.Resolve Hdl21.Base.Design
               Hdl21.Base.Package Hdl21.Spec.WfDesign Hdl21.Spec.PkgWf.
From Coq Require Import String.

Inductive href := HMod (k : nat) | HExt (j : nat) | HPrim (dom nm : name).
Definition xheap := list pext.
Record hmod := { hm_name : name; hm_insts : list (href * Z) }.
Definition heap := list hmod.

(* what an exported instance refers to *)
Inductive oref := OLocal (nm : name) | OExt (dom nm : name) | OPrim (dom nm : name).

Record xstate := { xs_by_id : list (nat * name);        (* modules_by_id:   id(module) -> exported name *)
                   xs_by_name : list name;              (* modules_by_name: keys *)
                   xs_ext_ids : list (nat * pext);        (* ext_modules:     id(emod) -> declaration *)
                   xs_exts : list pext;                 (* pkg.ext_modules (= ext_modules_by_name, in order) *)
                   xs_out : list (name * list oref) }.  (* pkg.modules: name, references of its instances *)

Definition xs_init : xstate := {| xs_by_id := []; xs_by_name := []; xs_ext_ids := []; xs_exts := []; xs_out := [] |}.

Fixpoint assoc_nat {A} (k : nat) (l : list (nat * A)) : option A :=
  match l with
  | [] => None
  | (k', v) :: l' => if Nat.eqb k k' then Some v else assoc_nat k l'
  end.

Definition mem_name (n : name) (l : list name) : bool := existsb (String.eqb n) l.

(* ---- equality of declarations (protobuf message equality of two vckt.ExternalModule) ---- *)
Fixpoint ports_eqb (a b : list (name * Z * Z)) : bool :=
  match a, b with
  | [], [] => true
  | (n1, w1, d1) :: a', (n2, w2, d2) :: b' => String.eqb n1 n2 && (w1 =? w2) && (d1 =? d2) && ports_eqb a' b'
  | _, _ => false
  end.

Definition pext_eqb (x y : pext) : bool :=
  String.eqb (px_domain x) (px_domain y) && String.eqb (px_name x) (px_name y) &&
  ports_eqb (px_ports x) (px_ports y) && String.eqb (px_spicetype x) (px_spicetype y).

(* ---- export_external_module ---- *)
Definition export_ext (xh : xheap) (st : xstate) (j : nat) : result xstate :=
  match assoc_nat j (xs_ext_ids st) with
  | Some _ => Ok st                                                      (* already done *)
  | None =>
      d <- ofopt EMissing (nth_error xh j) ;;
      match find_ext (xs_exts st) (px_domain d) (px_name d) with
      | None => Ok {| xs_by_id := xs_by_id st; xs_by_name := xs_by_name st;
                      xs_ext_ids := (j, d) :: xs_ext_ids st; xs_exts := xs_exts st ++ [d]; xs_out := xs_out st |}
      | Some x =>
          if pext_eqb x d                                                (* an identical declaration serves both *)
          then Ok {| xs_by_id := xs_by_id st; xs_by_name := xs_by_name st;
                     xs_ext_ids := (j, x) :: xs_ext_ids st; xs_exts := xs_exts st; xs_out := xs_out st |}
          else Error EName                                               (* conflicting declarations of one (domain, name) *)
      end
  end.

(* the table before fixes/C06-1: by id only *)
Definition export_ext_by_id_only (xh : xheap) (st : xstate) (j : nat) : result xstate :=
  match assoc_nat j (xs_ext_ids st) with
  | Some _ => Ok st
  | None => d <- ofopt EMissing (nth_error xh j) ;;
            Ok {| xs_by_id := xs_by_id st; xs_by_name := xs_by_name st;
                  xs_ext_ids := (j, d) :: xs_ext_ids st; xs_exts := xs_exts st ++ [d]; xs_out := xs_out st |}
  end.

(* ---- instance order after ArrayFlattener ---- *)
Definition elab_order (l : list (href * Z)) : list href :=
  map fst (filter (fun x => snd x =? 0) l) ++
  flat_map (fun x => repeat (fst x) (Z.to_nat (snd x))) (rev (filter (fun x => negb (snd x =? 0)) l)).

(* ---- export_instance over the instances of one module; `rec` is export_module ---- *)
Fixpoint export_refs (xh : xheap) (rec : xstate -> nat -> result (xstate * name)) (st : xstate) (l : list href)
  : result (xstate * list oref) :=
  match l with
  | [] => Ok (st, [])
  | r :: l' =>
      a <- match r with
           | HMod k => x <- rec st k ;; Ok (fst x, OLocal (snd x))
           | HExt j => st' <- export_ext xh st j ;; d <- ofopt EMissing (nth_error xh j) ;;
                       Ok (st', OExt (px_domain d) (px_name d))
           | HPrim d n => Ok (st, OPrim d n)
           end ;;
      b <- export_refs xh rec (fst a) l' ;;
      Ok (fst b, snd a :: snd b)
  end.

(* ---- export_module: fuel bounds the instantiation depth (Python recursion); never exhausted on a design whose
        modules only instantiate modules created before them (Proofs/C06ExportProofs.v: export_no_fuel) ---- *)
Fixpoint export_module (fuel : nat) (hp : heap) (xh : xheap) (st : xstate) (k : nat) : result (xstate * name) :=
  match fuel with
  | O => Error EFuel
  | S f =>
      match assoc_nat k (xs_by_id st) with
      | Some nm => Ok (st, nm)                                                          (* already done *)
      | None =>
          m <- ofopt EMissing (nth_error hp k) ;;
          _ <- check (negb (mem_name (hm_name m) (xs_by_name st))) EName ;;             (* export_module_name *)
          r <- export_refs xh (export_module f hp xh) st (elab_order (hm_insts m)) ;;
          _ <- check (negb (mem_name (hm_name m) (xs_by_name (fst r)))) EName ;;       (* ... checked once more *)
          Ok ({| xs_by_id := (k, hm_name m) :: xs_by_id (fst r); xs_by_name := xs_by_name (fst r) ++ [hm_name m];
                 xs_ext_ids := xs_ext_ids (fst r); xs_exts := xs_exts (fst r);
                 xs_out := xs_out (fst r) ++ [(hm_name m, snd r)] |}, hm_name m)
      end
  end.

Fixpoint export_tops (fuel : nat) (hp : heap) (xh : xheap) (st : xstate) (tops : list nat) : result xstate :=
  match tops with
  | [] => Ok st
  | k :: tops' => r <- export_module fuel hp xh st k ;; export_tops fuel hp xh (fst r) tops'
  end.

Definition export (hp : heap) (xh : xheap) (tops : list nat) : result xstate :=
  export_tops (S (List.length hp)) hp xh xs_init tops.

(* a design in which every module instantiates only modules created before it *)
Definition heap_ordered (hp : heap) : Prop :=
  forall k m, nth_error hp k = Some m -> forall j n, In (HMod j, n) (hm_insts m) -> (j < k)%nat.

(* the package view of the result: what Spec/PkgWf.v's name and order checks look at *)
Definition oref_pref (r : oref) : pref :=
  match r with OLocal nm => PLocal nm | OExt d n => PExt d n | OPrim d n => PExt d n end.

(* ---- instance parameters: the loop at the end of export_instance ---- *)
Fixpoint export_params (ps : list (name * option string)) : list (name * string) :=
  match ps with
  | [] => []
  | (k, None) :: ps' => export_params ps'                     (* None-valued parameters go un-set *)
  | (k, Some v) :: ps' => (k, v) :: export_params ps'
  end.
