(* Model/C08Elaborator.v — which pass list a call runs with: hdl21/elab/elab.py `Elaborator.default`, `set_elaborator`,
   `reset_elaborator`, `the_global_elaborator`, with the ALIASING of the mutable `passes` lists made explicit.

   Elaborator objects live on a heap (address = position); the state that survives a call is the heap, the address the
   module-level name `the_global_elaborator` holds, and - for the memoising variant only - the address of "the" default.
   A designer derives a custom list in one of three documented ways:
     EScratch l    set_elaborator(Elaborator(passes=l))                       a list built from nothing
     EMutate ops   e = Elaborator.default(); <ops on e.passes>; set_elaborator(e)
     EInplace ops  reset_elaborator(); <ops on the_global_elaborator.passes>
   and goes back with  EReset = reset_elaborator().
   `fresh = true` is the code (every `default()` call builds a new Elaborator with a new list, from the literal in its body);
   `fresh = false` is a memoised `default()` (functools.lru_cache: one object for ever), which a seeded change introduced. *)
Require Import Hdl21.Base.PyInt Hdl21.Model.C08PassFail.
Open Scope list_scope.

Inductive eop :=
| EIns (k : nat) (p : pass)         (* passes.insert(k, P) *)
| ERepl (old : nat) (p : pass).     (* passes[passes.index(Old)] = P;  ValueError when Old is not in the list *)

Inductive einstall := EScratch (l : list pass) | EMutate (ops : list eop) | EInplace (ops : list eop) | EReset.

Record est := { heap : list (list pass); glob : nat; memo : option nat }.

Fixpoint insert_at (k : nat) (p : pass) (l : list pass) : list pass :=
  match k, l with
  | O, _ => p :: l
  | S k', [] => [p]                          (* list.insert beyond the end appends *)
  | S k', x :: l' => x :: insert_at k' p l'
  end.
Fixpoint replace_first (old : nat) (p : pass) (l : list pass) : option (list pass) :=
  match l with
  | [] => None
  | x :: l' => if Nat.eqb (pid x) old then Some (p :: l')
               else match replace_first old p l' with Some r => Some (x :: r) | None => None end
  end.
Fixpoint apply_ops (ops : list eop) (l : list pass) : option (list pass) :=
  match ops with
  | [] => Some l
  | EIns k p :: ops' => apply_ops ops' (insert_at k p l)
  | ERepl old p :: ops' => match replace_first old p l with Some l' => apply_ops ops' l' | None => None end
  end.

Fixpoint set_nth (a : nat) (v : list pass) (h : list (list pass)) : list (list pass) :=
  match a, h with
  | _, [] => []
  | O, _ :: h' => v :: h'
  | S a', x :: h' => x :: set_nth a' v h'
  end.

Section Elab.
Variable fresh : bool.
Variable dflt : list pass.            (* the literal in the body of Elaborator.default *)

(* Elaborator.default(): (state, address of the returned object) *)
Definition default_obj (s : est) : est * nat :=
  if fresh then ({| heap := heap s ++ [dflt]; glob := glob s; memo := memo s |}, length (heap s))
  else match memo s with
       | Some a => (s, a)
       | None => ({| heap := heap s ++ [dflt]; glob := glob s; memo := Some (length (heap s)) |}, length (heap s))
       end.

(* state after `import hdl21`: the_global_elaborator = Elaborator.default() *)
Definition einit : est :=
  let (s, a) := default_obj {| heap := []; glob := O; memo := None |} in
  {| heap := heap s; glob := a; memo := memo s |}.

Definition current (s : est) : option (list pass) := nth_error (heap s) (glob s).

(* one installation; None = the designer's code raised (ValueError of list.index) *)
Definition einstall_step (s : est) (i : einstall) : option est :=
  match i with
  | EScratch l => Some {| heap := heap s ++ [l]; glob := length (heap s); memo := memo s |}
  | EReset => let (s1, a) := default_obj s in Some {| heap := heap s1; glob := a; memo := memo s1 |}
  | EMutate ops =>
      let (s1, a) := default_obj s in
      match nth_error (heap s1) a with
      | Some l => match apply_ops ops l with
                  | Some l' => Some {| heap := set_nth a l' (heap s1); glob := a; memo := memo s1 |}
                  | None => None
                  end
      | None => None
      end
  | EInplace ops =>
      let (s1, a) := default_obj s in
      match nth_error (heap s1) a with
      | Some l => match apply_ops ops l with
                  | Some l' => Some {| heap := set_nth a l' (heap s1); glob := a; memo := memo s1 |}
                  | None => None
                  end
      | None => None
      end
  end.

(* a history of installations; every call of the driver is  install ; call ; EReset *)
Fixpoint einstall_all (s : est) (is : list einstall) : option est :=
  match is with
  | [] => Some s
  | i :: is' => match einstall_step s i with Some s1 => einstall_all s1 is' | None => None end
  end.
End Elab.

(* the list a designer MEANS when writing the installation *)
Definition intended (dflt : list pass) (i : einstall) : option (list pass) :=
  match i with
  | EScratch l => Some l
  | EReset => Some dflt
  | EMutate ops | EInplace ops => apply_ops ops dflt
  end.
