(* Model/C03Loop.v — sources of port references that mention one another
   (hdl21/elab/passes/portrefs.py:ResolvePortRefs.untie_source_loops, the inner walker `bit`).

   Until this file a reference leaf was transparent (Model/Resolve.v: "a reference leaf is represented by the
   expression it resolved to").  That is what the code does when the sources of the reference groups do not depend on
   one another.  When they do - i1.a = Concat(s[0], i2.a[1::-1]); i2.a = Concat(t[0:2], i1.a[0]) - no expression
   exists that could stand for the leaf, and the pass walks every bit of every such source, through slices
   (`_slice_indices(conn)[idx]`), concatenations (subtracting part widths) and references (to the source of their
   group), down to a Signal bit, or round a loop.

   A system is an environment  env : list (N * sx)  giving the source expression of every reference id; leaf ids that are
   not in env are Signals.  An atom (id, k) is bit k of leaf id. *)
Require Import Hdl21.Base.PyInt Hdl21.Spec.PySlice Hdl21.Model.Slice Hdl21.Model.Resolve.

Definition env := list (N * sx).

Fixpoint lookup (e : env) (id : N) : option sx :=
  match e with
  | [] => None
  | (j, x) :: e' => if N.eqb j id then Some x else lookup e' id
  end.

(* ---- model of `bit` inside ONE source: down to the leaf it meets, references not followed ----
   Signal / PortRef: (conn, idx);  Slice: bit(parent, _slice_indices(conn)[idx]);
   Concat: `for part in parts: if idx < width(part): break; idx -= width(part)`. *)
Fixpoint walk (x : sx) (idx : Z) : result bit :=
  match x with
  | XSig id w =>
      if w <? 1 then Error EWidth
      else if (0 <=? idx) && (idx <? w) then Ok (id, idx) else Error EOutOfBounds
  | XSlice p ix =>
      pw <- xwidth p ;; r <- slice_inner pw ix ;; j <- pick (inner_bits r) idx ;; walk p j
  | XConcat ps =>
      (fix go (ps : list sx) (idx : Z) : result bit :=
         match ps with
         | [] => Error EOutOfBounds
         | p :: ps' => w <- xwidth p ;; if idx <? w then walk p idx else go ps' (idx - w)
         end) ps idx
  end.

Fixpoint walk_parts (ps : list sx) (idx : Z) : result bit :=
  match ps with
  | [] => Error EOutOfBounds
  | p :: ps' => w <- xwidth p ;; if idx <? w then walk p idx else walk_parts ps' (idx - w)
  end.

Lemma walk_concat ps idx : walk (XConcat ps) idx = walk_parts ps idx.
Proof. revert idx. induction ps as [|p ps IH]; intros idx; [reflexivity|]. cbn [walk walk_parts].
  destruct (xwidth p) as [w|err]; cbn [bind]; [|reflexivity]. destruct (idx <? w); [reflexivity|]. apply IH. Qed.

(* ---- what the walk means (specification): element idx of Python's selection ---- *)
Definition walk_spec (x : sx) (idx : Z) : result bit := bs <- xbits x ;; pick bs idx.

(* ---- across references: follow an atom until it is a Signal bit; None = fuel used up (went round) ---- *)
Inductive dest := DBit (b : bit) | DRound.

Fixpoint chase (step : sx -> Z -> result bit) (e : env) (fuel : nat) (a : bit) : result dest :=
  match lookup e (fst a) with
  | None => Ok (DBit a)
  | Some src =>
      match fuel with
      | O => Ok DRound
      | S f => b <- step src (snd a) ;; chase step e f b
      end
  end.

Definition chase_model := chase walk.
Definition chase_spec := chase walk_spec.

(* every bit of the source of reference id, least significant first *)
Definition source_dests (step : sx -> Z -> result bit) (e : env) (fuel : nat) (src : sx) : result (list dest) :=
  w <- xwidth src ;;
  traverse (fun k => b <- step src k ;; chase step e fuel b) (iota (Z.to_nat w) 0 1).

(* ---- well-formed systems: every source denotes a bit list (is accepted by the specification) ---- *)
Definition src_ok (x : sx) : bool := match xbits x with Ok _ => true | Error _ => false end.
Definition env_ok (e : env) : bool := forallb (fun p => src_ok (snd p)) e.
