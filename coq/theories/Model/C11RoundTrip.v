(* Model/C11RoundTrip.v — C11: hdl21/proto/importing.py (ProtoImporter and the import_ functions) followed by the elaboration of the
   imported modules (only the slice resolver changes anything: Model/Resolve.v) and hdl21/proto/exporting.py
   (ProtoExporter and the export_ functions), as ONE function on packages:   rt_pkg P  =  to_proto(from_proto(P).<modules>).

   The model is the model of the REPAIRED importer (fixes/C11-1..4): it reads the spice type, imports string values
   of Scalar-typed primitive parameters as Literals, imports un-set optional primitive parameters as None, and
   tolerates un-set pulse-source parameters.  `importer_shape` (regenerated from the importer's source) says whether
   the tree under test has that shape; the theorems of Props/C11.v require it.

   Every `raise` of the two translations is an explicit Error.  Inputs outside the image of the exporter on which the
   Python code would silently coalesce entries (duplicate names in a dict) are Errors of the model as well (EName):
   the model claims nothing about them.  NOT modelled: the depth-first emission ORDER of modules and external modules
   (the model maps both lists element-wise), module/external-module `parameters` and `desc` fields (never written by
   the exporter; compared by the correspondence run as an opaque string), Decimal <-> text conversion (a decimal
   string is carried as its (sign, coefficient, exponent) triple; the harness checks str(Decimal(s)) = s),
   double-valued numbers inside a Prefixed, the namespace object from_proto returns. *)
Require Import Hdl21.Base.PyInt Hdl21.Spec.PySlice Hdl21.Model.Slice Hdl21.Model.Resolve Hdl21.Base.Design
               Hdl21.Base.Package Hdl21.Base.Dec.
Require Import Hdl21Gen.PrefixTable Hdl21Gen.PrefixMaps Hdl21Gen.Primitives Hdl21Gen.C11Maps.
From Coq Require Import String Ascii.
Open Scope string_scope.
Open Scope Z_scope.

(* ------------------------------------------------------------------------------------------ small helpers *)
Fixpoint zassoc {A} (k : Z) (l : list (Z * A)) : option A :=
  match l with
  | [] => None
  | (k', v) :: l' => if k =? k' then Some v else zassoc k l'
  end.

Fixpoint seq_results {A} (rs : list (result A)) : result (list A) :=
  match rs with
  | [] => Ok []
  | r :: rs' => a <- r ;; b <- seq_results rs' ;; Ok (a :: b)
  end.

Definition smem (s : string) (l : list string) : bool := existsb (String.eqb s) l.

Fixpoint snodup (l : list string) : bool :=
  match l with
  | [] => true
  | x :: l' => negb (smem x l') && snodup l'
  end.

Definition chk (b : bool) (e : err) : result unit := if b then Ok tt else Error e.

(* ------------------------------------------------------------------------------------------ enumerations *)
(* export_prefix: Prefix value (the exponent) -> SIPrefix name;  import_prefix: SIPrefix name -> Prefix member -> exponent *)
Definition export_prefix (e : Z) : result string := ofopt EBadKind (zassoc e prefix_map_export).
Definition import_prefix (n : string) : result Z :=
  m <- ofopt EBadKind (assoc n prefix_map_import) ;; ofopt EBadKind (assoc m prefix_table).

Definition export_dir (d : string) : result string := ofopt EBadKind (assoc d dir_export).
Definition import_dir (d : string) : result string := ofopt EBadKind (assoc d dir_import).

Definition export_spicetype (s : string) : result string := ofopt EBadKind (assoc s spice_export).
Definition import_spicetype (s : string) : result string := ofopt EBadKind (assoc s spice_import).

(* does the importer of the tree under test have the (repaired) shape this file models? *)
Definition importer_shape : bool :=
  ext_export_spicetype && ext_import_spicetype && import_scalar_literals && import_unset_none && pulse_import_total.

(* ------------------------------------------------------------------------------------------ connection targets *)
(* import_connection_target / import_concat: a Signal, Slice(parent=sig, index=slice(bot, top + 1)), Concat of the reversed parts.
   Signals are the leaves `XSig position width` of Model/Resolve.v. *)
Fixpoint import_target (sigs : list (name * Z)) (t : ptarget) : result sx :=
  match t with
  | PSig s => id <- ofopt EMissing (index_of s sigs 0%N) ;; w <- ofopt EMissing (assoc s sigs) ;; Ok (XSig id w)
  | PSlice s tp bt =>
      id <- ofopt EMissing (index_of s sigs 0%N) ;; w <- ofopt EMissing (assoc s sigs) ;;
      Ok (XSlice (XSig id w) (Sl (Some bt) (Some (tp + 1)) None))        (* exclusive top *)
  | PConcat parts => ps <- seq_results (map (import_target sigs) parts) ;; Ok (XConcat (rev ps))   (* least significant first *)
  end.

Definition sig_name (sigs : list (name * Z)) (id : N) : result name :=
  ofopt EMissing (nth_error (map fst sigs) (N.to_nat id)).

(* export_connection_target / export_slice (inclusive top) / export_concat (most significant first) on resolved connections *)
Definition export_flat (sigs : list (name * Z)) (f : flat) : result ptarget :=
  match f with
  | FSig id _ => s <- sig_name sigs id ;; Ok (PSig s)
  | FSl id _ b t => s <- sig_name sigs id ;; Ok (PSlice s (t - 1) b)
  end.

Definition export_resolved_r (sigs : list (name * Z)) (r : resolved) : result ptarget :=
  match r with
  | RSingle f => export_flat sigs f
  | RConcat fs => ps <- traverse (export_flat sigs) fs ;; Ok (PConcat (rev ps))
  end.

Definition rt_target (sigs : list (name * Z)) (t : ptarget) : result ptarget :=
  x <- import_target sigs t ;; r <- resolve x ;; export_resolved_r sigs r.

(* ------------------------------------------------------------------------------------------ parameter values *)
Inductive pnum := NInt (z : Z) | NDbl (h : string) | NDec (d : dec) | NRaw (s : string) | NUnset.
Inductive pvalue := VInt (z : Z) | VDbl (h : string) | VStr (s : string) | VLit (s : string)
                  | VPre (pre : string) (n : pnum) | VUnset.
(* what import_parameter_value returns / what a parameter class holds *)
Inductive hvalue := HInt (z : Z) | HFloat (h : string) | HStr (s : string) | HLit (s : string)
                  | HPre (d : dec) (e : Z) | HNone.

Definition in_i64 (z : Z) : bool := (- 9223372036854775808 <=? z) && (z <? 9223372036854775808).

Definition import_value (v : pvalue) : result hvalue :=
  match v with
  | VInt z => Ok (HInt z)
  | VDbl h => Ok (HFloat h)
  | VStr s => Ok (HStr s)
  | VLit s => Ok (HStr s)
  | VPre p n =>
      e <- import_prefix p ;;
      match n with
      | NInt z => Ok (HPre (of_int z 0) e)          (* Decimal(int) *)
      | NDec d => Ok (HPre d e)                     (* Decimal(str) *)
      | NDbl _ | NRaw _ => Error EOther             (* not modelled *)
      | NUnset => Error EBadKind                    (* raise ValueError *)
      end
  | VUnset => Error EBadKind
  end.

(* pref.number == int(pref.number) *)
Definition dec_is_int (d : dec) : bool := if 0 <=? dexp d then true else dint d mod pow10 (- dexp d) =? 0.

Definition export_num (d : dec) : result pnum :=
  (* int64 variant only for integers that fit 64 bits; every other number takes the string variant (repair ab942f1) *)
  if dec_is_int d && in_i64 (dtrunc d) then Ok (NInt (dtrunc d)) else Ok (NDec d).

(* export_param_value; None = the parameter goes un-set *)
Definition export_value (v : hvalue) : result (option pvalue) :=
  match v with
  | HNone => Ok None
  | HStr s => Ok (Some (VLit s))
  | HLit s => Ok (Some (VLit s))
  | HPre d e => p <- export_prefix e ;; n <- export_num d ;; Ok (Some (VPre p n))
  | HInt z => if in_i64 z then Ok (Some (VInt z)) else Error EOutOfBounds
  | HFloat h => Ok (Some (VDbl h))
  end.

Definition params := list (name * pvalue).

(* ---- dict-typed parameters (external modules): import_parameters, then export in dict order ---- *)
Definition rt_value (v : pvalue) : result pvalue :=
  h <- import_value v ;; o <- export_value h ;; ofopt EOther o.

Definition rt_dict_params (ps : params) : result params :=
  _ <- chk (snodup (map fst ps)) EName ;;
  traverse (fun kv : name * pvalue => v <- rt_value (snd kv) ;; Ok (fst kv, v)) ps.

(* ---- parameter classes of primitives ---- *)
Inductive fkind := KScalar | KStr | KEnum (vals : list string).
Record pfield := { pf_name : name; pf_vname : name (* VLSIR name *); pf_kind : fkind; pf_opt : bool }.
Record pschema := { sc_export : list (name * name) (* VLSIR name, field: order of the exported parameters *);
                    sc_fields : list pfield (* order of the parameter class *);
                    sc_strict : bool (* unknown VLSIR names are rejected (keyword arguments of the parameter class) *) }.

Definition kind_of (k : string) : result fkind :=
  if String.eqb k "scalar" then Ok KScalar else if String.eqb k "str" then Ok KStr else
  match k with
  | String "e" (String "n" (String "u" (String "m" (String ":" en)))) => vs <- ofopt EMissing (assoc en enum_values) ;; Ok (KEnum vs)
  | _ => Error EBadKind
  end.

Fixpoint find_prim {A B} (nm : string) (l : list (string * A * B)) : option (A * B) :=
  match l with
  | [] => None
  | (n, a, b) :: l' => if String.eqb nm n then Some (a, b) else find_prim nm l'
  end.

Definition schema_of (prim : string) : result pschema :=
  tf <- ofopt EMissing (find_prim prim prim_fields) ;;
  let pulse := String.eqb prim pulse_prim in
  fs <- traverse (fun f : string * string * bool * bool =>
          let '(fn, k, opt, _) := f in
          kd <- kind_of k ;;
          vn <- (if pulse then ofopt EMissing (assoc fn pulse_import) else Ok fn) ;;
          Ok {| pf_name := fn; pf_vname := vn; pf_kind := kd; pf_opt := opt |}) (snd tf) ;;
  Ok {| sc_export := if pulse then pulse_export else map (fun f => (pf_name f, pf_name f)) fs;
        sc_fields := fs; sc_strict := negb pulse |}.

(* pydantic validation of one field, after import_scalar_literals and import_unset_params *)
Definition validate (f : pfield) (raw : option hvalue) : result hvalue :=
  match raw with
  | None => if pf_opt f then Ok HNone else Error EMissing      (* required, or a default the exporter always writes *)
  | Some (HStr s) =>
      match pf_kind f with
      | KScalar => Ok (HLit s)
      | KStr => Ok (HStr s)
      | KEnum vs => if smem s vs then Ok (HStr s) else Error EBadKind
      end
  | Some (HPre d e) => match pf_kind f with KScalar => Ok (HPre d e) | _ => Error EBadKind end
  | Some (HInt z) => match pf_kind f with KScalar => Ok (HPre (of_int z 0) 0) | _ => Error EBadKind end
  | Some _ => Error EOther
  end.

Definition import_prim_params (sc : pschema) (ps : params) : result (list (name * hvalue)) :=
  _ <- chk (snodup (map fst ps)) EName ;;
  _ <- chk (negb (sc_strict sc) || forallb (fun kv : name * pvalue => smem (fst kv) (map pf_vname (sc_fields sc))) ps) EExtra ;;
  hs <- traverse (fun kv : name * pvalue => h <- import_value (snd kv) ;; Ok (fst kv, h)) ps ;;
  traverse (fun f => v <- validate f (assoc (pf_vname f) hs) ;; Ok (pf_name f, v)) (sc_fields sc).

Fixpoint somes {A} (l : list (option A)) : list A :=
  match l with
  | [] => []
  | Some a :: l' => a :: somes l'
  | None :: l' => somes l'
  end.

Definition export_prim_params (sc : pschema) (st : list (name * hvalue)) : result params :=
  os <- traverse (fun e : name * name =>
          v <- ofopt EMissing (assoc (snd e) st) ;; o <- export_value v ;;
          Ok (match o with Some pv => Some (fst e, pv) | None => None end)) (sc_export sc) ;;
  Ok (somes os).

Definition rt_prim_params (sc : pschema) (ps : params) : result params :=
  st <- import_prim_params sc ps ;; export_prim_params sc st.

(* ------------------------------------------------------------------------------------------ packages *)
Record c11inst := { ci_name : name; ci_ref : pref; ci_params : params; ci_conns : list (name * ptarget) }.
Record c11mod := { cm_name : name; cm_sigs : list (name * Z); cm_ports : list (name * string);
                   cm_insts : list c11inst; cm_literals : list string }.
Record c11ext := { cx_domain : name; cx_name : name; cx_sigs : list (name * Z); cx_ports : list (name * string);
                   cx_spicetype : string }.
Record c11pkg := { ck_domain : string; ck_exts : list c11ext; ck_mods : list c11mod }.

(* ---- names: import_module splits the name at the dots, qualname joins importpath + [name] with dots ---- *)
Fixpoint split_dot (s : string) : list string :=
  match s with
  | EmptyString => [EmptyString]
  | String c s' =>
      if Ascii.eqb c "."%char then EmptyString :: split_dot s'
      else match split_dot s' with
           | [] => [String c EmptyString]          (* unreachable: split_dot is never empty *)
           | p :: ps => String c p :: ps
           end
  end.

Fixpoint join_dot (l : list string) : string :=
  match l with
  | [] => EmptyString
  | [p] => p
  | p :: l' => p ++ String "."%char (join_dot l')
  end.

Definition rt_name (nm : string) : string := join_dot (split_dot nm).

(* ---- import_ports_and_signals ---- *)
Record hsignal := { hs_name : name; hs_width : Z; hs_dir : option string (* Some PortDir = a port *) }.

Definition import_sigs (sigs : list (name * Z)) (ports : list (name * string)) : result (list hsignal) :=
  _ <- chk (snodup (map fst sigs)) EName ;;
  _ <- chk (snodup (map fst ports)) EName ;;
  _ <- chk (forallb (fun p : name * string => smem (fst p) (map fst sigs)) ports) EMissing ;;
  traverse (fun sw : name * Z =>
     match assoc (fst sw) ports with
     | None => Ok {| hs_name := fst sw; hs_width := snd sw; hs_dir := None |}
     | Some d => d' <- import_dir d ;; Ok {| hs_name := fst sw; hs_width := snd sw; hs_dir := Some d' |}
     end) sigs.

Definition is_port (h : hsignal) : bool := match hs_dir h with Some _ => true | None => false end.

Definition export_ports (hs : list hsignal) : result (list (name * string)) :=
  traverse (fun h => match hs_dir h with
                     | Some d => d' <- export_dir d ;; Ok (hs_name h, d')
                     | None => Error EBadKind
                     end) (filter is_port hs).

(* ---- external modules ---- *)
Definition rt_ext (x : c11ext) : result c11ext :=
  hs <- import_sigs (cx_sigs x) (cx_ports x) ;;
  _ <- chk (forallb is_port hs) EBadKind ;;                  (* ExternalModule: every entry of port_list must be a port *)
  st <- import_spicetype (cx_spicetype x) ;;
  ports <- export_ports hs ;;
  st' <- export_spicetype st ;;
  Ok {| cx_domain := cx_domain x; cx_name := cx_name x; cx_sigs := map (fun h => (hs_name h, hs_width h)) hs;
        cx_ports := ports; cx_spicetype := st' |}.

Fixpoint nodup_ext_names (xs : list c11ext) : bool :=
  match xs with
  | [] => true
  | x :: xs' => negb (existsb (fun y => String.eqb (cx_domain x) (cx_domain y) && String.eqb (cx_name x) (cx_name y)) xs')
                && nodup_ext_names xs'
  end.

Fixpoint find_c11ext (xs : list c11ext) (dom nm : name) : option c11ext :=
  match xs with
  | [] => None
  | x :: xs' => if String.eqb (cx_domain x) dom && String.eqb (cx_name x) nm then Some x else find_c11ext xs' dom nm
  end.

Fixpoint find_c11mod (ms : list c11mod) (nm : name) : option c11mod :=
  match ms with
  | [] => None
  | m :: ms' => if String.eqb (cm_name m) nm then Some m else find_c11mod ms' nm
  end.

(* ---- instances ---- *)
Definition prim_ports_of (hname : string) : result (list string) :=
  tp <- ofopt EMissing (find_prim hname primitives) ;; Ok (map fst (snd tp)).

(* the Primitive found by getattr(hdl21.primitives, attr), by its own name *)
Definition lookup_prim (attr : string) : result string :=
  n <- ofopt EMissing (assoc attr prim_lookups) ;; if String.eqb n "" then Error EMissing else Ok n.

(* export_instance on a PrimitiveCall: the reference written for primitive `hname` *)
Definition export_prim_ref (hname : string) : result pref :=
  tf <- ofopt EMissing (find_prim hname prim_fields) ;;
  if String.eqb (fst tf) "PHYSICAL" then Ok (PExt "hdl21.primitives" hname)
  else if String.eqb (fst tf) "IDEAL" then v <- ofopt EBadKind (assoc hname prim_map_export) ;; Ok (PExt "vlsir.primitives" v)
  else Error EBadKind.

Definition rt_prim (hname : string) (ps : params) : result (pref * params * list string) :=
  sc <- schema_of hname ;; ps' <- rt_prim_params sc ps ;; r <- export_prim_ref hname ;; pp <- prim_ports_of hname ;;
  Ok (r, ps', pp).

(* reference, parameters, port names of the target *)
Definition rt_ref (exts : list c11ext) (earlier : list c11mod) (r : pref) (ps : params) : result (pref * params * list string) :=
  match r with
  | PLocal nm =>
      m <- ofopt EMissing (find_c11mod earlier nm) ;;
      _ <- chk (match ps with [] => true | _ => false end) EExtra ;;
      Ok (PLocal (rt_name nm), [], map fst (cm_ports m))
  | PExt dom nm =>
      if String.eqb dom "vlsir.primitives" then
        hname <- ofopt EBadKind (assoc nm prim_map_import) ;; hname' <- lookup_prim hname ;; rt_prim hname' ps
      else if String.eqb dom "hdl21.primitives" || String.eqb dom "hdl21.ideal" then
        hname <- lookup_prim nm ;; rt_prim hname ps
      else
        x <- ofopt EMissing (find_c11ext exts dom nm) ;;
        ps' <- rt_dict_params ps ;;
        Ok (PExt dom nm, ps', map fst (cx_sigs x))
  end.

Definition rt_inst (exts : list c11ext) (earlier : list c11mod) (sigs : list (name * Z)) (i : c11inst) : result c11inst :=
  rpp <- rt_ref exts earlier (ci_ref i) (ci_params i) ;;
  let '(r, ps, ports) := rpp in
  _ <- chk (forallb (fun c : name * ptarget => smem (fst c) ports) (ci_conns i)) EExtra ;;
  _ <- chk (snodup (map fst (ci_conns i))) EExtra ;;
  cs <- traverse (fun c : name * ptarget => t <- rt_target sigs (snd c) ;; Ok (fst c, t)) (ci_conns i) ;;
  Ok {| ci_name := ci_name i; ci_ref := r; ci_params := ps; ci_conns := cs |}.

(* ---- modules ---- *)
Definition rt_mod (exts : list c11ext) (earlier : list c11mod) (m : c11mod) : result c11mod :=
  _ <- chk (negb (existsb (fun m' => String.eqb (cm_name m') (cm_name m)) earlier)) EName ;;   (* Redefined Module *)
  hs <- import_sigs (cm_sigs m) (cm_ports m) ;;
  _ <- chk (snodup (map ci_name (cm_insts m))) EName ;;
  (* connections refer to the module's namespace: the signals in the order import_ports_and_signals returns them *)
  is <- traverse (rt_inst exts earlier (cm_sigs m)) (cm_insts m) ;;
  ports <- export_ports hs ;;
  let sw := fun h => (hs_name h, hs_width h) in
  Ok {| cm_name := rt_name (cm_name m);
        cm_sigs := map sw (filter (fun h => negb (is_port h)) hs) ++ map sw (filter is_port hs);
        cm_ports := ports; cm_insts := is; cm_literals := cm_literals m |}.

Fixpoint rt_mods (exts : list c11ext) (earlier : list c11mod) (ms : list c11mod) : result (list c11mod) :=
  match ms with
  | [] => Ok []
  | m :: ms' => m' <- rt_mod exts earlier m ;; r <- rt_mods exts (earlier ++ [m]) ms' ;; Ok (m' :: r)
  end.

Definition rt_pkg (p : c11pkg) : result c11pkg :=
  _ <- chk (nodup_ext_names (ck_exts p)) EName ;;           (* conflicting definitions *)
  xs <- traverse rt_ext (ck_exts p) ;;
  ms <- rt_mods (ck_exts p) [] (ck_mods p) ;;
  Ok {| ck_domain := ck_domain p; ck_exts := xs; ck_mods := ms |}.

(* ------------------------------------------------------------------------------------------ decidable equality (the SPEC: P' = P) *)
Definition dec_eqb (a b : dec) : bool := Bool.eqb (dsign a) (dsign b) && N.eqb (dcoef a) (dcoef b) && (dexp a =? dexp b).

Definition pnum_eqb (a b : pnum) : bool :=
  match a, b with
  | NInt x, NInt y => x =? y
  | NDbl x, NDbl y => String.eqb x y
  | NDec x, NDec y => dec_eqb x y
  | NRaw x, NRaw y => String.eqb x y
  | NUnset, NUnset => true
  | _, _ => false
  end.

Definition pvalue_eqb (a b : pvalue) : bool :=
  match a, b with
  | VInt x, VInt y => x =? y
  | VDbl x, VDbl y => String.eqb x y
  | VStr x, VStr y => String.eqb x y
  | VLit x, VLit y => String.eqb x y
  | VPre p x, VPre q y => String.eqb p q && pnum_eqb x y
  | VUnset, VUnset => true
  | _, _ => false
  end.

Fixpoint list_eqb {A} (f : A -> A -> bool) (a b : list A) : bool :=
  match a, b with
  | [], [] => true
  | x :: a', y :: b' => f x y && list_eqb f a' b'
  | _, _ => false
  end.

Fixpoint ptarget_eqb (a b : ptarget) : bool :=
  match a, b with
  | PSig x, PSig y => String.eqb x y
  | PSlice x t1 b1, PSlice y t2 b2 => String.eqb x y && (t1 =? t2) && (b1 =? b2)
  | PConcat xs, PConcat ys =>
      (fix go (l1 l2 : list ptarget) : bool :=
         match l1, l2 with
         | [], [] => true
         | p :: l1', q :: l2' => ptarget_eqb p q && go l1' l2'
         | _, _ => false
         end) xs ys
  | _, _ => false
  end.

Definition pref_eqb (a b : pref) : bool :=
  match a, b with
  | PLocal x, PLocal y => String.eqb x y
  | PExt d x, PExt e y => String.eqb d e && String.eqb x y
  | _, _ => false
  end.

Definition pair_eqb {A B} (f : A -> A -> bool) (g : B -> B -> bool) (a b : A * B) : bool := f (fst a) (fst b) && g (snd a) (snd b).

Definition c11inst_eqb (a b : c11inst) : bool :=
  String.eqb (ci_name a) (ci_name b) && pref_eqb (ci_ref a) (ci_ref b) &&
  list_eqb (pair_eqb String.eqb pvalue_eqb) (ci_params a) (ci_params b) &&
  list_eqb (pair_eqb String.eqb ptarget_eqb) (ci_conns a) (ci_conns b).

Definition c11mod_eqb (a b : c11mod) : bool :=
  String.eqb (cm_name a) (cm_name b) && list_eqb (pair_eqb String.eqb Z.eqb) (cm_sigs a) (cm_sigs b) &&
  list_eqb (pair_eqb String.eqb String.eqb) (cm_ports a) (cm_ports b) &&
  list_eqb c11inst_eqb (cm_insts a) (cm_insts b) && list_eqb String.eqb (cm_literals a) (cm_literals b).

Definition c11ext_eqb (a b : c11ext) : bool :=
  String.eqb (cx_domain a) (cx_domain b) && String.eqb (cx_name a) (cx_name b) &&
  list_eqb (pair_eqb String.eqb Z.eqb) (cx_sigs a) (cx_sigs b) &&
  list_eqb (pair_eqb String.eqb String.eqb) (cx_ports a) (cx_ports b) && String.eqb (cx_spicetype a) (cx_spicetype b).

Definition c11pkg_eqb (a b : c11pkg) : bool :=
  String.eqb (ck_domain a) (ck_domain b) && list_eqb c11ext_eqb (ck_exts a) (ck_exts b) &&
  list_eqb c11mod_eqb (ck_mods a) (ck_mods b).

(* the view of a C11 package in the shared package type of Base/Package.v (parameters and directions as text) *)
Definition forget_inst (i : c11inst) : pinst :=
  {| pi_name := ci_name i; pi_ref := ci_ref i; pi_params := []; pi_conns := ci_conns i |}.
