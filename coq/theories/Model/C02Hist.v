(* Model/C02Hist.v — construction HISTORIES of one connectable (a Slice or a Concat) and the width the checks see.

   The design handed to elaborate / to_proto / netlist is the object graph at the time of the call.  Before the call a user may
   READ the public attributes of its parts (`Slice.width`, `Concat.width`: an assert, a print, a debugger) and may EDIT the public
   `width` field of a Signal.  Two readings of the code:

     fresh   hdl21/slice.py:_get_inner after fixes/C02-3 and hdl21/elab/helpers/width.py:width on a Concat: the width is calculated
             from the CURRENT widths of the parent / the parts on every call, a read stores nothing a later call relies on
     memo    hdl21/slice.py:_get_inner before fixes/C02-3 (`Slice._inner`), and the seeded change that keeps `Concat._width`:
             the first successful read stores the width in the object, later calls - the elaborator's checks included - return it

   x is the connectable as written (leaves = Signal ids); `annot env x` gives every leaf the width its Signal declares now. *)
Require Import Hdl21.Base.PyInt Hdl21.Spec.PySlice Hdl21.Model.Slice Hdl21.Model.Resolve.

Definition wenv := list (N * Z).
Fixpoint wlookup (id : N) (e : wenv) : option Z :=
  match e with [] => None | (k, w) :: e' => if N.eqb k id then Some w else wlookup id e' end.

Fixpoint annot (env : wenv) (x : sx) : sx :=
  match x with
  | XSig id w => XSig id (match wlookup id env with Some w' => w' | None => w end)
  | XSlice p ix => XSlice (annot env p) ix
  | XConcat ps => XConcat (map (annot env) ps)
  end.

Definition width_now (env : wenv) (x : sx) : result Z := xwidth (annot env x).

Inductive hop := HRead | HSet (id : N) (w : Z).
Definition is_read (o : hop) : bool := match o with HRead => true | HSet _ _ => false end.

Record hstate := { h_env : wenv; h_memo : option Z }.

Definition env_step (e : wenv) (o : hop) : wenv := match o with HRead => e | HSet id w => (id, w) :: e end.
Definition final_env (ops : list hop) (env : wenv) : wenv := fold_left env_step ops env.

Definition step_fresh (x : sx) (s : hstate) (o : hop) : hstate :=
  {| h_env := env_step (h_env s) o; h_memo := h_memo s |}.
Definition check_fresh (x : sx) (pw : Z) (s : hstate) : bool :=
  match width_now (h_env s) x with Ok w => w =? pw | Error _ => false end.

Definition step_memo (x : sx) (s : hstate) (o : hop) : hstate :=
  match o with
  | HRead => match h_memo s, width_now (h_env s) x with
             | None, Ok w => {| h_env := h_env s; h_memo := Some w |}
             | _, _ => s            (* already stored, or the read raised and stored nothing *)
             end
  | HSet id w => {| h_env := (id, w) :: h_env s; h_memo := h_memo s |}
  end.
Definition check_memo (x : sx) (pw : Z) (s : hstate) : bool :=
  match h_memo s with
  | Some w => w =? pw
  | None => check_fresh x pw s
  end.

Definition run (step : sx -> hstate -> hop -> hstate) (x : sx) (ops : list hop) (s : hstate) : hstate := fold_left (step x) ops s.

(* ---- fresh: only the final design counts ---- *)
Lemma run_fresh_env x ops : forall s, h_env (run step_fresh x ops s) = final_env ops (h_env s).
Proof.
  induction ops as [|o ops IH]; intros s; [reflexivity|].
  unfold run, final_env in *. cbn [fold_left]. rewrite IH. reflexivity.
Qed.

Lemma fresh_history_irrelevant x pw ops s :
  check_fresh x pw (run step_fresh x ops s) =
  match width_now (final_env ops (h_env s)) x with Ok w => w =? pw | Error _ => false end.
Proof. unfold check_fresh. rewrite run_fresh_env. reflexivity. Qed.

Lemma fresh_accept_sound x pw ops s :
  check_fresh x pw (run step_fresh x ops s) = true -> width_now (final_env ops (h_env s)) x = Ok pw.
Proof.
  rewrite fresh_history_irrelevant. destruct (width_now (final_env ops (h_env s)) x) as [w|e]; [|discriminate].
  intro H. apply Z.eqb_eq in H. rewrite H. reflexivity.
Qed.

Lemma final_env_reads ops env : forallb is_read ops = true -> final_env ops env = env.
Proof.
  revert env. induction ops as [|o ops IH]; intros env H; [reflexivity|].
  cbn [forallb] in H. apply andb_true_iff in H. destruct H as [Ho H]. destruct o; [|discriminate].
  unfold final_env in *. cbn [fold_left env_step]. apply IH. exact H.
Qed.

(* ---- memo: agrees with fresh as long as nothing is edited after a read ---- *)
Definition memo_inv (x : sx) (s : hstate) : Prop :=
  h_memo s = None \/ exists w, h_memo s = Some w /\ width_now (h_env s) x = Ok w.

Lemma check_memo_inv x pw s : memo_inv x s -> check_memo x pw s = check_fresh x pw s.
Proof.
  unfold check_memo, check_fresh. intros [H | [w [H1 H2]]].
  - rewrite H. reflexivity.
  - rewrite H1, H2. reflexivity.
Qed.

Lemma read_keeps_inv x s : memo_inv x s -> memo_inv x (step_memo x s HRead) /\ h_env (step_memo x s HRead) = h_env s.
Proof.
  intros I. cbn [step_memo]. destruct (h_memo s) as [m|] eqn:M.
  - split; [exact I | reflexivity].
  - destruct (width_now (h_env s) x) as [w|e] eqn:W.
    + split; [|reflexivity]. right. exists w. cbn [h_memo h_env]. split; [reflexivity | exact W].
    + split; [left; exact M | reflexivity].
Qed.

Lemma reads_keep_inv x ops : forall s, forallb is_read ops = true -> memo_inv x s ->
  memo_inv x (run step_memo x ops s) /\ h_env (run step_memo x ops s) = h_env s.
Proof.
  induction ops as [|o ops IH]; intros s H I; [split; [exact I | reflexivity]|].
  cbn [forallb] in H. apply andb_true_iff in H. destruct H as [Ho H]. destruct o; [|discriminate].
  unfold run in *. cbn [fold_left]. destruct (read_keeps_inv x s I) as [I' E'].
  destruct (IH _ H I') as [I'' E'']. split; [exact I''|]. rewrite E''. exact E'.
Qed.

Lemma sets_keep_none x ops : forall s, forallb (fun o => negb (is_read o)) ops = true -> h_memo s = None ->
  h_memo (run step_memo x ops s) = None /\ h_env (run step_memo x ops s) = final_env ops (h_env s).
Proof.
  induction ops as [|o ops IH]; intros s H M; [split; [exact M | reflexivity]|].
  cbn [forallb] in H. apply andb_true_iff in H. destruct H as [Ho H]. destruct o as [|id w]; [discriminate|].
  unfold run, final_env in *. cbn [fold_left]. apply IH; [exact H | exact M].
Qed.

Lemma run_app step x a b s : run step x (a ++ b) s = run step x b (run step x a s).
Proof. unfold run. apply fold_left_app. Qed.

Lemma memo_agrees_when_edits_come_first x pw edits reads env :
  forallb (fun o => negb (is_read o)) edits = true -> forallb is_read reads = true ->
  check_memo x pw (run step_memo x (edits ++ reads) {| h_env := env; h_memo := None |}) =
  check_fresh x pw (run step_fresh x (edits ++ reads) {| h_env := env; h_memo := None |}).
Proof.
  intros He Hr. rewrite run_app.
  destruct (sets_keep_none x edits {| h_env := env; h_memo := None |} He eq_refl) as [M E].
  destruct (reads_keep_inv x reads _ Hr (or_introl M)) as [I E2].
  rewrite (check_memo_inv _ _ _ I). unfold check_fresh. rewrite E2, E, run_fresh_env.
  cbn [h_env]. unfold final_env. rewrite fold_left_app. fold (final_env edits env).
  fold (final_env reads (final_env edits env)). rewrite (final_env_reads reads _ Hr). reflexivity.
Qed.
