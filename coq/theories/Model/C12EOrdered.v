(* Model/C12EOrdered.v — the elaborate + export pipeline (Model/C01EElab.v, Model/C01FElab.v) with every iteration over a
   hash-ordered Python set taking its visiting order from a PARAMETER.

   hdl21 hashes PortRefs by (id(inst), hash(portname)), Signals / Slices / Concats / NoConns by id(self): the iteration order of
   the back-reference sets `_connected_ports` (and of `_slices`, `_concats`) changes with PYTHONHASHSEED and with the
   allocation history.  The models of C01E / C01F iterate in ONE fixed order (the order of `keys`).  Here an oracle

        o : site -> list key -> list key           (orders)

   is asked at EVERY iteration of a set for the order in which the members are visited.  The `site` says where the code
   is and carries the whole local state of the call (the reference being followed AND the group collected so far), so two
   calls never share a site: the order may be different at every site and at every call.  The only thing known about an
   oracle is `ord_ok o`: what it returns is a permutation of what it was given.

   hdl21/elab/passes/portrefs.py
     follow(pref, group)                       -> follow_o      depth first; `for cp in pref._connected_ports` = o (SFollow ..) (back q)
     while module_portrefs: follow(pop(), ..)  -> discover      the groups, each ONCE, as ordered lists in the order of discovery
     handle_group / find_source / which_portref_to_name / handle_noconn
                                               -> group_res_o   computed from the group AS THE ORDERED LIST the traversal produced:
                                                                the declared sources met (exactly one, else an error), the ports
                                                                connected to nothing (exactly one names the implicit signal), else
                                                                sorted(candidates, key=(inst.name, portname))[0] = first_min
     resolve_portref / update_ref_deps         -> rewrite_inst_g (their net effect: every port of the group is connected to the
                                                                group's source, in place; the one unconnected port gets a new entry
                                                                at the end); the loops themselves, write by write in any order,
                                                                are Model/C12Order.v (step_replace; Props/C12.v)
   The group a reference belongs to is looked up in the discovered groups (group_of); `canon` gives a group the identifier
   the allocation table is keyed by (the first port of the module, in declaration order, that the group holds — an artefact of
   the model, never exported).  plan_g / res_g / rewrite_inst_g are Model/C01EElab.v's plan / res / rewrite_inst with the two
   questions "which group" and "what is the group's result" as parameters (Proofs/C12EProofsPlan.v: instantiated with gid /
   group_res they ARE plan / res / rewrite_inst). *)
From Coq Require Import String Ascii Permutation.
Require Import Hdl21.Base.PyInt Hdl21.Spec.PySlice Hdl21.Model.Slice Hdl21.Model.Resolve Hdl21.Base.Design
               Hdl21.Spec.Nets Hdl21.Spec.WfDesign Hdl21.Base.Package Hdl21.Base.PrimTable Hdl21.Model.Arrays Hdl21.Model.Export
               Hdl21.Proofs.FunGraph Hdl21.Model.C01EElab Hdl21.Model.C01FElab.
Open Scope string_scope.
Open Scope list_scope.
Open Scope Z_scope.

(* ------------------------------------------------------------------------------------------------ the oracle *)
Inductive site :=
| SFollow (mn : name) (q : key) (g : list key)          (* portrefs.py follow(pref=q, group=g): for cp in pref._connected_ports *)
| SDeps (mn : name) (q : key) (written : list key)      (* resolve_ref_types.py update_ref_deps(ref=q): for cp in list(ref._connected_ports);
                                                           `written`: the ports rewritten so far *)
| SFlat (mn : name) (b : name) (pending : list name).   (* flatten_bundles.py replace_bundle_inst / resolve_bundleref:
                                                           for portref in list(b._connected_ports) *)

Definition orders := site -> list key -> list key.
Definition ord_ok (o : orders) : Prop := forall s l, Permutation (o s l) l.

(* the fixed order the reference models use, as an oracle *)
Definition ord_id : orders := fun _ l => l.

(* ------------------------------------------------------------------------------------------------ ResolvePortRefs *)
Section Ordered.
Variable o : orders.
Variable d : design.
Variable ncn : list (N * name).
Variable m : module.

(* every connected port of every instance and instance array: what can sit in a `_connected_ports` set *)
Definition conn_keys : list key := flat_map (fun x => map (fun c : name * sx => (i_name x, fst c)) (i_conns x)) (m_insts m).

(* q._connected_ports: the ports whose whole connection is the reference q (as a list in SOME order; the oracle re-orders it) *)
Definition back (q : key) : list key :=
  filter (fun k => match next m k with Some q' => key_eqb q' q | None => false end) conn_keys.

Section Groups.
Variable keys : list key.

(* follow(pref, group): `group` is a SetList (ordered, no duplicates); fuel exhaustion is None *)
Fixpoint follow_o (fuel : nat) (q : key) (g : list key) : option (list key) :=
  match fuel with
  | O => None
  | S f =>
      if kmem q g then Some g else                                     (* if pref in group: return *)
      let g1 := g ++ [q] in                                            (* group.add(pref) *)
      let r := match next m q with
               | Some q' => follow_o f q' g1                           (* conn is a PortRef: follow(conn, group) *)
               | None => Some g1                                       (* group.add(conn): read back by src_conns *)
               end in
      fold_left (fun acc k => match acc with Some g' => follow_o f k g' | None => None end)
                (o (SFollow (m_name m) q g) (back q)) r                (* for cp in pref._connected_ports: follow(cp, group) *)
  end.

Definition follow_fuel : nat := S (Datatypes.length (keys ++ conn_keys)).

Definition discover_group (q : key) : result (list key) :=
  match follow_o follow_fuel q [] with Some L => Ok L | None => Error EFuel end.

(* while module_portrefs: group = SetList(); follow(module_portrefs.pop(), group) -- follow removes what it meets from
   module_portrefs, so a seed inside an earlier group starts no group.  (A port connected to a NoConn and referred to by
   nobody is a group of its own, replaced on the spot: the SNc seeds, as in Model/C01EElab.v.) *)
Fixpoint discover (ss : list seed) (acc : list (list key)) : result (list (list key)) :=
  match ss with
  | [] => Ok acc
  | SRef q :: r => if existsb (kmem q) acc then discover r acc else L <- discover_group q ;; discover r (acc ++ [L])
  | SNc _ _ _ :: r => discover r acc
  end.

(* ---- handle_group on the group as the traversal left it *)
(* [s for s in group if isinstance(s, Source)] (and the NoConns): the connections of the group's ports that are not references *)
Definition src_conns (L : list key) : list sx :=
  flat_map (fun k => match pconn m k with
                     | Some cx => match as_ref m cx with Some _ => [] | None => [cx] end
                     | None => []
                     end) L.
(* connected_to_none = [p for p in group if conn(p) is None] *)
Definition unconnected (L : list key) : list key := filter (fun k => match pconn m k with None => true | Some _ => false end) L.
(* candidates = [p for p in group if not isinstance(p.inst, InstanceArray)] or group   (keys = the ports of the Instances) *)
Definition candidates (L : list key) : list key := match filter (fun k => kmem k keys) L with [] => L | c => c end.

Definition group_res_o (g : key) (L : list key) : result gres :=
  match src_conns L with
  | [] =>                                                  (* find_source: None -> create_source -> which_portref_to_name *)
      match unconnected L with
      | [r] => Ok (GFresh r r)
      | _ :: _ :: _ => Error EOther                        (* "Invalid PortRef group" *)
      | [] => match candidates L with
              | [] => Error EOther
              | x :: t => Ok (GFresh g (first_min x t))    (* sorted(candidates, key=(inst.name, portname))[0] *)
              end
      end
  | [cx] => match as_nc m cx with
            | Some _ => Error ENoConn                      (* handle_noconn: len(group) > 2 *)
            | None => Ok (GSrc cx)
            end
  | _ :: _ :: _ => Error EOther                            (* "multiple Source-Signals" *)
  end.

(* ---- looking a reference up in the discovered groups *)
Definition group_of (gs : list (list key)) (q : key) : option (list key) := find (kmem q) gs.
Definition canon (L : list key) : option key := find (fun k => kmem k L) keys.
Definition gid_o (gs : list (list key)) (q : key) : option key :=
  match group_of gs q with Some L => canon L | None => None end.
Definition gres_o (gs : list (list key)) (g : key) : result gres :=
  L <- ofopt EMissing (group_of gs g) ;; group_res_o g L.
End Groups.

(* ---- Model/C01EElab.v plan / res / rewrite_conn / rewrite_inst, with "which group" and "the group's result" as parameters *)
Section Param.
Variable gidf : key -> option key.
Variable gresf : key -> result gres.

Fixpoint plan_g (ss : list seed) (done : list key) : result (list alloc) :=
  match ss with
  | [] => Ok []
  | SRef q :: r =>
      g <- ofopt EMissing (gidf q) ;;
      if kmem g done then plan_g r done else
      gr <- gresf g ;;
      match gr with
      | GSrc _ => plan_g r (g :: done)
      | GFresh owner namer =>
          w <- key_width d m namer ;;
          rest <- plan_g r (g :: done) ;;
          Ok ({| a_kind := AGroup g owner; a_base := inst_port (fst namer) (snd namer); a_width := w |} :: rest)
      end
  | SNc x p site :: r =>
      w <- port_width d x p ;;
      rest <- plan_g r done ;;
      Ok ({| a_kind := ANc (i_name x) p;
             a_base := match assocN site ncn with Some n => n | None => inst_port (i_name x) p end;
             a_width := if single x then w else w * i_n x |} :: rest)
  end.

Variable table : list (N * alloc * name).

Definition res_g (q : key) : result sx :=
  g <- ofopt EMissing (gidf q) ;;
  gr <- gresf g ;;
  match gr with
  | GSrc cx => Ok cx
  | GFresh _ _ => e <- ofopt EMissing (find_group table g) ;; Ok (XSig (fst (fst e)) (a_width (snd (fst e))))
  end.

Definition rewrite_conn_g (x : inst) (c : name * sx) : result (name * sx) :=
  match as_ref m (snd c) with
  | Some q => e <- res_g q ;; Ok (fst c, e)
  | None =>
      match as_nc m (snd c) with
      | Some _ => e <- ofopt EMissing (find_nc table (i_name x) (fst c)) ;; Ok (fst c, XSig (fst (fst e)) (a_width (snd (fst e))))
      | None => Ok c
      end
  end.

Definition rewrite_inst_g (x : inst) : result inst :=
  cs <- traverse (rewrite_conn_g x) (i_conns x) ;;
  Ok {| i_name := i_name x; i_n := i_n x; i_of := i_of x; i_conns := cs ++ added_conns table x |}.
End Param.

(* ---- ResolvePortRefs, step 1 (Model/C01FElab.v:portrefs1_module), every set visited in the oracle's order *)
Definition portrefs1_module_o : result (list key * module) :=
  keys <- all_keys d m ;;
  gs <- discover keys (seeds2 m) [] ;;
  allocs <- plan_g (gid_o keys gs) (gres_o keys gs) (seeds2 m) [] ;;
  names <- alloc_names (map a_base allocs) (namespace m) ;;
  let table := number_allocs (combine allocs names) (next_leaf m) in
  insts <- traverse (rewrite_inst_g (gid_o keys gs) (gres_o keys gs) table) (m_insts m) ;;
  Ok (keys, module1 m table insts).

(* step 2: update_ref_deps on `_slices` / `_concats` (sets of Slice / Concat objects hashed by id): every Slice has ONE parent
   and every Concat part is ONE object, each is overwritten by the source of the reference it was - writes to distinct cells,
   the substitution Model/C01FElab.v:reparent *)
Definition portrefs2_module_o : result module :=
  km <- portrefs1_module_o ;; reparent_module (ref_fuel (fst km)) (snd km).
End Ordered.

Definition portrefs2_design_o (o : orders) (xi : xinfo) (d : design) : result design :=
  map_modules (fun m => portrefs2_module_o o d (ncnames xi m) m) d.

(* ------------------------------------------------------------------------------------------------ the pipeline *)
(* ArrayFlattener, SliceResolver, the exporter: no set is iterated (notes/C12E.md, inventory) *)
Definition elab_model_o (o : orders) (xi : xinfo) (d : design) : result design :=
  d1 <- portrefs2_design_o o xi d ;; d2 <- arrays_design d1 ;; slices_design d2.

Definition pipeline_o (o : orders) (xi : xinfo) (d : design) : result package :=
  d' <- elab_model_o o xi d ;; export_model xi d'.
