(* Model/GenUniverse.v — the concrete instance of the generator-cache model: generators with declared
   parameter fields, calls keyed by (generator identity, validated parameter values), generator bodies
   given by a finite table (default: a body that builds one anonymous module and calls nothing). *)
Require Import Hdl21.Base.PyInt Hdl21.Model.ParamName Hdl21.Model.GenCache Hdl21.Model.C09GenFail.
From Coq Require Import String Ascii.
Open Scope string_scope.
Open Scope Z_scope.

(* ---------- the concrete universe ---------- *)
Record gen := { g_name : string; g_fields : list field }.
Definition key := (nat * list pval)%type.                  (* generator (index = identity), validated params *)
Definition key_eqb (a b : key) : bool := Nat.eqb (fst a) (fst b) && pvals_eqb (snd a) (snd b).

Definition rawcall := (nat * list (option pval))%type.     (* generator index, arguments as written *)
Record entry := { e_gen : nat; e_args : list (option pval); e_calls : list rawcall; e_ret : ret }.

Definition mk_key (U : list gen) (c : rawcall) : result key :=
  match nth_error U (fst c) with
  | Some g => vs <- norm_args (g_fields g) (snd c) ;; Ok (fst c, vs)
  | None => Error EMissing
  end.

Fixpoint find_entry (U : list gen) (T : list entry) (k : key) : option entry :=
  match T with
  | [] => None
  | e :: T' => match mk_key U (e_gen e, e_args e) with
               | Ok k' => if key_eqb k k' then Some e else find_entry U T' k
               | Error _ => find_entry U T' k
               end
  end.

Fixpoint ok_keys (U : list gen) (cs : list rawcall) : list key :=
  match cs with
  | [] => []
  | c :: cs' => match mk_key U c with Ok k => k :: ok_keys U cs' | Error _ => ok_keys U cs' end
  end.

Definition prog_of (U : list gen) (T : list entry) (k : key) : body key :=
  match find_entry U T k with
  | Some e => {| b_calls := ok_keys U (e_calls e); b_ret := e_ret e |}
  | None => {| b_calls := []; b_ret := RFresh None |}
  end.

Definition table_ok (U : list gen) (T : list entry) : bool :=
  forallb (fun e => is_ok (mk_key U (e_gen e, e_args e)) && forallb (fun c => is_ok (mk_key U c)) (e_calls e)) T.

Definition gen_of (U : list gen) (k : key) : gen :=
  nth (fst k) U {| g_name := ""; g_fields := [] |}.
Definition gen_name_of (U : list gen) (k : key) : string := g_name (gen_of U k).
Definition has_params_of (U : list gen) (k : key) : bool := negb (Nat.eqb (List.length (g_fields (gen_of U k))) 0).
(* _unique_name(call.params): an Error is a parameter set that cannot be named (an object without a JSON form in it) *)
Definition uname_of (U : list gen) (k : key) : result uname := unique_name_f (g_fields (gen_of U k)) (snd k).
(* evaluation-only rendering of the suffix: the digest is not computed in Coq *)
Definition suffix_of (U : list gen) (k : key) : string :=
  match uname_of U k with Ok (Readable s) => s | _ => "#" end.

Definition FUEL : nat := 40%nat.

Definition run_c (U : list gen) (T : list entry) := run key_eqb (prog_of U T) (gen_name_of U) (has_params_of U) (suffix_of U) FUEL.

(* the suffix as the failing-call model wants it: None = _unique_name raises *)
Definition suffix_opt_of (U : list gen) (k : key) : option string :=
  match uname_of U k with Ok (Readable s) => Some s | Ok Hashed => Some "#" | Error _ => None end.

(* Model/C09GenFail.v on the concrete universe: a call that raises leaves a state, the history goes on *)
Definition run_cf (pol : store_policy) (U : list gen) (T : list entry) :=
  run_f key_eqb (prog_of U T) (gen_name_of U) (has_params_of U) (suffix_opt_of U) pol FUEL.

(* model of one history: every call of it, whatever the calls before did.  None = the call is refused (its arguments do
   not validate, a circular dependency, its result cannot be named, a nested call was refused) *)
Fixpoint model_hist_p (pol : store_policy) (U : list gen) (T : list entry) (st : state key) (cs : list rawcall)
  : state key * list (option (key * nat)) :=
  match cs with
  | [] => (st, [])
  | c :: cs' =>
      match mk_key U c with
      | Error _ => let r := model_hist_p pol U T st cs' in (fst r, None :: snd r)
      | Ok k => match run_cf pol U T st k with
                | (st', Raise _) => let r := model_hist_p pol U T st' cs' in (fst r, None :: snd r)
                | (st', Ret m) => let r := model_hist_p pol U T st' cs' in (fst r, Some (k, m) :: snd r)
                end
      end
  end.
Definition model_hist := model_hist_p StoreNamed.
