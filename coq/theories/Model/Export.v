(* Model/Export.v — hdl21/proto/exporting.py:export_connection_target / export_slice / export_concat
   on resolved connections (Signals, unit-step signal Slices, flat Concats). *)
Require Import Hdl21.Base.PyInt Hdl21.Spec.PySlice Hdl21.Model.Slice Hdl21.Model.Resolve Hdl21.Base.Design Hdl21.Base.Package.

Definition flat_ptarget (nm : N -> name) (f : flat) : ptarget :=
  match f with
  | FSig id _ => PSig (nm id)
  | FSl id _ b t => PSlice (nm id) (t - 1) b          (* inclusive top *)
  end.

Definition export_resolved (nm : N -> name) (r : resolved) : ptarget :=
  match r with
  | RSingle f => flat_ptarget nm f
  | RConcat fs => PConcat (rev (map (flat_ptarget nm) fs))     (* most significant part first *)
  end.
