(* Model/Arrays.v — hdl21/elab/passes/arrays.py: the connection element k of an n-array receives.
   port.width == conn.width: every element gets the connection itself (broadcast);
   port.width * n == conn.width: element k gets conn[k*w : (k+1)*w]; anything else fails. *)
Require Import Hdl21.Base.PyInt Hdl21.Spec.PySlice Hdl21.Model.Slice Hdl21.Model.Resolve.

Definition array_elem_conn (n w : Z) (c : sx) (k : Z) : result sx :=
  cw <- xwidth c ;;
  if cw =? w then Ok c
  else if cw =? n * w then Ok (XSlice c (Sl (Some (k * w)) (Some ((k + 1) * w)) None))
  else Error EWidth.
