(* Model/C12EWrites.v — the reconnect loops of ResolvePortRefs as SEQUENCES OF WRITES to an instance's ordered connection dict,
   with their closed form (a small self-contained library: definitions and lemmas together, like Proofs/FunGraph.v).

   hdl21/elab/passes/portrefs.py          for portref in group_port_refs: resolve_portref(portref, source)
     resolve_portref(pref, to)            pref.inst.connect(pref.portname, to)       -> one write (port of pref, source)
   hdl21/elab/helpers/resolve_ref_types.py
     update_ref_deps(ref, resolved)       for cp in list(ref._connected_ports):      <- a hash-ordered set
                                              cp.inst.replace(cp.portname, resolved) -> one write (port of cp, source)
   hdl21/instance.py connect / replace    conns[portname] = conn: IN PLACE when the port is connected, a NEW ENTRY AT THE END
                                          when it is not (Python dict assignment)     -> dassign
   The order in which the ports of a group are written follows the order of the group list (the traversal) and of the
   `_connected_ports` sets: `ws` below is ANY sequence of writes.  What is known: all writes of one port carry the same value
   (the source of the port's group: `consistent`). *)
From Coq Require Import String.
Require Import Hdl21.Base.PyInt.
Open Scope string_scope.
Open Scope list_scope.

Section Writes.
Variable V : Type.
Notation wdict := (list (string * V)).

(* Instance.connect / replace: conns[portname] = conn -- in place when present, a new entry at the end otherwise *)
Fixpoint dassign (k : string) (v : V) (c : wdict) : wdict :=
  match c with
  | [] => [(k, v)]
  | e :: t => if String.eqb k (fst e) then (fst e, v) :: t else e :: dassign k v t
  end.

Definition apply_writes (ws : list (string * V)) (c : wdict) : wdict := fold_left (fun c w => dassign (fst w) (snd w) c) ws c.

Definition wmem (k : string) (l : list string) : bool := existsb (String.eqb k) l.

(* the ports written that the dict does not hold, in the order of their FIRST write *)
Fixpoint new_keys (ks : list string) (seen : list string) : list string :=
  match ks with
  | [] => []
  | k :: r => if wmem k seen then new_keys r seen else k :: new_keys r (k :: seen)
  end.

Variable f : string -> V.
Definition consistent (ws : list (string * V)) : Prop := forall k v, In (k, v) ws -> v = f k.
Definition gmap (ks : list string) (e : string * V) : string * V := (fst e, if wmem (fst e) ks then f (fst e) else snd e).
Definition written_form (ks : list string) (c : wdict) : wdict :=
  map (gmap ks) c ++ map (fun k => (k, f k)) (new_keys ks (map fst c)).

Lemma wmem_In k l : wmem k l = true <-> In k l.
Proof.
  unfold wmem. rewrite existsb_exists. split.
  - intros [x [Hx E]]. apply String.eqb_eq in E. subst. exact Hx.
  - intros H. exists k. split; [exact H|apply String.eqb_refl].
Qed.

Lemma wmem_app k a b : wmem k (a ++ b) = wmem k a || wmem k b.
Proof. apply existsb_app. Qed.

Lemma new_keys_snoc : forall ks seen k,
  new_keys (ks ++ [k]) seen = new_keys ks seen ++ (if wmem k seen || wmem k ks then [] else [k]).
Proof.
  induction ks as [|a ks IH]; intros seen k; cbn [app new_keys].
  - cbn. rewrite orb_false_r. destruct (wmem k seen); reflexivity.
  - destruct (wmem a seen) eqn:Ea.
    + rewrite IH. f_equal. cbn [wmem existsb]. destruct (String.eqb k a) eqn:Ek; [|reflexivity].
      apply String.eqb_eq in Ek. subst a. unfold wmem in Ea. fold (wmem k seen) in Ea. rewrite Ea. reflexivity.
    + rewrite IH. cbn [app]. f_equal. f_equal. cbn [wmem existsb]. fold (wmem k seen). fold (wmem k ks).
      destruct (String.eqb k a), (wmem k seen), (wmem k ks); reflexivity.
Qed.

Lemma new_keys_In k : forall ks seen, In k (new_keys ks seen) <-> In k ks /\ ~ In k seen.
Proof.
  induction ks as [|a ks IH]; intros seen; cbn [new_keys]; [tauto|].
  destruct (wmem a seen) eqn:Ea.
  - rewrite IH. apply wmem_In in Ea. split; [intros [H1 H2]; split; [right; exact H1|exact H2]|].
    intros [[<-|H1] H2]; [contradiction|split; assumption].
  - assert (~ In a seen) as Hn by (intros H; apply wmem_In in H; congruence). cbn [In]. rewrite IH. cbn [In]. split.
    + intros [<-|[H1 H2]]; [split; [left; reflexivity|exact Hn]|split; [right; exact H1|tauto]].
    + intros [[<-|H1] H2]; [left; reflexivity|]. destruct (string_dec a k) as [E|E]; [left; exact E|right]. split; [exact H1|tauto].
Qed.

Lemma dassign_app_in k v (A B : wdict) : In k (map fst A) -> dassign k v (A ++ B) = dassign k v A ++ B.
Proof.
  induction A as [|e A IH]; intros H; [destruct H|]. cbn [app dassign]. destruct (String.eqb k (fst e)) eqn:E; [reflexivity|].
  cbn [app]. f_equal. apply IH. destruct H as [H|H]; [|exact H]. cbn in H. subst k. rewrite String.eqb_refl in E. discriminate.
Qed.

Lemma dassign_app_out k v (A B : wdict) : ~ In k (map fst A) -> dassign k v (A ++ B) = A ++ dassign k v B.
Proof.
  induction A as [|e A IH]; intros H; [reflexivity|]. cbn [app dassign]. destruct (String.eqb k (fst e)) eqn:E.
  - exfalso. apply H. left. apply String.eqb_eq in E. symmetry. exact E.
  - f_equal. apply IH. intros Hin. apply H. right. exact Hin.
Qed.

Lemma gmap_snoc_other ks k e : fst e <> k -> gmap (ks ++ [k]) e = gmap ks e.
Proof.
  intros Hne. unfold gmap. rewrite wmem_app. cbn [wmem existsb]. destruct (String.eqb (fst e) k) eqn:E.
  - apply String.eqb_eq in E. contradiction.
  - rewrite !orb_false_r. reflexivity.
Qed.

Lemma dassign_first ks k : forall c : wdict, NoDup (map fst c) -> In k (map fst c) ->
  dassign k (f k) (map (gmap ks) c) = map (gmap (ks ++ [k])) c.
Proof.
  induction c as [|e c IH]; intros Hn Hin; [destruct Hin|]. cbn [map] in Hn. inversion Hn as [|? ? Hx Hn']; subst.
  cbn [map dassign]. cbn [gmap fst]. destruct (String.eqb k (fst e)) eqn:E.
  - apply String.eqb_eq in E. subst k. f_equal.
    + unfold gmap. rewrite wmem_app. cbn [wmem existsb]. rewrite String.eqb_refl, orb_true_r. reflexivity.
    + apply map_ext_in. intros e' He'. symmetry. apply gmap_snoc_other. intros Heq. apply Hx. rewrite <- Heq. apply in_map. exact He'.
  - f_equal.
    + symmetry. apply gmap_snoc_other. intros Heq. rewrite Heq, String.eqb_refl in E. discriminate.
    + apply IH; [exact Hn'|]. destruct Hin as [Hin|Hin]; [|exact Hin]. rewrite Hin, String.eqb_refl in E. discriminate.
Qed.

Lemma dassign_second_in k : forall nk, In k nk -> dassign k (f k) (map (fun k => (k, f k)) nk) = map (fun k => (k, f k)) nk.
Proof.
  induction nk as [|a nk IH]; intros H; [destruct H|]. cbn [map dassign fst]. destruct (String.eqb k a) eqn:E.
  - apply String.eqb_eq in E. subst a. reflexivity.
  - f_equal. apply IH. destruct H as [H|H]; [|exact H]. rewrite H, String.eqb_refl in E. discriminate.
Qed.

Lemma dassign_second_out k : forall nk, ~ In k nk ->
  dassign k (f k) (map (fun k => (k, f k)) nk) = map (fun k => (k, f k)) (nk ++ [k]).
Proof.
  induction nk as [|a nk IH]; intros H; [reflexivity|]. cbn [map dassign fst app]. destruct (String.eqb k a) eqn:E.
  - exfalso. apply H. left. apply String.eqb_eq in E. symmetry. exact E.
  - f_equal. apply IH. intros Hin. apply H. right. exact Hin.
Qed.

(* one more write of a port, with the value f gives it *)
Lemma dassign_form ks k (c : wdict) : NoDup (map fst c) ->
  dassign k (f k) (written_form ks c) = written_form (ks ++ [k]) c.
Proof.
  intros Hn. unfold written_form. rewrite new_keys_snoc.
  assert (map fst (map (gmap ks) c) = map fst c) as Hk by (rewrite map_map; reflexivity).
  destruct (wmem k (map fst c)) eqn:Ec.
  - apply wmem_In in Ec. rewrite dassign_app_in by (rewrite Hk; exact Ec). rewrite (dassign_first ks k c Hn Ec).
    cbn [orb]. rewrite app_nil_r. reflexivity.
  - assert (~ In k (map fst c)) as Hnc by (intros H; apply wmem_In in H; congruence).
    rewrite dassign_app_out by (rewrite Hk; exact Hnc).
    assert (map (gmap (ks ++ [k])) c = map (gmap ks) c) as ->.
    { apply map_ext_in. intros e He. apply gmap_snoc_other. intros Heq. apply Hnc. rewrite <- Heq. apply in_map. exact He. }
    f_equal. cbn [orb]. destruct (wmem k ks) eqn:Ek.
    + rewrite app_nil_r. apply dassign_second_in. apply new_keys_In. split; [apply wmem_In; exact Ek|exact Hnc].
    + apply dassign_second_out. intros H. apply new_keys_In in H. destruct H as [H _]. apply wmem_In in H. congruence.
Qed.

Lemma written_form_nil (c : wdict) : written_form [] c = c.
Proof.
  unfold written_form. cbn [new_keys map]. rewrite app_nil_r. rewrite <- (map_id c) at 2. apply map_ext. intros [a b]. reflexivity.
Qed.

(* the closed form of ANY sequence of consistent writes: it mentions the sequence only through the SET of ports written
   (wmem) and the order in which NEW ports are first written (new_keys) *)
Theorem apply_writes_form : forall ws ks (c : wdict), consistent ws -> NoDup (map fst c) ->
  apply_writes ws (written_form ks c) = written_form (ks ++ map fst ws) c.
Proof.
  induction ws as [|[k v] ws IH]; intros ks c Hc Hn; cbn [apply_writes fold_left map fst snd].
  - rewrite app_nil_r. reflexivity.
  - rewrite (Hc k v (or_introl eq_refl)). rewrite (dassign_form ks k c Hn).
    change (fold_left (fun c0 w => dassign (fst w) (snd w) c0) ws (written_form (ks ++ [k]) c)) with (apply_writes ws (written_form (ks ++ [k]) c)).
    rewrite IH; [|intros k' v' H; apply Hc; right; exact H|exact Hn]. rewrite <- app_assoc. reflexivity.
Qed.

Theorem apply_writes_closed ws (c : wdict) : consistent ws -> NoDup (map fst c) ->
  apply_writes ws c = written_form (map fst ws) c.
Proof. intros Hc Hn. rewrite <- (written_form_nil c) at 1. apply (apply_writes_form ws [] c Hc Hn). Qed.

(* two write sequences - e.g. the same loops run in two visiting orders - that write the same ports with consistent values
   and first-write new ports in the same order leave the SAME ORDERED dict *)
Theorem apply_writes_order_free ws1 ws2 (c : wdict) : consistent ws1 -> consistent ws2 -> NoDup (map fst c) ->
  (forall k, In k (map fst ws1) <-> In k (map fst ws2)) ->
  new_keys (map fst ws1) (map fst c) = new_keys (map fst ws2) (map fst c) ->
  apply_writes ws1 c = apply_writes ws2 c.
Proof.
  intros H1 H2 Hn Hs Hk. rewrite (apply_writes_closed ws1 c H1 Hn), (apply_writes_closed ws2 c H2 Hn). unfold written_form. rewrite Hk. f_equal.
  apply map_ext. intros e. unfold gmap. f_equal.
  assert (wmem (fst e) (map fst ws1) = wmem (fst e) (map fst ws2)) as ->; [|reflexivity].
  destruct (wmem (fst e) (map fst ws1)) eqn:E1; destruct (wmem (fst e) (map fst ws2)) eqn:E2; try reflexivity; exfalso.
  - apply wmem_In in E1. apply Hs in E1. apply wmem_In in E1. congruence.
  - apply wmem_In in E2. apply Hs in E2. apply wmem_In in E2. congruence.
Qed.
End Writes.
