(* Model/C15Store.v — hdl21/walker.py HierarchyWalker over SHARED, MUTABLE module objects, and histories of
   compilations to several PDKs (property C15, strengthening round).

   Model/Walker.v unfolds the hierarchy into a tree (one occurrence per instance) and returns nothing when a
   compilation raises.  That abstracts away exactly what histories of compilations depend on:
     - a Module that is the target of several instances is ONE object; `visit_instance` assigns `inst.of` in place, so
       whatever a walk did to it is seen by every later walk, of any PDK, through any parent;
     - a compilation that raises midway has already rewritten the instances it visited before the failing one;
     - a PDK that maps only some primitives (sample PDK, ASAP7: Mos only) leaves the others for a later compilation.
   Here the design is the module TABLE (a store): instance targets refer to modules by index, the walk threads the
   store, and every result carries the store and the walker state reached, also when it is an error.

   anchors: hdl21/walker.py  HierarchyWalker.visit_module / visit_instance / visit_instantiable (no memo: a module is
            walked once per instance that refers to it, every time it is reached)
            <pdk>.compile(src) = <Walker>().walk(src): a fresh walker per compilation; Sky130/GF180 keep their
            device-call caches at module scope (prim_dicts.CACHE), the sample PDK and ASAP7 per walker. *)
From Coq Require Import String.
Require Import Hdl21.Base.PyInt Hdl21.Spec.PdkSpec Hdl21.Model.PdkSelect Hdl21.Model.Walker.
Open Scope string_scope.
Open Scope list_scope.

Inductive starget :=
| SMod (i : nat)                            (* a Module object: index into the store *)
| SPrim (p : prim) (prm : pparams)          (* PrimitiveCall *)
| SCall (c : call)                          (* ExternalModuleCall created by a PDK compilation *)
| SExt (name : string).                     (* any other ExternalModuleCall *)

Definition sinst := (string * list (string * string) * starget)%type.     (* instance name, connections, target *)
Definition smod := (string * list sinst)%type.
Definition store := list smod.

Definition mod_insts (s : store) (i : nat) : list sinst :=
  match nth_error s i with Some m => snd m | None => [] end.

Definition get_target (s : store) (i pos : nat) : option starget :=
  match nth_error (mod_insts s i) pos with Some it => Some (snd it) | None => None end.

Fixpoint upd {A} (l : list A) (n : nat) (f : A -> A) : list A :=
  match l, n with
  | [], _ => []
  | x :: r, O => f x :: r
  | x :: r, S m => x :: upd r m f
  end.

(* inst.of = <new target> : the one assignment the walker makes *)
Definition set_target (s : store) (i pos : nat) (t : starget) : store :=
  upd s i (fun m => (fst m, upd (snd m) pos (fun it => (fst it, t)))).

Inductive serr :=
| SE (e : perr)        (* the exception a <group>_module_call raised (or let escape) *)
| SEFuel               (* recursion fuel exhausted: unreachable for a well-formed store (theorem C15_store_total) *)
| SEBadRef.            (* an index outside the store: unreachable for a well-formed store *)

(* store and walker state reached, and the exception that ended the walk (None: it returned) *)
Definition sres := (store * wst * option serr)%type.

(* visit_module's loop `for inst in module.instances.values(): inst.of = self.visit_instantiable(inst.of)`
   over the instances pos, pos+1, ... (n of them) of module i; `vs` visits a sub-module.  The target is read from
   the store as it is when the instance is reached. *)
Fixpoint sloop (vs : store -> wst -> nat -> sres) (k : pdk) (i : nat) (n pos : nat) (s : store) (st : wst) {struct n} : sres :=
  match n with
  | O => (s, st, None)
  | S n' =>
      match get_target s i pos with
      | None => (s, st, Some SEBadRef)
      | Some (SMod j) =>
          match vs s st j with
          | (s1, st1, Some e) => (s1, st1, Some e)
          | (s1, st1, None) => sloop vs k i n' (S pos) s1 st1          (* visit_module returns the module itself *)
          end
      | Some (SPrim p prm) =>
          match group_of k p with
          | None => sloop vs k i n' (S pos) s st                        (* "return everything else as-is" *)
          | Some g =>
              match module_call k g prm st with
              | SErr e => (s, st, Some (SE e))
              | SOk (c, st1) => sloop vs k i n' (S pos) (set_target s i pos (SCall c)) st1
              end
          end
      | Some (SCall _) | Some (SExt _) => sloop vs k i n' (S pos) s st   (* visit_external_module_call: base implementation *)
      end
  end.

Fixpoint svisit (fuel : nat) (k : pdk) (s : store) (st : wst) (i : nat) {struct fuel} : sres :=
  match fuel with
  | O => (s, st, Some SEFuel)
  | S f =>
      match nth_error s i with
      | None => (s, st, Some SEBadRef)
      | Some m => sloop (svisit f k) k i (length (snd m)) 0 s st
      end
  end.

(* ---- histories: several PDKs, several compilations, one process *)
Record hst := { h_store : store;
                h_sky : list (ckey * call);      (* sky130_hdl21.primitives.prim_dicts.CACHE *)
                h_gf : list (ckey * call);       (* gf180_hdl21.primitives.prim_dicts.CACHE *)
                h_next : N }.                    (* object identities handed out so far *)

Definition cache_of (k : pdk) (h : hst) : list (ckey * call) :=
  match k with Sky130 => h_sky h | Gf180 => h_gf h | _ => [] end.      (* sample / ASAP7: a fresh walker, empty caches *)

Definition fuel_of (s : store) : nat := S (length s).

(* <pdk k>.compile(<module top>) *)
Definition hstep (k : pdk) (top : nat) (h : hst) : hst * option serr :=
  match svisit (fuel_of (h_store h)) k (h_store h) {| cache := cache_of k h; next := h_next h |} top with
  | (s', st', e) =>
      ({| h_store := s';
          h_sky := match k with Sky130 => cache st' | _ => h_sky h end;
          h_gf := match k with Gf180 => cache st' | _ => h_gf h end;
          h_next := next st' |}, e)
  end.

(* a history of compilations; a compilation that raised leaves the store as far as it got, the next one goes on from there *)
Fixpoint hrun (ops : list (pdk * nat)) (h : hst) : hst * list (option serr) :=
  match ops with
  | [] => (h, [])
  | (k, top) :: r =>
      let (h1, e) := hstep k top h in
      let (h2, es) := hrun r h1 in (h2, e :: es)
  end.

Definition h0 (s : store) : hst := {| h_store := s; h_sky := []; h_gf := []; h_next := 0%N |}.

(* ---- the observables the theorems talk about *)
(* module i refers (directly, then transitively) to module j *)
Inductive reach (s : store) : nat -> nat -> Prop :=
| reach_refl i : reach s i i
| reach_step i j l n c : In (n, c, SMod j) (mod_insts s i) -> reach s j l -> reach s i l.

(* not a generic primitive the PDK k maps *)
Definition tclean (k : pdk) (t : starget) : bool :=
  match t with
  | SPrim p _ => match group_of k p with Some _ => false | None => true end
  | _ => true
  end.
Definition mclean (k : pdk) (s : store) (i : nat) : Prop := forall it, In it (mod_insts s i) -> tclean k (snd it) = true.
(* no instance of a mapped generic primitive anywhere below module i *)
Definition cleanR (k : pdk) (s : store) (i : nat) : Prop := forall j, reach s i j -> mclean k s j.

(* well-formed store = what elaboration produces: a DAG listed bottom-up (the harness lists it so) *)
Definition wf (s : store) : Prop := forall i n c j, In (n, c, SMod j) (mod_insts s i) -> (j < i)%nat.

(* "only Instance.of of mapped generic primitives changed": Q says which call may replace which request *)
Definition tstep (Q : prim -> pparams -> call -> Prop) (t t' : starget) : Prop :=
  t' = t \/ exists p prm c, t = SPrim p prm /\ t' = SCall c /\ Q p prm c.
Definition istep Q (a b : sinst) : Prop := fst a = fst b /\ tstep Q (snd a) (snd b).
Definition mstep Q (a b : smod) : Prop := fst a = fst b /\ Forall2 (istep Q) (snd a) (snd b).
Definition srel Q (s s' : store) : Prop := Forall2 (mstep Q) s s'.

(* the request is mapped by k and the call is the one cached for it *)
Definition Qin (k : pdk) (c : list (ckey * call)) : prim -> pparams -> call -> Prop :=
  fun p prm cl => exists g, group_of k p = Some g /\ lookup (g, prm) c = Some cl.
(* the request is mapped by k and the call is the one k's selection builds for it *)
Definition Qsel (k : pdk) : prim -> pparams -> call -> Prop :=
  fun p prm cl => exists g, group_of k p = Some g /\ conv_g k g prm = SOk (c_spec cl).
Definition Qany (ks : list pdk) : prim -> pparams -> call -> Prop :=
  fun p prm cl => exists k, In k ks /\ Qsel k p prm cl.

(* the tree the walker of Model/Walker.v sees below module i *)
Fixpoint unfold (fuel : nat) (s : store) (i : nat) {struct fuel} : module :=
  match fuel with
  | O => Mod "" INil
  | S f =>
      match nth_error s i with
      | None => Mod "" INil
      | Some m =>
          Mod (fst m) (fold_right (fun it acc =>
            ICons (fst (fst it)) (snd (fst it))
                  (match snd it with
                   | SMod j => TMod (unfold f s j)
                   | SPrim p prm => TPrim p prm
                   | SCall c => TCall c
                   | SExt x => TExt x
                   end) acc) INil (snd m))
      end
  end.
