(* Model/C13Params.v — model of the path a parameter value takes from the designer to the exported package
   (property C13; repaired tree):

     hdl21/scalar.py        to_scalar                (str / int / float / Decimal -> Prefixed | Literal)
     pydantic + decimal     Decimal(str)             (the numeric-string reader `Prefixed(number=<str>)` ends in:
                                                      strip white space, drop '_', map Unicode digits, libmpdec grammar, finite only)
     decimal                str(Decimal)             (to-scientific-string)
     hdl21/proto/exporting.py  export_param_value, export_prefix, export_prefixed, export_primitive_params,
                            dictify_params, and the parameter loop of ProtoExporter.export_instance

   Python strings are lists of code points (`str`).  Tables (Prefix members, prefix -> SIPrefix map, primitive registry,
   ideal-primitive name map, pulse-source renaming, CPython's white-space and decimal-digit code points) are the
   GENERATED ones.  Every `raise` is an explicit Error. *)
From Coq Require Import String Ascii.
Require Import Hdl21.Base.PyInt Hdl21.Base.Dec Hdl21.Model.Prefixed.
Require Import Hdl21Gen.PrefixTable Hdl21Gen.PrefixMaps Hdl21Gen.C13Tables.
Open Scope list_scope.
Open Scope Z_scope.
Notation length := List.length.

(* ------------------------------------------------------------------ strings *)
Definition str := list Z.

Fixpoint of_string (s : string) : str :=
  match s with EmptyString => [] | String a r => Z.of_N (N_of_ascii a) :: of_string r end.

Fixpoint str_eqb (a b : str) : bool :=
  match a, b with
  | [], [] => true
  | x :: a', y :: b' => (x =? y) && str_eqb a' b'
  | _, _ => false
  end.

Lemma str_eqb_refl a : str_eqb a a = true.
Proof. induction a; simpl; [reflexivity|]. rewrite Z.eqb_refl. exact IHa. Qed.
Lemma str_eqb_eq a : forall b, str_eqb a b = true -> a = b.
Proof.
  induction a as [|x a IH]; intros [|y b] H; simpl in H; try discriminate; [reflexivity|].
  apply andb_prop in H. destruct H as [H1 H2]. apply Z.eqb_eq in H1. subst. f_equal. apply IH. exact H2.
Qed.

(* ------------------------------------------------------------------ decimal digits of a non-negative integer *)
Definition is_dig (c : Z) : bool := (48 <=? c) && (c <=? 57).

(* value of a digit string continued from `acc` *)
Fixpoint dval (acc : Z) (l : str) : Z :=
  match l with [] => acc | c :: t => dval (acc * 10 + (c - 48)) t end.

(* str(n), n >= 0: most significant digit first; None = fuel exhausted (unreachable: digits_of_total) *)
Fixpoint digs (fuel : nat) (n : Z) (acc : str) : option str :=
  match fuel with
  | O => None
  | S f => if n <? 10 then Some ((48 + n) :: acc) else digs f (n / 10) ((48 + n mod 10) :: acc)
  end.
Definition digits_of (n : Z) : option str := digs (Z.to_nat (Z.log2 n) + 1) n [].

(* ------------------------------------------------------------------ Decimal(str) *)
Definition is_ws (c : Z) : bool := existsb (Z.eqb c) c13_ws.
(* Py_UNICODE_TODECIMAL *)
Definition digit_of (c : Z) : option Z :=
  match find (fun z => (z <=? c) && (c <=? z + 9)) c13_digit_zeros with
  | Some z => Some (c - z)
  | None => None
  end.

Fixpoint lstrip (l : str) : str :=
  match l with c :: t => if is_ws c then lstrip t else l | [] => [] end.
Definition strip (l : str) : str := rev (lstrip (rev (lstrip l))).

(* _decimal.c numeric_as_ascii after stripping: '_' is skipped, ASCII is copied, white space becomes a blank,
   a Unicode decimal digit becomes its ASCII digit, anything else makes the conversion fail *)
Fixpoint to_ascii (l : str) : option str :=
  match l with
  | [] => Some []
  | c :: t =>
      if c =? 95 then to_ascii t
      else
        let k := if (0 <? c) && (c <=? 127) then Some c
                 else if is_ws c then Some 32
                 else match digit_of c with Some d => Some (48 + d) | None => None end in
        match k, to_ascii t with
        | Some x, Some r => Some (x :: r)
        | _, _ => None
        end
  end.

(* longest prefix of ASCII digits *)
Fixpoint span_dig (l : str) : str * str :=
  match l with
  | c :: t => if is_dig c then let (a, b) := span_dig t in (c :: a, b) else ([], l)
  | [] => ([], [])
  end.

Definition take_sign (l : str) : bool * str :=
  match l with
  | c :: t => if c =? 45 then (true, t) else if c =? 43 then (false, t) else (false, l)
  | [] => (false, [])
  end.

(* what may follow the coefficient: nothing, or [eE][+-]?digits+ *)
Definition parse_exp (l : str) : option Z :=
  match l with
  | [] => Some 0
  | c :: t =>
      if (c =? 101) || (c =? 69) then
        let (neg, t1) := take_sign t in
        let (ds, r) := span_dig t1 in
        match ds, r with
        | _ :: _, [] => Some (if neg then - dval 0 ds else dval 0 ds)
        | _, _ => None
        end
      else None
  end.

(* libmpdec mpd_qset_string on a finite numeric string: [sign] digits [. digits] [exponent], at least one digit.
   ("inf", "nan", ... are read by Decimal() as special values; Prefixed's field validation refuses those, so for this
   path they are exactly as non-numeric as any other text.) *)
Definition parse_ascii (l : str) : option dec :=
  let (neg, r0) := take_sign l in
  let (ip, r1) := span_dig r0 in
  let (fp, r2) := match r1 with
                  | c :: t => if c =? 46 then span_dig t else ([], r1)
                  | [] => ([], [])
                  end in
  match ip ++ fp with
  | [] => None
  | ds => match parse_exp r2 with
          | Some e => Some (mkDec neg (Z.to_N (dval 0 ds)) (e - Z.of_nat (length fp)))
          | None => None
          end
  end.

Definition parse_numeric (s : str) : option dec :=
  match to_ascii (strip s) with Some a => parse_ascii a | None => None end.

(* ------------------------------------------------------------------ str(Decimal) : to-scientific-string *)
Definition fmt_signed (z : Z) : option str :=          (* "%+d" *)
  match digits_of (Z.abs z) with Some ds => Some ((if z <? 0 then 45 else 43) :: ds) | None => None end.

Definition dec_to_string (d : dec) : option str :=
  match digits_of (Z.of_N (dcoef d)) with
  | None => None
  | Some ds =>
      let n := Z.of_nat (length ds) in
      let e := dexp d in
      let leftdigits := e + n in
      let dotplace := if (e <=? 0) && (-6 <? leftdigits) then leftdigits else 1 in
      let body :=
        if dotplace <=? 0 then 48 :: 46 :: repeat 48 (Z.to_nat (- dotplace)) ++ ds
        else if n <=? dotplace then ds ++ repeat 48 (Z.to_nat (dotplace - n))
        else firstn (Z.to_nat dotplace) ds ++ 46 :: skipn (Z.to_nat dotplace) ds in
      let sg := if dsign d then [45] else [] in
      if leftdigits =? dotplace then Some (sg ++ body)
      else match fmt_signed (leftdigits - dotplace) with
           | Some ex => Some (sg ++ body ++ 69 :: ex)
           | None => None
           end
  end.

(* ------------------------------------------------------------------ values *)
(* A float is its IEEE-754 binary64 bit pattern together with CPython's repr() of it (`frepr`, a trusted primitive
   carried along as an annotation; the correspondence run checks for every float it uses that the text reads back
   as that double). *)
Inductive value :=
| VNone
| VStr (s : str)
| VEnum (v : option str)          (* member of an Enum: Some s = its value is the string s, None = not a string *)
| VLit (s : str)                  (* hdl21.Literal *)
| VPrefixed (p : pfx)
| VDecimal (d : dec)              (* finite decimal.Decimal *)
| VInt (z : Z)
| VFloat (bits : Z) (frepr : str)
| VOther.                         (* any other Python object *)

Inductive pnum := NInt64 (z : Z) | NString (s : str) | NDouble (bits : Z).
Inductive pvalue :=
| PVLiteral (s : str) | PVInt64 (z : Z) | PVDouble (bits : Z) | PVString (s : str)
| PVPrefixed (n : pnum) (pre : string).

Definition int64_ok (z : Z) : bool := (- 9223372036854775808 <=? z) && (z <=? 9223372036854775807).
Definition float_finite (bits : Z) : bool := negb ((bits / 4503599627370496) mod 2048 =? 2047).

(* ---- to_scalar (hdl21/scalar.py), including the validation of Prefixed.number by pydantic *)
Definition unit_pfx (d : dec) : result value := u <- unit_prefix ;; Ok (VPrefixed (mkP d u)).

Definition to_scalar (v : value) : result value :=
  match v with
  | VPrefixed _ | VLit _ => Ok v
  | VStr s => match parse_numeric s with Some d => unit_pfx d | None => Ok (VLit s) end
  | VInt z => unit_pfx (of_int z 0)
  | VDecimal d => unit_pfx d
  | VFloat b r => if float_finite b then match parse_numeric r with Some d => unit_pfx d | None => Error EOther end
                  else Error EOther
  | VNone | VEnum _ | VOther => Error EBadKind
  end.

(* ---- export_prefix / export_prefixed / export_param_value (hdl21/proto/exporting.py) *)
Fixpoint zassoc {A} (k : Z) (t : list (Z * A)) : option A :=
  match t with [] => None | (k', v) :: r => if k =? k' then Some v else zassoc k r end.
Fixpoint sassoc {A} (k : string) (t : list (string * A)) : option A :=
  match t with [] => None | (k', v) :: r => if String.eqb k k' then Some v else sassoc k r end.

Definition export_prefix (q : Z) : result string :=
  match zassoc q prefix_map_export with Some n => Ok n | None => Error EOther end.

(* pref.number == int(pref.number) *)
Definition is_integral (d : dec) : bool := deqb d (of_int (dtrunc d) 0).

Definition str_of_dec (d : dec) : result str :=
  match dec_to_string d with Some s => Ok s | None => Error EFuel end.

Definition export_prefixed (p : pfx) : result pvalue :=
  pre <- export_prefix (prefix p) ;;
  if is_integral (number p) && int64_ok (dtrunc (number p))
  then Ok (PVPrefixed (NInt64 (dtrunc (number p))) pre)
  else s <- str_of_dec (number p) ;; Ok (PVPrefixed (NString s) pre).

(* the pinned tree: every integral number takes the int64 branch, protobuf refuses values beyond int64 *)
Definition export_prefixed_pinned (p : pfx) : result pvalue :=
  pre <- export_prefix (prefix p) ;;
  if is_integral (number p)
  then (if int64_ok (dtrunc (number p)) then Ok (PVPrefixed (NInt64 (dtrunc (number p))) pre) else Error EOther)
  else s <- str_of_dec (number p) ;; Ok (PVPrefixed (NString s) pre).

(* None = "no value": the parameter goes un-set *)
Definition export_param_value (v : value) : result (option pvalue) :=
  match v with
  | VNone => Ok None
  | VStr s => Ok (Some (PVLiteral s))
  | VEnum (Some s) => Ok (Some (PVLiteral s))
  | VEnum None => Error EBadKind                                   (* TypeError *)
  | VLit s => Ok (Some (PVLiteral s))
  | VPrefixed p => pv <- export_prefixed p ;; Ok (Some pv)
  | VDecimal d => s <- str_of_dec d ;; Ok (Some (PVLiteral s))
  | VInt z => if int64_ok z then Ok (Some (PVInt64 z)) else Error EOther   (* protobuf: ValueError *)
  | VFloat b _ => Ok (Some (PVDouble b))
  | VOther => Error EBadKind                                       (* TypeError *)
  end.

(* ---- the parameter loop of export_instance:  for key, val in params.items(): skip None, else export *)
Fixpoint export_params (ps : list (str * value)) : result (list (str * pvalue)) :=
  match ps with
  | [] => Ok []
  | (k, v) :: r =>
      o <- export_param_value v ;;
      rest <- export_params r ;;
      match o with Some pv => Ok ((k, pv) :: rest) | None => Ok rest end
  end.

(* ---- construction of the parameter object: how a given value is stored in a field of kind
        0 Scalar, 1 Optional[Scalar], 2 Optional[str], 3 string-valued Enum, 4 anything else (dict entries included).
        Kinds 2 and 3 are modelled on well-typed arguments only (None/str, a member of the enum). *)
Definition store (kind : Z) (v : value) : result value :=
  if kind =? 0 then to_scalar v
  else if kind =? 1 then match v with VNone => Ok VNone | _ => to_scalar v end
  else if kind =? 2 then match v with VNone | VStr _ => Ok v | _ => Error EBadKind end
  else if kind =? 3 then match v with VEnum (Some _) => Ok v | _ => Error EBadKind end
  else Ok v.

Inductive target :=
| TPrim (name : string)
| TExt (isdict : bool) (domain : option str) (name : str).

Record call := mkCall { c_tgt : target; c_params : list (str * Z * value) }.

Fixpoint store_all (ps : list (str * Z * value)) : result (list (str * value)) :=
  match ps with
  | [] => Ok []
  | (k, kind, v) :: r => x <- store kind v ;; rest <- store_all r ;; Ok ((k, x) :: rest)
  end.

Fixpoint str_assoc {A} (k : str) (t : list (str * A)) : option A :=
  match t with [] => None | (k', v) :: r => if str_eqb k k' then Some v else str_assoc k r end.

(* export_primitive_params: the pulse-source class is re-keyed through the generated keyword list, everything else
   passes name by name *)
Definition rename_params (pclass : string) (ps : list (str * value)) : result (list (str * value)) :=
  if String.eqb pclass c13_pulse_class then
    traverse (fun na : string * string =>
                match str_assoc (of_string (snd na)) ps with
                | Some v => Ok (of_string (fst na), v)
                | None => Error EMissing                          (* AttributeError *)
                end) c13_pulse_rename
  else Ok ps.

Definition prim_fields (fs : list (string * Z * (Z * Z * string))) : list (str * Z) :=
  map (fun f => (of_string (fst (fst f)), snd (fst f))) fs.
Definition call_fields (ps : list (str * Z * value)) : list (str * Z) := map fst ps.
Fixpoint fields_eqb (a b : list (str * Z)) : bool :=
  match a, b with
  | [], [] => true
  | (n, k) :: a', (m, j) :: b' => str_eqb n m && (k =? j) && fields_eqb a' b'
  | _, _ => false
  end.

Definition find_prim (name : string) : option (string * string * list (string * Z * (Z * Z * string))) :=
  match find (fun e : string * string * string * list (string * Z * (Z * Z * string)) =>
                String.eqb (fst (fst (fst e))) name) c13_prims with
  | Some (_, ty, pc, fs) => Some (ty, pc, fs)
  | None => None
  end.

(* BipolarParams.__post_init__ (repaired): a Prefixed width / length must not compare `<= 0`
   (Prefixed.__le__ against to_prefixed(0), i.e. within the comparison tolerance of Model/Prefixed.v).
   `isinstance(self.w, Prefixed)` is asked of the stored thing through `pre_of` (a plain value: is it VPrefixed;
   an object of Model/C13Dispatch.v: has it the Prefixed facet). *)
Definition not_positive (p : pfx) : result bool := u <- unit_prefix ;; Ok (pcmp OLe p (mkP (of_int 0 0) u)).
Definition positive_check_by {A} (pre_of : A -> option pfx) (stored : list (str * A)) (field : string) : result unit :=
  match str_assoc (of_string field) stored with
  | Some x => match pre_of x with
              | Some p => b <- not_positive p ;; if b then Error EOther else Ok tt      (* ValueError *)
              | None => Ok tt
              end
  | None => Ok tt
  end.
Definition post_init_by {A} (pre_of : A -> option pfx) (pclass : string) (stored : list (str * A)) : result unit :=
  if String.eqb pclass "BipolarParams"
  then _ <- positive_check_by pre_of stored "w" ;; positive_check_by pre_of stored "l" else Ok tt.
Definition as_prefixed (v : value) : option pfx := match v with VPrefixed p => Some p | _ => None end.
Definition positive_check (stored : list (str * value)) (field : string) : result unit := positive_check_by as_prefixed stored field.
Definition post_init (pclass : string) (stored : list (str * value)) : result unit := post_init_by as_prefixed pclass stored.

(* everything after the construction of the parameter object: `fields` are the (name, kind) pairs the call supplied,
   `checks pclass` is the outcome of the parameter class's own __post_init__, `stored` the values as export_param_value
   sees them *)
Definition export_stored (tgt : target) (fields : list (str * Z)) (checks : string -> result unit)
                         (stored : list (str * value)) : result (str * str * list (str * pvalue)) :=
  match tgt with
  | TPrim name =>
      match find_prim name with
      | None => Error EMissing
      | Some (ty, pc, fs) =>
          if negb (fields_eqb (prim_fields fs) fields) then Error EExtra
          else if negb (is_ok (checks pc)) then Error EOther
          else if String.eqb ty "PHYSICAL" then
            ps <- export_params stored ;; Ok (of_string "hdl21.primitives", of_string name, ps)
          else if String.eqb ty "IDEAL" then
            match sassoc name c13_prim_map with
            | None => Error EName                                  (* RuntimeError: Invalid Primitive *)
            | Some vname =>
                renamed <- rename_params pc stored ;;
                ps <- export_params renamed ;; Ok (of_string "vlsir.primitives", of_string vname, ps)
            end
          else Error EOther
      end
  | TExt _ dom name =>
      ps <- export_params stored ;;
      Ok (match dom with Some d => d | None => [] end, name, ps)
  end.

Definition export_instance (c : call) : result (str * str * list (str * pvalue)) :=
  stored <- store_all (c_params c) ;;
  export_stored (c_tgt c) (call_fields (c_params c)) (fun pc => post_init pc stored) stored.
