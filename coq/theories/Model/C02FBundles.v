(* Model/C02FBundles.v — the checked pipeline WITH Bundles: the bundle passes of C01G (Model/C01GBundlePasses.v) and the
   ConnTypes check on bundle-valued ports in front of the checked pipeline of Model/C02FPipeline.v, over the bundle design
   language of Base/C01BDesign.v.

     InstBundleElabPass       ib_design         (pair_conn: a Pair's anonymous bundle is matched by member NAME; members other than
                                                 p / n are refused - fixes/C02-2 - a missing one is EMissing)
     ConnTypes                bundle_conntypes  conntypes.py:check_compatible on a Bundle-valued port of a single Instance:
                                                 BundleInstance / BundleRef  -> check_bundles_compatible: the two definitions have the
                                                   same member names at every level and every Signal the same width (tree_compat);
                                                   the reference must resolve (resolve_bundleref_type: EMissing), the bundle must be
                                                   the module's (EOrphan);
                                                 AnonymousBundle             -> "for now this just returns success": judged when it is
                                                   flattened (BundleFlattener) and by PostFlattenConnTypes
                                                 (scalar ports: the scalar ConnTypes of the pipeline, after the flattening)
     BundleFlattener          flat_design       replace_bundle_conn_checked: pairing BY PATH, a member the port's Bundle lacks is
                                                 refused (EExtra, fixes/C02-1), a missing one is EMissing; resolve_ref: a reference to a
                                                 member that does not exist EMissing, a bundle the module does not own EOrphan;
                                                 conn_widths: every whole Signal connected to a flat port has its width (EWidth)
     the rest                 checked_pipeline2 on the flattened design (Model/C02FPipeline.v: build, Orphanage, ResolvePortRefs with
                                                 nested references, ConnTypes, ArrayFlattener, SliceResolver, PostFlatten*, MarkModules, export)

   Order: Hdl21 runs ResolvePortRefs between InstBundleElabPass and ConnTypes, and BundleFlattener after ConnTypes; the model flattens
   first and resolves references member-wise afterwards - the deviation of notes/C01G.md, measured there as "same nets, same declared
   names".  For C02 only the verdict (and for the core stream the rejecting pass) is compared. *)
From Coq Require Import String.
Require Import Hdl21.Base.PyInt Hdl21.Spec.PySlice Hdl21.Model.Slice Hdl21.Model.Resolve Hdl21.Base.Design
               Hdl21.Spec.WfDesign Hdl21.Base.Package Hdl21.Base.C01BDesign Hdl21.Spec.C01BWf Hdl21.Spec.C01GLower
               Hdl21.Model.C01EElab Hdl21.Model.C01FElab Hdl21.Model.C01GBundlePasses Hdl21.Model.C02EPipeline Hdl21.Model.C02FPipeline.
Require Hdl21.Spec.BundleSpec.
Open Scope string_scope.
Open Scope list_scope.
Open Scope Z_scope.

(* check_bundles_compatible: sorted(signals.keys()) equal, sorted(bundles.keys()) equal, widths equal, recursively =
   the two definitions have the same member paths with the same widths *)
Definition tree_compat (tp tb : btree) : bool :=
  let a := tree_members tp in
  let b := tree_members tb in
  Nat.eqb (Datatypes.length a) (Datatypes.length b) &&
  forallb (fun qw : mpath * Z => match BundleSpec.passoc (fst qw) b with Some w => w =? snd qw | None => false end) a.

Definition bct_conn (d : bdesign) (m : bmodule) (x : binst) (c : name * bexpr) : result unit :=
  match port_kind_of d (bi_of x) (fst c), snd c with
  | Ok (PKBundle tp), BXInst b pre =>
      bt <- ofopt EOrphan (find_bundle (bm_bundles m) b) ;;
      st <- ofopt EMissing (subtree pre (snd bt)) ;;
      check (tree_compat tp st) EWidth
  | _, _ => Ok tt
  end.

(* ConnTypes.elaborate_module: `for inst in module.instances.values()` - arrays are not looked at *)
(* Unconnected(portname) for a Bundle-valued port: ResolvePortRefs ran before, so a port that is referred to (BXRef) got the
   source of its group; what is left unconnected is referred to by nobody.  (Scalar ports: the scalar ConnTypes after flattening.) *)
Definition bct_ports (d : bdesign) (m : bmodule) (x : binst) : result unit :=
  match bi_of x with
  | TMod k =>
      c <- nth_bmod d k ;;
      all_ok (fun pt : bool * btree =>
                if fst pt then
                  match bassoc (BundleSpec.bname (snd pt)) (bi_conns x) with
                  | Some _ => Ok tt
                  | None => check (0 <? brefs_to m (bi_name x) (BundleSpec.bname (snd pt))) EMissing
                  end
                else Ok tt) (bm_bundles c)
  | TDev _ _ => Ok tt
  end.

Definition bct_inst (d : bdesign) (m : bmodule) (x : binst) : result unit :=
  if (bi_n x <=? 0) then _ <- all_ok (bct_conn d m x) (bi_conns x) ;; bct_ports d m x else Ok tt.
Definition bct_module (d : bdesign) (m : bmodule) : result unit := all_ok (bct_inst d m) (bm_insts m).
Definition bundle_conntypes (d : bdesign) : result unit := all_ok (bct_module d) (bd_mods d).

Definition checked_bundle_pipeline (xi : xinfo) (d : bdesign) : result package :=
  d1 <- ib_design d ;;
  _ <- bundle_conntypes d1 ;;
  d' <- flat_design d1 ;;
  checked_pipeline2 xi d'.

Inductive bstage := SBInstBundles | SBConnTypes | SBFlatten | SBOf (s : stage2).

Definition checked_bundle_run (xi : xinfo) (d : bdesign) : bstage * result package :=
  match ib_design d with
  | Error e => (SBInstBundles, Error e)
  | Ok d1 =>
  match bundle_conntypes d1 with
  | Error e => (SBConnTypes, Error e)
  | Ok _ =>
  match flat_design d1 with
  | Error e => (SBFlatten, Error e)
  | Ok d' => let r := checked_run2 xi d' in (SBOf (fst r), snd r)
  end end end.

(* ------------------------------------------------------------------------------------------------ fault classes on a connection *)
(* a bundle that the module does not own (owned by another module, or by none), at any depth of an anonymous bundle *)
Fixpoint mentions_orphan (m : bmodule) (bx : bexpr) : bool :=
  match bx with
  | BXInst b _ => match find_bundle (bm_bundles m) b with Some _ => false | None => true end
  | BXAnon ms => (fix go (l : list (name * bexpr)) : bool :=
                    match l with [] => false | nb :: r => mentions_orphan m (snd nb) || go r end) ms
  | _ => false
  end.

(* a reference b.pre to a member the bundle's definition does not have, at any depth of an anonymous bundle *)
Definition bad_member (m : bmodule) (b : name) (pre : mpath) : bool :=
  match find_bundle (bm_bundles m) b, pre with
  | Some bt, _ :: _ => match member_width (snd bt) pre, subtree pre (snd bt) with None, None => true | _, _ => false end
  | _, _ => false
  end.
Fixpoint mentions_bad_member (m : bmodule) (bx : bexpr) : bool :=
  match bx with
  | BXInst b pre => bad_member m b pre
  | BXAnon ms => (fix go (l : list (name * bexpr)) : bool :=
                    match l with [] => false | nb :: r => mentions_bad_member m (snd nb) || go r end) ms
  | _ => false
  end.

(* a Pair's anonymous bundle: a member other than p / n (extra), or p / n not there (missing) *)
Definition pair_anon_extra (bx : bexpr) : bool :=
  match bx with
  | BXAnon ms => negb (forallb (fun nb : name * bexpr => String.eqb (fst nb) (pair_elem 0) || String.eqb (fst nb) (pair_elem 1)) ms)
  | _ => false
  end.
Definition pair_anon_missing (bx : bexpr) : bool :=
  match bx with
  | BXAnon ms => match bassoc (pair_elem 0) ms, bassoc (pair_elem 1) ms with Some _, Some _ => false | _, _ => true end
  | _ => false
  end.

(* a bundle instance / sub-bundle reference on a bundle-valued port whose definition differs from the port's (member names or
   member widths, at any level): the "connection whose width differs from its port's ... through a bundle" of the statement *)
Definition bundle_type_mismatch (d : bdesign) (m : bmodule) (x : binst) (c : name * bexpr) : bool :=
  match port_kind_of d (bi_of x) (fst c), snd c with
  | Ok (PKBundle tp), BXInst b pre =>
      match find_bundle (bm_bundles m) b with
      | Some bt => match subtree pre (snd bt) with Some st => negb (tree_compat tp st) | None => false end
      | None => false
      end
  | _, _ => false
  end.
