(* Model/C05Module.v — a Module as the code holds it: TWO views of its attributes.

   hdl21/module.py keeps every attribute twice: in `module.namespace` (all names) and in one of the per-type containers
   (`ports`, `signals`, `instances`, `instarrays`, `instbundles`, `bundles`).  Model/C05Naming.v abstracts a Module to its
   namespace, because `flatname(avoid=module.namespace)` reads nothing else.  That abstraction is only sound while the two
   views list the same attributes: `Module._add` decides what to DELETE by looking at the containers, not at the namespace,

       for ctr in (ports, signals, instances, instarrays, instbundles, bundles):
           if ctr is not type_ctr and val.name in ctr:  del ctr[val.name]; module.namespace.pop(val.name, None)
       type_ctr[val.name] = val;  module.namespace[val.name] = val

   so a name that is free in the namespace but still held by a container is not protected by flatname at all: the object
   holding it is silently deleted (cross-kind) or replaced (same kind).  The dissolving passes keep the views together by
   popping an object from its container and from the namespace in adjacent statements, right before its parts are inserted

       name, inst = module.instbundles.popitem();  module.namespace.pop(name);  self.elaborate_instance_bundle(module, inst)

   This file models both views, `_add` on both, the two halves of a pop as separate steps (so that a history in which they
   are NOT adjacent can be written down), and proves in Proofs/C05ModuleProofs.v that the histories of the repaired code
   keep the views equal and refine the namespace-only histories of Model/C05Naming.v. *)
From Coq Require Import String Ascii.
Require Import Hdl21.Base.PyInt Hdl21.Spec.BundleSpec Hdl21.Model.BundleFlat Hdl21.Model.C05Naming.
Require Import Hdl21Gen.C10Tables.
Open Scope string_scope.
Open Scope list_scope.
Open Scope Z_scope.

(* m_ctr: the per-type containers, as one insertion-ordered list; the container an entry lives in is its object's kind.
   (A name held by two containers would be two entries; `_add` never produces that - state invariant NoDup (keys m_ctr).) *)
Record modst := { m_ns : ns; m_ctr : ns }.

(* namespace[k] = o : position kept when the key is present, appended otherwise *)
Definition ns_set (k : name) (o : obj) (l : ns) : ns :=
  match lookup k l with Some _ => ns_replace k o l | None => l ++ [(k, o)] end.

(* module.py:_add on both views.  Containers: another kind holds the name -> deleted there, then type_ctr[k] = o
   (= C05Naming.ns_add on the container list).  Namespace: popped only when ANOTHER container held the name, then set. *)
Definition m_add (k : name) (o : obj) (m : modst) : modst :=
  let cross := match lookup k (m_ctr m) with
               | Some old => negb (okind_eqb (o_kind old) (o_kind o))
               | None => false
               end in
  {| m_ns := ns_set k o (if cross then ns_remove k (m_ns m) else m_ns m);
     m_ctr := ns_add k o (m_ctr m) |}.

Inductive mop :=
| MPopCtr (n : name) (kd : okind)     (* `name, x = module.<container kd>.popitem()` *)
| MPopNs (n : name)                   (* `module.namespace.pop(name)` *)
| MPop (n : name) (kd : okind)        (* the two in adjacent statements, as every dissolving pass of the repaired code has them *)
| MInvent (s : site) (o : obj).       (* name = flatname(segments, avoid=module.namespace); module.add(object named name) *)

(* popitem() returned the entry, so the container holds it: anything else is a history no execution has (EMissing) *)
Definition pop_ctr (n : name) (kd : okind) (m : modst) : result modst :=
  match lookup n (m_ctr m) with
  | Some o => if okind_eqb (o_kind o) kd then Ok {| m_ns := m_ns m; m_ctr := ns_remove n (m_ctr m) |} else Error EMissing
  | None => Error EMissing
  end.

Definition pop_ns (n : name) (m : modst) : modst := {| m_ns := ns_remove n (m_ns m); m_ctr := m_ctr m |}.

Definition mstep (m : modst) (x : mop) : result (modst * list name) :=
  match x with
  | MPopCtr n kd => m' <- pop_ctr n kd m ;; Ok (m', [])
  | MPopNs n => Ok (pop_ns n m, [])
  | MPop n kd => m' <- pop_ctr n kd m ;; Ok (pop_ns n m', [])
  | MInvent s o => n <- invent s (m_ns m) ;; Ok (m_add n o m, [n])
  end.

Fixpoint mrun (m : modst) (ops : list mop) : result (modst * list name) :=
  match ops with
  | [] => Ok (m, [])
  | x :: rest =>
      r <- mstep m x ;;
      r' <- mrun (fst r) rest ;;
      Ok (fst r', snd r ++ snd r')
  end.

(* the histories of the repaired code: whole pops and inventions only *)
Definition whole (x : mop) : bool := match x with MPop _ _ | MInvent _ _ => true | _ => false end.

(* the same history seen by the namespace-only model *)
Fixpoint erase (ops : list mop) : list op :=
  match ops with
  | [] => []
  | MPop n _ :: r => OpPop n :: erase r
  | MInvent s o :: r => OpInvent s o :: erase r
  | MPopNs n :: r => OpPop n :: erase r
  | MPopCtr _ _ :: r => erase r
  end.

(* the two views list the same attributes *)
Definition magree (m : modst) : Prop :=
  NoDup (keys (m_ctr m)) /\ forall k, lookup k (m_ns m) = lookup k (m_ctr m).

(* ---- the passes' step sequences over both views ---- *)
Definition m_of_op (kd : okind) (x : op) : mop :=
  match x with OpPop n => MPop n kd | OpInvent s o => MInvent s o end.

(* InstBundleElabPass.elaborate_module: `while module.instbundles: name, inst = popitem(); namespace.pop(name); elaborate_instance_bundle` -
   one block per Instance Bundle, in whatever order popitem yields them *)
Fixpoint instbundle_pass (bs : list (name * list name)) (id0 : N) : list mop :=
  match bs with
  | [] => []
  | (ib, members) :: r => map (m_of_op KPair) (pair_ops ib members id0) ++ instbundle_pass r (id0 + N.of_nat (List.length members))
  end.

(* the same pass with the namespace pops hoisted in front of the loop (seeded change C05r3-A):
   `for name in module.instbundles: namespace.pop(name)` then `while module.instbundles: _, inst = popitem(); elaborate_instance_bundle` *)
Definition unpop (x : mop) : mop := match x with MPop n kd => MPopCtr n kd | y => y end.
Definition instbundle_pass_hoisted (held : list name) (bs : list (name * list name)) (id0 : N) : list mop :=
  map MPopNs held ++ map unpop (instbundle_pass bs id0).      (* held: keys of module.instbundles; bs: what popitem yields until it is empty *)
